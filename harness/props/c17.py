"""C17 — Sketchy memory reallocation respects the memory budget.

Correspondence (K): `reallocation.create_redist_dict(states=...)` is called on synthetic in-memory
optimizer states (1..8 layers, nested layer paths, 1..3 axes per layer, dims from a pool — shared and
unshared —, all five scoring rules of `score_fn`, with and without running average over several states,
base ranks incl. 0 and > dim, tied / zero / generic / scale-disparate scores) in two configurations:
  * x64 + float64 leaves: every scalar operation of the function is one IEEE-double operation, the
    `Float` run of the Lean model (`Model/Realloc.lean`, op `redist_f64`) must give the SAME ranks;
  * default JAX config + float32 leaves (what a user gets): scores and all scalar arithmetic are
    float32, compared with the `Float32` run (`redist_f32`).
Policy EXACT (allocation vectors, assertion kind and arguments).  Inputs of the model are the scores
returned by the real `score_fn` (bit patterns) and the group order produced by the real
`layers_and_axes`/`create_groups` (iteration order of a Python `set`; tie order depends on it).  The
scores themselves are checked against the value the state was built for (exactly for one state and the
trace/tail rules, to a few ulps otherwise).  The exact `Rat` run (`redist_rat`, the instance theorem
`bounds_exact_rat` speaks about) is executed on the same scores: it must succeed with 1 <= rank <= dim
and the budget — an executed instance of the theorem — and its agreement with the float run is counted.

Search oracle (S), no reference to the model: every sketched axis has an integer rank with
1 <= rank <= dim, each group of equal dimension sums to at most size x base rank; the result has one list
per layer with one slot per axis id.  An exception (including the function's own AssertionError) for
base rank >= 1, dims >= 1 and finite non-negative scores means no rank was assigned: violation.
Base rank < 1 is rejected by the function's first assert (compared with the model, not an oracle matter).

Extension stream "tree" (x64): the WHOLE function is modelled (`Model/ReallocState.lean`, ops `pipe_f64` / `pipe_rat`):
generated nested state trees (layers at depth 1..4, 1..3 axes, several layers sharing a dim, `dim` field on some axes,
unsketched parameters as empty dicts / `{"axes": {}}` / dicts of non-dict values, list and None leaves, 1..3 states
with and without running average, all five rules) go through the real `layers_and_axes`, `create_groups`,
`score_fn`, `create_redist_dict` and through the model; compared EXACT: layer-name set, `num_axes`, groups, dims,
score bit patterns (statistics are small integers times powers of two so every reduction XLA orders is exact; the
quotients and the mean's scaling are single IEEE operations the `Float` model repeats; `jnp.linalg.norm(., 2)` is an
external kernel whose observed value is an input of the model; how `jnp.mean` rounds is measured on the platform —
`mean_calibration`), and the returned nested dict.  Malformed trees (non-dict value at the top, layer directly under
the root, non-digit axis key, axis-id gap, missing statistic) must be rejected by both.  Direct oracle of the
stream: every sketched axis has an integer rank in 1..dim at slot `id` of the list stored at its layer path, no
other path holds an entry, unused slots are 0, and per group sum(d * rank) <= size * d * min(d, base rank).
"""
import json
import os
import random
from fractions import Fraction

from harness import kit

RULES = ["tail_rho", "sketch_trace", "ggt_trace", "sketch_intrinsic_rank", "ggt_intrinsic_rank"]
EXACT_RULES = ("tail_rho", "sketch_trace", "ggt_trace")
DIM_POOL = [1, 2, 3, 4, 5, 7, 8, 12, 16, 33]
HASHSEED = "17"          # set for the worker processes: set iteration order becomes reproducible (replays)
WEIGHTS = {1: [[1.0]], 2: [[0.5, 0.5], [0.75, 0.25], [1.0, 0.0]], 3: [[0.5, 0.25, 0.25], [0.25, 0.25, 0.5], [0.5, 0.5, 0.0]]}


# ----------------------------------------------------------------------------- exact number helpers
def _np_dt(x64):
    import numpy as np
    return np.float64 if x64 else np.float32


def fhex(x, x64):
    return kit.f64_hex(x) if x64 else kit.f32_hex(x)


def hexf(s, x64):
    return kit.hex_f64(s) if x64 else float(kit.hex_f32(s))


# ----------------------------------------------------------------------------- case generation
def _rand_score(rng, x64, cls):
    """A non-negative finite score of class `cls`, exactly representable in the dtype (returned as python float)."""
    import numpy as np
    dt = _np_dt(x64)
    if cls == "zero":
        return 0.0
    if cls == "smallint":
        return float(rng.randint(0, 5))
    if cls == "generic":
        return float(dt(rng.uniform(0.01, 10.0)))
    if cls == "disparate":            # many orders of magnitude, below the absorption threshold most of the time
        e = rng.randint(-20, 20) if not x64 else rng.randint(-40, 40)
        return float(dt(rng.uniform(1.0, 2.0) * 2.0 ** e))
    if cls == "extreme":              # ratios beyond the mantissa: small scores are absorbed by the sum
        e = rng.choice([0, 0, 1, 2]) + (rng.randint(22, 30) if not x64 else rng.randint(51, 60)) * rng.choice([0, 1])
        m = rng.choice([1.0, 1.0, 1.5, float(dt(rng.uniform(1.0, 2.0)))])
        return float(dt(m * 2.0 ** e))
    raise ValueError(cls)


def _axis_value(rng, x64, rule, cls, tie_pool):
    """Description of the statistic an axis holds in one state, from which leaves are built and the
    expected score is computed."""
    if rule in EXACT_RULES:
        if cls == "tied" and tie_pool:
            t = rng.choice(tie_pool)
        else:
            t = _rand_score(rng, x64, "generic" if cls == "tied" else cls)
            tie_pool.append(t)
        return {"t": fhex(t, x64), "w": rng.randint(0, 2), "noise": rng.randint(0, 10 ** 6)}
    # intrinsic-rank rules: small integer spectrum times a power of two
    ln = rng.randint(1, 4)
    if cls == "zero" and rule == "sketch_intrinsic_rank":
        v = [0] * ln
    elif cls == "tied" and tie_pool:
        v = list(rng.choice(tie_pool))
    else:
        v = [rng.randint(0, 9) for _ in range(ln)]
        if max(v) == 0:
            v[0] = 1
        tie_pool.append(tuple(v))
    return {"v": v, "e": rng.randint(-8, 8), "noise": rng.randint(0, 10 ** 6)}


def gen_case(rng, cid, x64=None, rule=None):
    x64 = rng.random() < 0.5 if x64 is None else x64
    rule = rule or rng.choice(RULES)
    nlayers = rng.randint(1, 8)
    pool = rng.sample(DIM_POOL, rng.randint(1, 4))
    if rule == "ggt_intrinsic_rank":
        pool = [d for d in pool if d <= 8] or [3]
    max_axes = rng.choice([1, 2, 2, 3])
    profile = rng.choice(["generic", "smallint", "tied", "zero_mix", "disparate", "extreme", "all_zero", "mixed"])
    rank = rng.choice([1, 1, 2, 2, 3, 4, 5, 8, 16, 40]) if rng.random() < 0.93 else 0
    avg = rng.random() < 0.3
    nstates = rng.choice([1, 1, 2, 3]) if (avg or rng.random() < 0.2) else 1
    used = set()
    layers = []
    tie_pool = []
    for li in range(nlayers):
        while True:
            depth = rng.choice([1, 1, 2, 3])
            path = [rng.choice(["enc", "dec", "blk", "mlp", "attn", "p"]) + str(rng.randint(0, 99)) for _ in range(depth - 1)]
            path.append(rng.choice(["w", "kernel", "emb", "l"]) + str(rng.randint(0, 999)))
            if "/".join(path) not in used and not any(u.startswith("/".join(path) + "/") or ("/".join(path)).startswith(u + "/") for u in used):
                used.add("/".join(path))
                break
        naxes = rng.randint(1, max_axes)
        ids = list(range(naxes))      # Sketchy states have one axis entry per tensor dimension, numbered from 0
        axes = []
        for a in ids:
            d = rng.choice(pool)
            vals = []
            for _ in range(nstates):
                if profile == "zero_mix":
                    cls = rng.choice(["zero", "zero", "smallint", "generic"])
                elif profile == "all_zero":
                    cls = "zero"
                elif profile == "mixed":
                    cls = rng.choice(["zero", "smallint", "generic", "tied", "disparate"])
                else:
                    cls = profile
                if rule == "ggt_intrinsic_rank" and cls == "zero":
                    cls = "smallint"     # trace(0)/norm(0) is NaN: not a non-negative score (see report)
                vals.append(_axis_value(rng, x64, rule, cls, tie_pool))
            axes.append({"id": a, "dim": d, "vals": vals})
        layers.append({"path": path, "axes": axes})
    return {"id": cid, "x64": x64, "rule": rule, "avg": avg, "nstates": nstates, "rank": rank,
            "dim_field": rng.random() < 0.3, "profile": profile, "layers": layers}


def simple_case(cid, x64, dims, scores, rank, rule="tail_rho"):
    layers = [{"path": [f"l{i}"], "axes": [{"id": 0, "dim": d, "vals": [{"t": fhex(s, x64), "w": 0, "noise": i}]}]}
              for i, (d, s) in enumerate(zip(dims, scores))]
    return {"id": cid, "x64": x64, "rule": rule, "avg": False, "nstates": 1, "rank": rank, "dim_field": False,
            "profile": "corpus", "layers": layers}


def grid_cases(tier):
    """Small exhaustive family: one group, n axes of dim d, base rank k, scores from a tiny alphabet (tail_rho)."""
    out = []
    alphabet = [0.0, 1.0, 2.0, 5.0, 20.0] if tier == "quick" else [0.0, 1.0, 2.0, 3.0, 5.0, 20.0, 100.0]
    import itertools
    cid = 0
    for n in (2, 3) if tier == "quick" else (2, 3, 4):
        for d in (2, 3, 5) if tier == "quick" else (1, 2, 3, 5, 7):
            for k in (1, 2, 3, 4) if tier == "quick" else (1, 2, 3, 4, 6):
                for sc in itertools.combinations_with_replacement(alphabet, n):
                    cid += 1
                    out.append(dict(simple_case(f"grid{cid}", cid % 2 == 0, [d] * n, list(sc), k), profile="grid"))
    return out


def _score_patterns(n, rng=None):
    """Score vectors of length n from the pattern classes: all zero; one non-zero; k non-zero equal; one huge + small ones; all equal.
    Exhaustive over the alphabet {0, 1, 2, 2^20} when `rng` is None, otherwise one random member per class with random values."""
    big = float(2 ** 20)
    if rng is None:
        pats = [[0.0] * n]
        for v in (1.0, big):
            pats.append([v] + [0.0] * (n - 1))
            if n > 1:
                pats.append([0.0] * (n - 1) + [v])
        for k in range(2, n):
            pats.append([1.0] * k + [0.0] * (n - k))
            pats.append([0.0] * (n - k) + [2.0] * k)
        if n > 1:
            pats.append([big] + [1.0] * (n - 1))
            pats.append([1.0] * (n - 1) + [big])
            pats.append([big] + [2.0] + [0.0] * (n - 2))
            pats.append([big] + [(1.0 if i % 2 else 0.0) for i in range(n - 1)])
            pats.append([big, big] + [1.0] * (n - 2))
        pats.append([1.0] * n)
        pats.append([2.0] * n)
        pats.append([big] * n)
        seen, out = set(), []
        for q in pats:
            if tuple(q) not in seen:
                seen.add(tuple(q))
                out.append(q)
        return out
    small = lambda: float(rng.choice([1, 1, 2, 3, 5]))  # noqa: E731
    huge = float(2 ** rng.randint(10, 40))
    k = rng.randint(1, n)
    cls = rng.choice(["zero", "one", "kequal", "huge", "equal", "kmixed"])
    if cls == "zero":
        q = [0.0] * n
    elif cls == "one":
        q = [rng.choice([small(), huge])] + [0.0] * (n - 1)
    elif cls == "kequal":
        q = [small()] * k + [0.0] * (n - k)
    elif cls == "huge":
        q = [huge] * rng.randint(1, max(1, min(3, n - 1))) 
        q += [rng.choice([0.0, small()]) for _ in range(n - len(q))]
    elif cls == "equal":
        q = [rng.choice([small(), huge])] * n
    else:
        q = [small() for _ in range(k)] + [0.0] * (n - k)
    q = q[:n]
    rng.shuffle(q)
    return [q]


def family_cases():
    """EXHAUSTIVE family (both tiers): one group of n axes of dimension d, base rank k, tail_rho scores in the pattern classes of
    `_score_patterns`: d 2..6 x k 1..d x n 1..6, plus larger groups n in (8, 10, 12) with d in (8, 16)."""
    out = []
    cid = 0
    combos = [(d, k, n) for d in range(2, 7) for k in range(1, d + 1) for n in range(1, 7)]
    combos += [(d, k, n) for d in (8, 16) for k in (1, 2, 3, 4, 6, d - 1, d) for n in (8, 10, 12)]
    for d, k, n in combos:
        for sc in _score_patterns(n):
            cid += 1
            out.append(dict(simple_case(f"fam{cid}:d{d}k{k}n{n}", cid % 3 != 0, [d] * n, sc, k), profile="family"))
    return out


def widened_cases(rng, count):
    """Random members of the same families over a wider range (used only after a lean / translate / correspondence stage failed:
    the model no longer describes the code, so look harder for an input on which the property itself fails)."""
    out = []
    for i in range(count):
        d = rng.choice([2, 3, 4, 5, 6, 8, 12, 16, 33])
        k = rng.randint(1, d + 1)
        n = rng.choice([1, 2, 3, 4, 5, 6, 8, 10, 12, 16])
        sc = _score_patterns(n, rng)[0]
        out.append(dict(simple_case(f"wide{i}:d{d}k{k}n{n}", rng.random() < 0.7, [d] * n, sc, k), profile="widened"))
    return out


def corpus_cases():
    out = []
    d = os.path.join(kit.ROOT, "corpus", "C17")
    if os.path.isdir(d):
        for f in sorted(os.listdir(d)):
            if f.endswith(".json"):
                data = json.load(open(os.path.join(d, f)))
                for c in data.get("cases", []):
                    c = dict(c)
                    c["id"] = "corpus:" + f + ":" + str(c.get("id", ""))
                    out.append(c)
    return out


# ----------------------------------------------------------------------------- implementation runner (worker)
def _build_states(case):
    """Synthetic optimizer states (numpy leaves) and, per axis name, the per-state expected op value."""
    import numpy as np
    x64 = case["x64"]
    dt = _np_dt(x64)
    rule = case["rule"]
    k = max(1, case["rank"])
    states = []
    expected = {}
    for si in range(case["nstates"]):
        sketches = {}
        for L in case["layers"]:
            cur = sketches
            for p in L["path"]:
                cur = cur.setdefault(p, {})
            axd = cur.setdefault("axes", {})
            for A in L["axes"]:
                d = A["dim"]
                val = A["vals"][si]
                r = max(1, min(d, k))
                nrng = np.random.RandomState(val["noise"] % (2 ** 31))
                # decoys everywhere first (a wrong target / wrong state would be visible in the scores)
                leaf = {"eigvecs": np.zeros((d, r), dt),
                        "eigvals": dt(nrng.randint(1, 50, size=r)).astype(dt),
                        "tail": dt(nrng.randint(1, 50)),
                        "ema_ggt": np.diag(dt(nrng.randint(1, 50, size=d))).astype(dt)}
                if rule in EXACT_RULES:
                    t = dt(hexf(val["t"], x64))
                    m = min(3, r if rule == "sketch_trace" else d)
                    w = np.array(WEIGHTS[m][val["w"] % len(WEIGHTS[m])], dt)
                    exp = t
                    if rule == "tail_rho":
                        leaf["tail"] = t
                    elif rule == "sketch_trace":
                        ev = np.zeros(r, dt)
                        ev[:m] = t * w
                        leaf["eigvals"] = ev[nrng.permutation(r)]
                    else:
                        g = dt(nrng.randint(-3, 4, size=(d, d)))
                        g = (g + g.T).astype(dt)
                        diag = np.zeros(d, dt)
                        diag[:m] = t * w
                        diag = diag[nrng.permutation(d)]
                        g[np.arange(d), np.arange(d)] = diag
                        leaf["ema_ggt"] = g
                else:
                    v = np.array(val["v"], dt) * dt(2.0 ** val["e"])
                    if rule == "sketch_intrinsic_rank":
                        leaf["eigvals"] = v.astype(dt)
                        exp = dt(0) if float(v.sum()) == 0 else dt(v.sum()) / dt(v.max())
                    else:
                        spec = np.zeros(d, dt)
                        m = min(d, len(v))
                        spec[:m] = v[:m]
                        if spec.max() == 0:
                            spec[0] = dt(2.0 ** val["e"])
                        perm = nrng.permutation(d)
                        P = np.eye(d, dtype=dt)[perm]
                        leaf["ema_ggt"] = (P @ np.diag(spec) @ P.T).astype(dt)
                        exp = dt(spec.sum()) / dt(spec.max())
                if case["dim_field"]:
                    leaf["dim"] = int(d)
                axd[str(A["id"])] = leaf
                name = "/".join(L["path"]) + "/axes/" + str(A["id"])
                expected.setdefault(name, []).append(float(exp))
        states.append({"inner_state": {"0": {"direction": {"1": {"sketches": sketches}}}}})
    return tuple(states), expected


def run_impl(task):
    """task = {"x64": bool, "cases": [...]}: runs the real code; returns one observation per case."""
    import numpy as np
    import jax
    jax.config.update("jax_enable_x64", bool(task["x64"]))
    import jax.numpy as jnp  # noqa: F401
    from precondition.tearfree import reallocation as R
    out = []
    for case in task["cases"]:
        obs = {"hashseed": os.environ.get("PYTHONHASHSEED")}
        try:
            x64 = case["x64"]
            states, expected = _build_states(case)
            sketches = states[-1]["inner_state"]["0"]["direction"]["1"]["sketches"]
            names, num_axes = R.layers_and_axes(sketches)
            order = list(names)
            groups = R.create_groups(sketches, names)
            sd = R.score_fn(states, case["rule"], names, case["avg"])
            obs["order"] = order
            obs["num_axes"] = int(num_axes)
            obs["groups"] = [[int(d), list(g)] for d, g in groups.items()]
            obs["score_dtype"] = sorted({str(np.asarray(v).dtype) for v in sd.values()})
            obs["scores"] = {n: fhex(np.asarray(sd[n]).astype(_np_dt(x64)), x64) for n in order}
            obs["expected"] = expected
            try:
                res = R.create_redist_dict("", [], case["rule"], case["avg"], case["rank"], states=states)
                obs["result"] = json.loads(json.dumps(res, default=lambda o: {"__nonint__": repr(o)}))
                obs["types_ok"] = _all_int(res)
            except AssertionError as e:
                a = e.args[0] if e.args else None
                obs["assertion"] = [(_plain(x)) for x in a] if isinstance(a, tuple) else repr(a)
            except Exception as e:  # noqa: BLE001
                obs["exception"] = type(e).__name__ + ": " + str(e)[:200]
        except Exception as e:  # noqa: BLE001
            obs["harness_exception"] = type(e).__name__ + ": " + str(e)[:300]
        out.append(obs)
    return out


def _plain(x):
    try:
        return int(x)
    except Exception:  # noqa: BLE001
        return str(x)


def _all_int(res):
    if isinstance(res, dict):
        return all(_all_int(v) for v in res.values())
    if isinstance(res, list):
        return all(type(v) is int for v in res)
    return False


# ----------------------------------------------------------------------------- evaluation
def _axes_of(case):
    out = {}
    for L in case["layers"]:
        for A in L["axes"]:
            out["/".join(L["path"]) + "/axes/" + str(A["id"])] = (L["path"], A["id"], A["dim"])
    return out


def _lookup(res, path, aid):
    cur = res
    for p in path:
        cur = cur[p]
    return cur[aid]


def _expected_score(case, vals):
    import numpy as np
    dt = _np_dt(case["x64"])
    v = [dt(x) for x in (vals if case["avg"] else vals[-1:])]
    if len(v) == 1:
        return float(v[0]), True
    if len(v) == 2:
        return float((v[0] + v[1]) / dt(2)), True
    return float(np.mean(np.array(v, dt))), False


def evaluate(ctx, case, obs, rep_f, rep_q, stats):
    import math
    x64 = case["x64"]
    axes = _axes_of(case)
    k = case["rank"]
    if "harness_exception" in obs:
        raise kit.InfraError(f"case {case['id']}: {obs['harness_exception']}")
    # ---- bookkeeping read off the real helpers must be sane (independent of the model)
    ok_order = sorted(obs["order"]) == sorted(axes)
    bydim = {}
    for n, (_p, _a, d) in axes.items():
        bydim.setdefault(d, set()).add(n)
    ok_groups = {d: set(g) for d, g in obs["groups"]} == bydim
    ctx.corr("layers_and_axes/create_groups", ok_order and ok_groups)
    if not (ok_order and ok_groups):
        ctx.disagree("layers_and_axes/create_groups", case, {"order": obs["order"], "groups": obs["groups"]}, sorted(axes))
        return
    # ---- scores: dtype and value
    want_dtype = ["float64"] if x64 else ["float32"]
    dtype_ok = obs["score_dtype"] == want_dtype or (case["rule"] == "sketch_intrinsic_rank")
    scores = {n: hexf(h, x64) for n, h in obs["scores"].items()}
    sc_ok = True
    for n in obs["order"]:
        exp, exact = _expected_score(case, obs["expected"][n])
        got = scores[n]
        if case["rule"] in EXACT_RULES and exact:
            good = got == exp
        else:
            tol = (1e-12 if x64 else 2e-5) * max(abs(exp), 1e-300)
            good = abs(got - exp) <= tol
        sc_ok = sc_ok and good
    ctx.corr("score_fn", sc_ok and dtype_ok)
    if not (sc_ok and dtype_ok):
        ctx.disagree("score_fn", case, {"scores": scores, "dtype": obs["score_dtype"]},
                     {n: _expected_score(case, obs["expected"][n])[0] for n in obs["order"]},
                     "score differs from the statistic the state was built for (or unexpected dtype)")
    hyp = all(math.isfinite(s) and s >= 0 for s in scores.values())
    if not hyp:
        stats["hypothesis_not_met"] += 1
    # ---- implementation outcome
    if "result" in obs:
        impl = {"ok": {n: _lookup(obs["result"], p, a) for n, (p, a, _d) in axes.items()}}
    elif "assertion" in obs:
        impl = {"assert": obs["assertion"]}
    else:
        impl = {"exception": obs.get("exception")}
    # ---- model outcome (float run) and comparison
    idx = {n: i for i, n in enumerate(obs["order"])}

    def model_view(rep):
        if "ok" in rep:
            m = {}
            for _d, prs in rep["ok"]:
                for key, r in prs:
                    m[obs["order"][key]] = r
            return {"ok": m}
        if "err" in rep:
            return {"assert": rep["detail"], "kind": rep["err"]}
        return {"error": rep}
    mf = model_view(rep_f)
    mq = model_view(rep_q)
    opname = "redist_f64" if x64 else "redist_f32"
    if "ok" in impl:
        agree = mf.get("ok") == impl["ok"]
    elif "assert" in impl:
        a = impl["assert"]
        agree = ("assert" in mf and isinstance(a, list) and
                 ((len(a) == 2 and mf["kind"] in ("baseRank", "overBudget") and a == mf["assert"]) or
                  (len(a) == 3 and mf["kind"] == "rankExceedsDim" and a[1:] == mf["assert"])))
    else:
        agree = False
    if "exception" in impl and not hyp:
        stats["nonfinite_skipped"] += 1       # int(nan) etc. on scores outside the hypothesis: not modelled
    else:
        ctx.corr(opname, agree)
        if not agree:
            ctx.disagree(opname, case, impl, mf, f"group order {obs['order']} scores {obs['scores']}")
    # ---- the exact instance of the theorem, executed
    if hyp and k >= 1:
        okq = "ok" in mq and all(1 <= r <= axes[n][2] for n, r in mq["ok"].items()) and \
            all(sum(mq["ok"][n] for n in g) <= len(g) * k for g in bydim.values())
        ctx.corr("redist_rat satisfies bounds_exact_rat", okq)
        if not okq:
            ctx.disagree("redist_rat satisfies bounds_exact_rat", case, None, mq, "executed instance contradicts the theorem")
        if "ok" in mf and "ok" in mq:
            stats["float_eq_exact" if mf["ok"] == mq["ok"] else "float_ne_exact(rounding)"] += 1
    # ---- direct oracle on the implementation
    ctx.cov["search_evaluations"] += 1
    if k >= 1 and hyp:
        if "ok" in impl:
            bad = []
            for n, r in impl["ok"].items():
                d = axes[n][2]
                if type(r) is not int or not (1 <= r <= d):
                    bad.append(f"axis {n} (dim {d}) rank {r}")
            for d, g in bydim.items():
                tot = sum(impl["ok"][n] for n in g if type(impl["ok"][n]) is int)
                if tot > len(g) * k:
                    bad.append(f"group dim {d}: ranks sum {tot} > {len(g)} x {k}")
            # shape of the returned dictionary: one list per layer, one slot per axis id, unused slots 0
            for L in case["layers"]:
                lst = _lookup_path(obs["result"], L["path"])
                ids = {A["id"] for A in L["axes"]}
                if not isinstance(lst, list) or len(lst) != obs["num_axes"] or \
                        any(lst[i] != 0 for i in range(len(lst)) if i not in ids):
                    bad.append(f"layer {'/'.join(L['path'])}: malformed entry {lst}")
            if bad:
                _report(ctx, case, obs, scores, "; ".join(bad[:4]), stats)
            stats["outcome:" + ("full" if all(sum(impl["ok"][n] for n in g) == len(g) * k for g in bydim.values()) else "under_budget")] += 1
        else:
            what = ("AssertionError " + str(impl.get("assert"))) if "assert" in impl else str(impl.get("exception"))
            _report(ctx, case, obs, scores, f"no ranks assigned: {what} for finite non-negative scores, base rank {k}", stats)
            stats["outcome:raised"] += 1
    elif k < 1:
        stats["outcome:base_rank_lt_1:" + ("rejected" if "assert" in impl else "accepted")] += 1


def _lookup_path(res, path):
    cur = res
    for p in path:
        cur = cur[p]
    return cur


def _cancellation_signature(case, obs, scores):
    """True when, in some group, the float running total (sum in group order, then subtraction in sorted
    order) falls below the score being served while the exact remaining mass is positive."""
    import numpy as np
    dt = _np_dt(case["x64"])
    for _d, g in obs["groups"]:
        vals = [dt(scores[n]) for n in g]
        T = dt(0)
        for v in vals:
            T = dt(T + v)
        srt = sorted(range(len(vals)), key=lambda i: -float(vals[i]))
        for i in srt:
            if float(T) < float(vals[i]) and float(vals[i]) > 0:
                return True
            T = dt(T - vals[i])
    return False


def _report(ctx, case, obs, scores, what, stats):
    if _cancellation_signature(case, obs, scores):
        stats["violations:total_score_cancellation"] += 1
        what += " [signature of the defect repaired in b9b95e4: a float running total_score would cancel below the score being served]"
    else:
        stats["violations:other"] += 1
    ctx.violation(what, {"case": case, "scores": {n: obs["scores"][n] for n in obs["order"]}, "order": obs["order"],
                         "impl": obs.get("result", obs.get("assertion", obs.get("exception")))})


def nontrivial_key(case, obs):
    """Non-trivial: some group has >= 2 axes, base rank >= 2 (there is resource to move) and scores not all zero."""
    if case["rank"] < 2:
        return None
    for _d, g in obs.get("groups", []):
        if len(g) >= 2 and any(int(obs["scores"][n], 16) != 0 for n in g):
            return (case["x64"], case["rule"], case["rank"], tuple(sorted((tuple(g2), d) for d, g2 in obs["groups"])),
                    tuple(obs["scores"][n] for n in obs["order"]))
    return None


def execute(ctx, cases, stats):
    by = {True: [c for c in cases if c["x64"]], False: [c for c in cases if not c["x64"]]}
    tasks = []
    for x64, cs in by.items():
        for ch in kit.chunked(cs, max(1, min(80, len(cs) // 7 + 1))):
            tasks.append({"x64": x64, "cases": ch})
    old = os.environ.get("PYTHONHASHSEED")
    os.environ["PYTHONHASHSEED"] = HASHSEED
    try:
        results = kit.parallel_map(run_impl, tasks, nproc=14)
    finally:
        if old is None:
            os.environ.pop("PYTHONHASHSEED", None)
        else:
            os.environ["PYTHONHASHSEED"] = old
    pairs = [(c, o) for t, r in zip(tasks, results) for c, o in zip(t["cases"], r)]
    reqs = []
    for c, o in pairs:
        if "order" not in o:
            reqs += [{"op": "noop"}, {"op": "noop"}]
            continue
        ax = _axes_of(c)
        axes_f = [[i, ax[n][2], o["scores"][n]] for i, n in enumerate(o["order"])]
        axes_q = [[i, ax[n][2], _rat_of(hexf(o["scores"][n], c["x64"]))] for i, n in enumerate(o["order"])]
        reqs.append({"op": "redist_f64" if c["x64"] else "redist_f32", "rank": c["rank"], "axes": axes_f})
        reqs.append({"op": "redist_rat", "rank": c["rank"], "axes": axes_q})
    replies = ctx.driver(reqs)
    for i, (c, o) in enumerate(pairs):
        ctx.evaluated()
        ctx.dist(("x64" if c["x64"] else "f32") + ":" + c["rule"])
        ctx.dist("profile:" + c["profile"])
        evaluate(ctx, c, o, replies[2 * i], replies[2 * i + 1], stats)
        key = nontrivial_key(c, o)
        if key is not None:
            ctx.nontrivial(key)
    return pairs


# ============================================================================= extension: whole pipeline on state trees
# (traversal + scoring + allocation + returned dict; `Model/ReallocState.lean`, ops pipe_f64 / pipe_rat)
#
# A case is a list of "spec trees" (one per state): dict = dict, leaf = ["s", x] | ["v", [x..]] | ["m", [[x..]..]] |
# ["shape", [d, r]] | ["i", n] | ["o", kind].  All numbers are small integers times a power of two chosen so that
# every sum the scoring forms (jnp.sum, jnp.trace, the sum inside jnp.mean for the trace/tail rules) is exact in
# float64 in ANY order (policy EXACT-DYADIC for the reductions whose order XLA owns); quotients and the mean's
# scaling are single IEEE operations the Float model repeats.

def _dy(rng, hi, e):
    return float(rng.randint(0, hi)) * 2.0 ** e


def _tree_axis_leafs(rng, d, r, rule, e0, zero, tie, with_ggt, dim_field):
    """One `_AxisState` as a spec dict."""
    # with a `dim` entry the group key is that entry, NOT eigvecs.shape[0]: make the two differ
    ax = {"eigvecs": ["shape", [d + (rng.choice([0, 1, 3]) if dim_field else 0), r]], "inv_eigvals": ["o", "arr"], "inv_tail": ["o", "arr"]}
    if zero:
        ev = [0.0] * r
        tail = 0.0
    elif tie is not None:
        ev = [tie] + [0.0] * (r - 1)
        tail = tie
    else:
        ev = [_dy(rng, 1000, e0 + rng.randint(0, 6)) for _ in range(r)]
        tail = _dy(rng, 1 << 20, e0)
    ax["eigvals"] = ["v", ev]
    ax["tail"] = ["s", tail]
    if with_ggt:
        g = [[float(rng.randint(-3, 3)) * 2.0 ** e0 for _ in range(d)] for _ in range(d)]
        for i in range(d):
            for j in range(i):
                g[i][j] = g[j][i]
            g[i][i] = 0.0 if zero and rule != "ggt_intrinsic_rank" else _dy(rng, 500, e0)
        if rule == "ggt_intrinsic_rank" and all(g[i][i] == 0.0 for i in range(d)):
            g[0][0] = 2.0 ** e0          # an all-zero ema_ggt gives 0/0 = NaN: outside the hypothesis (see notes)
        if tie is not None:
            g = [[(tie if i == j == 0 else 0.0) for j in range(d)] for i in range(d)]
        ax["ema_ggt"] = ["m", g]
    else:
        ax["ema_ggt"] = ["o", "masked"]   # optax.MaskedNode() when add_ggt is off
    if dim_field:
        ax["dim"] = ["i", d]
    return ax


def gen_tree_case(rng, cid, malformed=None):
    rule = rng.choice(RULES)
    nlayers = rng.randint(1, 7)
    pool = rng.sample([2, 3, 4, 5, 7, 8, 12], rng.randint(1, 3))
    if rule.startswith("ggt"):
        pool = [d for d in pool if d <= 8] or [3]
    rank = rng.choice([1, 2, 2, 3, 4, 5, 8, 16]) if rng.random() < 0.95 else 0
    avg = rng.random() < 0.4
    nstates = rng.choice([1, 2, 3]) if (avg or rng.random() < 0.3) else 1
    e0 = rng.randint(-20, 20)
    profile = rng.choice(["generic", "generic", "zero_mix", "tied", "all_zero"])
    used = []
    layers = []
    tie = _dy(rng, 50, e0) + 2.0 ** e0
    for _ in range(nlayers):
        while True:
            depth = rng.choice([1, 1, 2, 3, 4])
            path = [rng.choice(["enc", "dec", "blk", "mlp", "attn", "pp"]) + str(rng.randint(0, 30)) for _ in range(depth - 1)]
            path.append(rng.choice(["ww", "kernel", "emb", "ll"]) + str(rng.randint(0, 99)))
            if not any(u[:len(path)] == path or path[:len(u)] == u for u in used):
                used.append(path)
                break
        naxes = rng.randint(1, 3)
        axes = []
        for a in range(naxes):
            d = rng.choice(pool)
            axes.append({"id": a, "dim": d, "r": max(1, min(d, max(rank, 1))), "dim_field": rng.random() < 0.25,
                         "cls": [("zero" if (profile == "all_zero" or (profile == "zero_mix" and rng.random() < 0.5)) else
                                  "tie" if (profile == "tied" and rng.random() < 0.6) else "gen") for _ in range(nstates)]})
        layers.append({"path": path, "axes": axes})
    # unsketched parameters and stray non-dict values (must not receive an entry)
    unsk = []
    for _ in range(rng.randint(0, 3)):
        while True:
            path = [rng.choice(["enc", "dec", "norm", "bias", "b"]) + str(rng.randint(0, 30)) for _ in range(rng.randint(1, 3))]
            if not any(u[:len(path)] == path or path[:len(u)] == u for u in used):
                used.append(path)
                break
        unsk.append({"path": path, "kind": rng.choice(["empty_axes", "empty", "masked_leaf", "list_leaf"])})
    states = []
    for si in range(nstates):
        sk = {}
        for L in layers:
            cur = sk
            for p in L["path"]:
                cur = cur.setdefault(p, {})
            axd = cur.setdefault("axes", {})
            for A in L["axes"]:
                cls = A["cls"][si]
                axd[str(A["id"])] = _tree_axis_leafs(rng, A["dim"], A["r"], rule, e0, cls == "zero",
                                                     tie if cls == "tie" else None,
                                                     rule.startswith("ggt") or rng.random() < 0.3, A["dim_field"])
        for U in unsk:
            cur = sk
            for p in U["path"][:-1]:
                cur = cur.setdefault(p, {})
            last = U["path"][-1]
            if U["kind"] == "empty_axes":
                cur[last] = {"axes": {}}
            elif U["kind"] == "empty":
                cur[last] = {}
            elif U["kind"] == "masked_leaf":       # a non-dict value under a key of >= 2 characters inside a dict of >= 2-character name
                cur[last] = {"state": ["o", "none"], "count": ["i", 3]}
            else:
                cur[last] = {"history": ["o", "list"]}
        if malformed == "top_leaf":
            sk["count"] = ["i", 1]                  # parent_key '' -> name[-2] IndexError
        elif malformed == "toplevel_axes" and layers:
            sk["axes"] = {"0": _tree_axis_leafs(rng, 3, 1, rule, e0, False, None, True, False)}   # dirs empty -> IndexError
        elif malformed == "nondigit_axis" and layers:
            cur = sk
            for p in layers[0]["path"]:
                cur = cur[p]
            cur["axes"]["x"] = _tree_axis_leafs(rng, 3, 1, rule, e0, False, None, True, False)    # int('x') ValueError
        elif malformed == "axis_gap" and layers:
            cur = sk
            for p in layers[0]["path"]:
                cur = cur[p]
            cur["axes"]["7"] = _tree_axis_leafs(rng, 3, 1, rule, e0, False, None, True, False)    # slot 7 of a short row
        elif malformed == "missing_target" and layers:
            cur = sk
            for p in layers[0]["path"]:
                cur = cur[p]
            del cur["axes"]["0"][{"tail_rho": "tail", "sketch_trace": "eigvals", "sketch_intrinsic_rank": "eigvals"}.get(rule, "ema_ggt")]
        states.append({"inner_state": {"0": {"direction": {"1": {"sketches": sk}}}, "count": ["i", 5]}, "extra": ["o", "none"]})
    return {"id": cid, "kind": "tree", "x64": True, "rule": rule, "avg": avg, "rank": rank, "profile": profile,
            "malformed": malformed, "layers": layers, "unsketched": unsk, "states": states}


def _spec_to_numpy(t):
    import numpy as np
    if isinstance(t, dict):
        return {k: _spec_to_numpy(v) for k, v in t.items()}
    tag = t[0]
    if tag == "s":
        return np.float64(t[1])
    if tag == "v":
        return np.array(t[1], np.float64)
    if tag == "m":
        return np.array(t[1], np.float64)
    if tag == "shape":
        return np.zeros(tuple(t[1]), np.float64)
    if tag == "i":
        return int(t[1])
    return {"list": [1, 2], "none": None, "arr": np.ones(2), "masked": (), "str": "x"}.get(t[1])


def _spec_to_model(t, norm_fn, rat):
    """Spec tree -> driver JSON (floats as bit patterns or exact rationals; kernel value of norm(., 2) attached)."""
    num = (lambda x: kit.rat_str(Fraction(float(x)))) if rat else (lambda x: kit.f64_hex(float(x)))
    if isinstance(t, dict):
        return {k: _spec_to_model(v, norm_fn, rat) for k, v in t.items()}
    tag = t[0]
    if tag == "s":
        return ["s", num(t[1])]
    if tag == "v":
        return ["v", [num(x) for x in t[1]]]
    if tag == "m":
        return ["m", [[num(x) for x in row] for row in t[1]], num(norm_fn(t[1]))]
    if tag == "shape":
        return ["shape", list(t[1])]
    if tag == "i":
        return ["i", int(t[1])]
    return ["o"]


def mean_calibration_task(_):
    """How does the platform round jnp.mean of n float64 values?  ('recip': sum * fl(1/n); 'div': sum / n; sum left to right)"""
    import numpy as np
    import jax
    jax.config.update("jax_enable_x64", True)
    import jax.numpy as jnp
    rng = random.Random(171717)
    cnt = {"n": 0, "recip": 0, "div": 0}
    for _ in range(400):
        n = rng.choice([1, 2, 3, 3, 3])
        v = [np.float64(rng.uniform(0.1, 10) * 2.0 ** rng.randint(-20, 20)) for _ in range(n)]
        got = float(jnp.mean(jnp.array(v)))
        s = np.float64(0)
        for x in v:
            s = s + x
        cnt["n"] += 1
        cnt["recip"] += got == float(s * (np.float64(1) / np.float64(n)))
        cnt["div"] += got == float(s / np.float64(n))
    return cnt


def run_impl_tree(task):
    import numpy as np
    import jax
    jax.config.update("jax_enable_x64", True)
    import jax.numpy as jnp
    from precondition.tearfree import reallocation as R
    out = []
    norms = {}

    def norm_fn(rows):
        key = json.dumps(rows)
        if key not in norms:
            norms[key] = float(jnp.linalg.norm(np.array(rows, np.float64), 2))
        return norms[key]
    for case in task["cases"]:
        obs = {"hashseed": os.environ.get("PYTHONHASHSEED")}
        try:
            states = tuple(_spec_to_numpy(s) for s in case["states"])
            try:
                sketches = states[-1]["inner_state"]["0"]["direction"]["1"]["sketches"]
                names, num_axes = R.layers_and_axes(sketches)
                obs["order"] = [n.split("/") for n in names]
                obs["num_axes"] = int(num_axes)
                groups = R.create_groups(sketches, names)
                obs["groups"] = [[int(d), sorted(g)] for d, g in groups.items()]
                sd = R.score_fn(states, case["rule"], names, case["avg"])
                obs["score_order_ok"] = list(sd) == list(names)
                obs["score_dtype"] = sorted({str(np.asarray(v).dtype) for v in sd.values()})
                obs["scores"] = {n: kit.f64_hex(float(np.asarray(sd[n]))) for n in names}
            except Exception as e:  # noqa: BLE001
                obs["helper_exception"] = type(e).__name__ + ": " + str(e)[:200]
            try:
                res = R.create_redist_dict("", [], case["rule"], case["avg"], case["rank"], states=states)
                obs["result"] = json.loads(json.dumps(res, default=lambda o: {"__nonint__": repr(o)}))
                obs["types_ok"] = _all_int(res)
            except AssertionError as e:
                a = e.args[0] if e.args else None
                obs["assertion"] = [(_plain(x)) for x in a] if isinstance(a, tuple) else repr(a)
            except Exception as e:  # noqa: BLE001
                obs["exception"] = type(e).__name__ + ": " + str(e)[:200]
            obs["model_states_f"] = [_spec_to_model(s, norm_fn, False) for s in case["states"]]
            obs["model_states_q"] = [_spec_to_model(s, norm_fn, True) for s in case["states"]]
        except Exception as e:  # noqa: BLE001
            obs["harness_exception"] = type(e).__name__ + ": " + str(e)[:300]
        out.append(obs)
    jax.clear_caches()
    return out


def _leaf_rows(res, prefix=()):
    """All (path, list) leaves of the returned nested dict; anything else is reported as a stray value."""
    out, stray = {}, []
    if isinstance(res, dict):
        for k, v in res.items():
            o, s = _leaf_rows(v, prefix + (k,))
            out.update(o)
            stray += s
    elif isinstance(res, list):
        out[prefix] = res
    else:
        stray.append(prefix)
    return out, stray


def evaluate_tree(ctx, case, obs, rep_f, rep_q, stats, recip):
    import math
    if "harness_exception" in obs:
        raise kit.InfraError(f"case {case['id']}: {obs['harness_exception']}")
    k = case["rank"]
    want_axes = {}
    for L in case["layers"]:
        for A in L["axes"]:
            want_axes[tuple(L["path"]) + ("axes", str(A["id"]))] = (tuple(L["path"]), A["id"], A["dim"])
    impl_ok = "result" in obs
    model_ok = "dict" in rep_f
    if case["malformed"]:
        # outside the property's domain: the model must flag exactly the inputs on which the code raises
        agree = (not impl_ok) and (not model_ok) and "err" in rep_f
        ctx.corr("pipe_f64 malformed-tree classification", agree)
        stats["tree:malformed:" + case["malformed"] + ":" + str(rep_f.get("err"))] += 1
        if not agree:
            ctx.disagree("pipe_f64 malformed-tree classification", _slim(case), obs.get("result", obs.get("exception", obs.get("assertion"))),
                         _slim_rep(rep_f), "model and implementation disagree on whether this malformed tree is rejected")
        return
    # ---- traversal: names, num_axes, groups (EXACT)
    jn = lambda p: "/".join(p)  # noqa: E731
    if "helper_exception" in obs:
        ctx.corr("pipe_f64 traversal", False)
        ctx.disagree("pipe_f64 traversal", _slim(case), obs["helper_exception"], _slim_rep(rep_f), "helper raised on a well-formed tree")
        ctx.violation(f"well-formed state tree rejected: {obs['helper_exception']}", {"case": _slim(case)})
        return
    names_ok = "axes" in rep_f or rep_f.get("err") in ("baseRank", "rankExceedsDim", "overBudget")
    if "axes" in rep_f:
        m_groups = [[d, sorted(jn(p) for p, _r in prs)] for d, prs in rep_f["ranks"]]
        trav = (rep_f["num_axes"] == obs["num_axes"] and m_groups == obs["groups"]
                and [a[0] for a in rep_f["axes"]] == obs["order"] and [a[1] for a in rep_f["axes"]] == [want_axes[tuple(p)][2] for p in obs["order"]])
        ctx.corr("pipe_f64 traversal (names, num_axes, groups, dims)", trav)
        if not trav:
            ctx.disagree("pipe_f64 traversal (names, num_axes, groups, dims)", _slim(case),
                         {"order": obs["order"], "num_axes": obs["num_axes"], "groups": obs["groups"]},
                         {"num_axes": rep_f["num_axes"], "groups": m_groups, "axes": rep_f["axes"]})
        # ---- scores (EXACT bit patterns)
        m_scores = {jn(a[0]): a[2].lower().replace("0x", "") for a in rep_f["axes"]}
        i_scores = {n: h.lower().replace("0x", "") for n, h in obs["scores"].items()}
        sc = m_scores == i_scores and obs["score_dtype"] == ["float64"] and obs["score_order_ok"]
        ctx.corr("pipe_f64 score_fn (bit patterns)", sc)
        if not sc:
            ctx.disagree("pipe_f64 score_fn (bit patterns)", _slim(case), {"scores": obs["scores"], "dtype": obs["score_dtype"]}, m_scores,
                         f"rule {case['rule']} avg {case['avg']} mean mode {'recip' if recip else 'div'}")
        stats["tree:scores:" + case["rule"] + (":avg%d" % len(case["states"]) if case["avg"] else "")] += 1
    elif not names_ok:
        ctx.corr("pipe_f64 traversal (names, num_axes, groups, dims)", False)
        ctx.disagree("pipe_f64 traversal (names, num_axes, groups, dims)", _slim(case), {"order": obs.get("order")}, _slim_rep(rep_f),
                     "model rejects a tree the implementation traverses")
    # ---- returned dictionary (EXACT) / assertion
    if impl_ok:
        agree = model_ok and rep_f["dict"] == obs["result"]
    elif "assertion" in obs:
        a = obs["assertion"]
        agree = (rep_f.get("err") in ("baseRank", "overBudget") and isinstance(a, list) and a == rep_f.get("detail")) or \
                (rep_f.get("err") == "rankExceedsDim" and isinstance(a, list) and a[1:] == rep_f.get("detail"))
    else:
        agree = False
    ctx.corr("pipe_f64 returned dict", agree)
    if not agree:
        ctx.disagree("pipe_f64 returned dict", _slim(case), obs.get("result", obs.get("assertion", obs.get("exception"))),
                     rep_f.get("dict", _slim_rep(rep_f)), f"order {obs.get('order')}")
    scores = {n: kit.hex_f64(h) for n, h in obs.get("scores", {}).items()}
    hyp = bool(scores) and all(math.isfinite(s) and s >= 0 for s in scores.values())
    bydim = {}
    for key, (_p, _a, d) in want_axes.items():
        bydim.setdefault(d, []).append(key)
    # ---- executed instance of realloc_pipeline_bounds / redist_dict_total / realloc_memory_le_uniform (Rat run)
    if hyp and k >= 1:
        okq = "flat" in rep_q
        if okq:
            flat = {tuple(d): row for d, row in rep_q["flat"]}
            rk = {tuple(p): r for _d, prs in rep_q["ranks"] for p, r in prs}
            okq = (set(rk) == set(want_axes) and all(1 <= rk[key] <= want_axes[key][2] for key in rk)
                   and all(sum(rk[key] for key in g) <= len(g) * min(d, k) for d, g in bydim.items())
                   and set(flat) == {want_axes[key][0] for key in want_axes}
                   and all(flat[want_axes[key][0]][want_axes[key][1]] == rk[key] for key in rk)
                   and all(s >= 0 for s in (Fraction(a[2]) for a in rep_q["axes"])))
        ctx.corr("pipe_rat satisfies realloc_pipeline_bounds / redist_dict_total / realloc_memory_le_uniform", okq)
        if not okq:
            ctx.disagree("pipe_rat satisfies realloc_pipeline_bounds / redist_dict_total / realloc_memory_le_uniform", _slim(case), None,
                         _slim_rep(rep_q), "executed instance contradicts the theorems")
    # ---- direct oracle on the implementation (no reference to the model)
    ctx.cov["search_evaluations"] += 1
    if k >= 1 and hyp:
        bad = []
        if impl_ok:
            rows, stray = _leaf_rows(obs["result"])
            dirs = {want_axes[key][0] for key in want_axes}
            if stray:
                bad.append(f"non-list values at {stray[:3]}")
            extra = set(rows) - dirs
            if extra:
                bad.append(f"entries for paths that hold no sketched axis: {sorted(extra)[:3]}")
            for key, (p, a, d) in want_axes.items():
                row = rows.get(p)
                if row is None or a >= len(row):
                    bad.append(f"axis {jn(key)}: no rank entry at its path")
                elif type(row[a]) is not int or not (1 <= row[a] <= d):
                    bad.append(f"axis {jn(key)} (dim {d}) rank {row[a]}")
            if not bad:
                for p, row in rows.items():
                    ids = {a for (pp, a, _d) in want_axes.values() if pp == p}
                    if any(row[i] != 0 for i in range(len(row)) if i not in ids):
                        bad.append(f"layer {jn(p)}: non-zero value in a slot without axis: {row}")
                for d, g in bydim.items():
                    mem = sum(d * rows[want_axes[key][0]][want_axes[key][1]] for key in g)
                    uni = sum(d * min(d, k) for _ in g)
                    if mem > uni:
                        bad.append(f"group dim {d}: sketch memory {mem} > uniform allocation {uni} (base rank {k})")
                    if sum(rows[want_axes[key][0]][want_axes[key][1]] for key in g) > len(g) * k:
                        bad.append(f"group dim {d}: ranks exceed {len(g)} x {k}")
            stats["tree:outcome:ok"] += 1
        else:
            bad.append("no ranks assigned: " + str(obs.get("assertion", obs.get("exception"))))
            stats["tree:outcome:raised"] += 1
        if bad:
            stats["violations:tree"] += 1
            ctx.violation("; ".join(bad[:4]), {"case": _slim(case), "scores": obs.get("scores"), "order": obs.get("order"),
                                               "impl": obs.get("result", obs.get("assertion", obs.get("exception")))})
    elif not hyp:
        stats["tree:hypothesis_not_met"] += 1
        # the generated states satisfy the Sketchy invariants (tail >= 0, eigvals >= 0, ema_ggt diagonal >= 0 and not all
        # zero for ggt_intrinsic_rank): every rule must then give finite non-negative scores (the `scores_nonneg` clause)
        if scores:
            badsc = {n: s for n, s in scores.items() if not (math.isfinite(s) and s >= 0)}
            stats["violations:tree_scores"] += 1
            ctx.violation(f"score_fn({case['rule']}, running_average={case['avg']}) is negative / not finite on a state satisfying the "
                          f"Sketchy invariants: {dict(list(badsc.items())[:3])}",
                          {"case": _slim(case), "scores": obs.get("scores"), "order": obs.get("order")})


def _slim(case):
    return case


def _slim_rep(rep):
    return {k: v for k, v in rep.items() if k in ("err", "detail", "key", "num_axes", "error")} if isinstance(rep, dict) else rep


def execute_tree(ctx, cases, stats, recip):
    if not cases:
        return []
    tasks = [{"cases": ch} for ch in kit.chunked(cases, max(1, min(60, len(cases) // 12 + 1)))]
    old = os.environ.get("PYTHONHASHSEED")
    os.environ["PYTHONHASHSEED"] = HASHSEED
    try:
        results = kit.parallel_map(run_impl_tree, tasks, nproc=14)
    finally:
        if old is None:
            os.environ.pop("PYTHONHASHSEED", None)
        else:
            os.environ["PYTHONHASHSEED"] = old
    pairs = [(c, o) for t, r in zip(tasks, results) for c, o in zip(t["cases"], r)]
    reqs = []
    for c, o in pairs:
        order = o.get("order")
        if order is None:      # the helper raised: let the model traverse in its own order (it must then fail as well)
            order = []
        base = {"rule": c["rule"], "avg": c["avg"], "recip": recip, "rank": c["rank"], "order": order}
        reqs.append(dict(base, op="pipe_f64", states=o.get("model_states_f", [])))
        reqs.append(dict(base, op="pipe_rat", states=o.get("model_states_q", [])))
    replies = ctx.driver(reqs)
    for i, (c, o) in enumerate(pairs):
        ctx.evaluated()
        ctx.dist("tree:" + c["rule"] + (":avg" if c["avg"] else ""))
        ctx.dist("tree-profile:" + (c["malformed"] or c["profile"]))
        evaluate_tree(ctx, c, o, replies[2 * i], replies[2 * i + 1], stats, recip)
        if not c["malformed"] and c["rank"] >= 2 and "scores" in o and \
                any(len(g) >= 2 and any(int(o["scores"][n], 16) != 0 for n in g) for _d, g in o.get("groups", [])):
            ctx.nontrivial(("tree", c["rule"], c["avg"], c["rank"], json.dumps(o["groups"]), tuple(sorted(o["scores"].items()))))
    return pairs


def tree_stage(ctx, rng, stats):
    cal = kit.parallel_map(mean_calibration_task, [0], nproc=1)[0]
    ctx.cov["mean_calibration"] = cal
    if cal["recip"] == cal["n"]:
        recip = True
    elif cal["div"] == cal["n"]:
        recip = False
    else:
        ctx.const_fail("jnp.mean rounding (platform)", f"neither sum*fl(1/n) nor sum/n reproduces jnp.mean on the probe set: {cal}")
        recip = cal["recip"] >= cal["div"]
    ntree = 420 if ctx.tier == "quick" else 2600
    cases = []
    for i in range(ntree):
        mal = None
        if i % 14 == 13:
            mal = ["top_leaf", "toplevel_axes", "nondigit_axis", "axis_gap", "missing_target"][(i // 14) % 5]
        cases.append(gen_tree_case(rng, f"t{ctx.seed}-{i}", mal))
    return execute_tree(ctx, cases, stats, recip)


def _rat_of(x):
    import math
    if not math.isfinite(x):
        return "0"
    return kit.rat_str(Fraction(x))


def model_selftest(ctx):
    """The models of the UNREPAIRED code reproduce the two recorded defects; the model of the current code does not."""
    axes = [[0, 3, "0"], [1, 3, "0"], [2, 3, "1"]]
    big64 = [[0, 4, kit.f64_hex(2.0 ** 53)], [1, 4, kit.f64_hex(1.0)], [2, 4, kit.f64_hex(1.0)]]
    big32 = [[0, 4, kit.f32_hex(2.0 ** 25)], [1, 4, kit.f32_hex(1.0)], [2, 4, kit.f32_hex(1.0)]]
    r = ctx.driver([{"op": "redist_rat", "rank": 2, "variant": "old", "axes": axes},
                    {"op": "redist_rat", "rank": 2, "axes": axes},
                    {"op": "redist_f64", "rank": 4, "variant": "running", "axes": big64},
                    {"op": "redist_f64", "rank": 4, "axes": big64},
                    {"op": "redist_f32", "rank": 4, "variant": "running", "axes": big32},
                    {"op": "redist_f32", "rank": 4, "axes": big32}])
    want = [{"ok": [[3, [[2, 3], [0, 2], [1, 2]]]]}, {"ok": [[3, [[2, 3], [0, 2], [1, 1]]]]},
            {"ok": [[4, [[0, 4], [1, 2], [2, -4]]]]}, {"ok": [[4, [[0, 4], [1, 4], [2, 4]]]]},
            {"ok": [[4, [[0, 4], [1, 2], [2, -4]]]]}, {"ok": [[4, [[0, 4], [1, 4], [2, 4]]]]}]
    ok = r == want
    ctx.corr("model selftest (unrepaired variants reproduce D9 and the negative-rank witness)", ok)
    if not ok:
        ctx.disagree("model selftest", {"axes": [axes, big64, big32]}, None, r)


def const_stage(ctx):
    """Literals the model hard-codes: rd(x) = int(x // 1) + 1, the outlier share is rd(.) - 1, the unit resource
    falls back to 0.0 for a zero total."""
    from harness import consts
    want = {"rd": [1, 1], "is_outlier": [0.0, 1]}
    got = {}
    for fn, lits in want.items():
        try:
            got[fn] = sorted(consts.func_literals("tearfree/reallocation.py", fn), key=float)
        except kit.InfraError:
            got[fn] = None          # helper renamed/inlined: the correspondence run decides
            continue
        if got[fn] != sorted(lits, key=float):
            ctx.const_fail(f"reallocation.{fn} literals", f"expected {lits}, source has {got[fn]}")
    ctx.cov["consts"] = got


def run(ctx):
    from collections import Counter
    kit.gen_stage(ctx)
    ctx.lean_stage(extra_props=("GenRealloc",))
    ctx.notes.append("model tie #2: the body of `for dim in group_dict:` of create_redist_dict (with rd, grp_info, is_outlier; scores as opaque "
                     "scalars) regenerated from the source by harness/py2lean.py on this run; PrecondVerif.GenProps.C17.redist_group_bridge "
                     "(Props/GenRealloc.lean) proves it equal to Realloc.groupRun for every arithmetic, gen_budget_any_arithmetic re-proves the budget on it")
    stats = Counter()
    model_selftest(ctx)
    const_stage(ctx)
    rng = random.Random(ctx.seed * 104729 + 17)
    cases = corpus_cases()
    ncorpus = len(cases)
    cases += grid_cases(ctx.tier)
    cases += family_cases()
    nrand = 1600 if ctx.tier == "quick" else 9000
    for i in range(nrand):
        cases.append(gen_case(rng, f"r{ctx.seed}-{i}"))
    ctx.cov["rule"] = ("corpus witnesses first; exhaustive grid (one group of 2-3[4] axes, dims, base ranks, score multisets over a small "
                       "alphabet, tail_rho, alternating float32/float64); exhaustive pattern family (one group: dims 2..6 x base rank 1..dim x size 1..6, "
                       "plus sizes 8/10/12 with dims 8/16; scores over {0,1,2,2^20}: all zero / one non-zero / k equal non-zero / huge + small / all equal); "
                       "after a failed lean/translate/correspondence stage a x10 random search in these families; seeded random layer sets (1..8 layers, nested paths, 1..3 axes, "
                       "dims from a pool, 5 scoring rules, running average, base rank 0..40, score profiles generic/smallint/tied/"
                       "zero_mix/all_zero/disparate/extreme/mixed). Non-trivial: base rank >= 2 and some group with >= 2 axes and a "
                       "non-zero score; distinct by (dtype, rule, rank, grouping, score bit patterns). Tree stream: seeded nested state trees "
                       "(see module docstring), 1 in 14 malformed")
    ctx.assumptions += [
        "comparison policy EXACT: ranks per axis, assertion kind and arguments (Float model for x64/float64, Float32 model for the default float32 configuration)",
        "group/tie order is an input of the model: read from the real layers_and_axes/create_groups in the same process (Python set order; PYTHONHASHSEED fixed in workers for reproducibility, names randomised)",
        "scores fed to the model are the bit patterns returned by the real score_fn; they are separately checked against the statistic the state was built for",
        "ggt_intrinsic_rank on an all-zero ema_ggt gives NaN (0/0): not a non-negative score, excluded from generation",
        "tree stream: iteration order of the Python set of layer names is an input of the model (checked there to be a permutation of the model's own name set); "
        "jnp.linalg.norm(x, 2) is an external kernel (observed value fed to the model, theorems assume only >= 0); "
        "the rounding of jnp.mean (sum * fl(1/n) on XLA CPU) is measured by the mean_calibration stage and passed to the model; "
        "keys are non-empty and contain no '/' (the model works on path components)",
    ]
    pairs = execute(ctx, cases, stats)
    tree_stage(ctx, random.Random(ctx.seed * 7919 + 1717), stats)
    if ctx.stage_failures and not ctx.violations:
        # the model / bridge no longer describes the code and no failing input is known yet: widen the search in the
        # pattern families (x10) through the direct oracle before the run concludes "no failing input found"
        nwide = 20000 if ctx.tier == "quick" else 60000
        stats["widened_search_cases"] = nwide
        ctx.notes.append(f"a lean/translate/const/correspondence stage failed without a failing input: widened search over {nwide} random "
                         "instances of the pattern families (dims 2..33, base rank 1..dim+1, groups of 1..16)")
        execute(ctx, widened_cases(random.Random(ctx.seed * 31337 + 4), nwide), stats)
    ctx.cov["corpus_cases"] = ncorpus
    ctx.cov["stats"] = dict(stats)
    for c, o in pairs[:: max(1, len(pairs) // 6)]:
        ctx.sample({"case_id": c["id"], "x64": c["x64"], "rule": c["rule"], "rank": c["rank"], "groups": o.get("groups"),
                    "scores": {n: hexf(h, c["x64"]) for n, h in o.get("scores", {}).items()},
                    "impl": o.get("result", o.get("assertion", o.get("exception")))})


def replay(ctx, data):
    from collections import Counter
    cases = [v["case"]["case"] for v in data.get("violations", []) if isinstance(v.get("case"), dict) and "case" in v["case"]]
    cases += [s["detail"]["case"] for s in data.get("stage_failures", [])
              if isinstance(s.get("detail"), dict) and isinstance(s["detail"].get("case"), dict) and "layers" in s["detail"]["case"]]
    ctx.cov["rule"] = "replay of recorded cases"
    stats = Counter()
    tree_cases = [c for c in cases if c.get("kind") == "tree"]
    cases = [c for c in cases if c.get("kind") != "tree"]
    if cases:
        execute(ctx, cases, stats)
    if tree_cases:
        cal = kit.parallel_map(mean_calibration_task, [0], nproc=1)[0]
        execute_tree(ctx, tree_cases, stats, cal["recip"] >= cal["div"])
    ctx.cov["stats"] = dict(stats)
