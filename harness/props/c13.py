"""C13 — device-count invariance of the distributed preconditioner computation.

Search oracle (S), independent of the Lean model — the property text on the real code:
  * `jax.pmap(opt.update)` over D = 1..8 forced host devices, every device fed the same gradients, for parameter
    trees with N = 1..~30 statistics (all residues mod D), full / int16-quantized / compressed / reused /
    frequent-directions preconditioners, Newton and eigh: after every step every leaf of (updates, state) on
    EVERY device must equal the D = 1 run (and the `batch_axis_name=None` jit run) — bitwise equality is recorded,
    TOL decides (see `_tol`); a run that raises on D devices while the one-device run works is a violation;
  * sharded mode (`shard_optimizer_states`, jit under a device mesh of 1..8 devices) for several
    `num_devices_for_pjit`: updates, local state and the N real slots of the global arrays must equal the
    `num_devices_for_pjit = 1` run;
  * `unbatch(batch(xs, D)) == xs` on tagged arrays (also elements with unit dimensions).

Correspondence (K) with `Model/Devices.lean` (driver `drv_c13`), policy EXACT:
  * `ds.batch` / `ds.unbatch` called directly on tagged arrays vs the model's `batch` / `unbatch` (b2 = 1 included);
  * the traced update (`jax.make_jaxpr(opt.update, axis_env=[(axis, D)])`, D = 1..16, no execution) with recording
    wrappers around `ds.batch` / `ds.unbatch`: number of padded statistics, the padded exponent and padding-start
    lists (fillers: exponent 1, start 0), the `[D, b]` layout of both after `batch`, the shapes handed to `unbatch`
    and the `all_gather` output shapes in the jaxpr vs the model's `pmap_plan`;
  * executed pmap runs: which one-device root each stored preconditioner of the D-device run is (nearest match)
    vs the model's `kept_ids`;
  * sharded: length of the global arrays from `init_fn` / `shape_and_dtype_fn` / after updates, the exponent
    vector (fillers 1), filler statistics = identity, `index_start`/`sizes` views vs the model's `sharded_plan`.

Discontinuities: before two runs are compared the Newton iteration counts / `total_retries` are compared; a
difference is a `branch-flip`: counted, never a disagreement; it excuses only the leaves of the parameter that owns
the flipped statistic (from that step on), all other parameters keep being compared. eigh kinds have no branches.
"""
import os
import random

from harness import kit, consts

TOL = 1e-6
AXIS = "batch"
KINDS = ["full", "eigh", "quant", "quant_eigh", "comp", "comp_reuse", "comp_neg", "fd", "reuse", "quant_comp",
         "quant_reuse"]
SHARDED_KINDS = ["full", "eigh", "comp", "comp_reuse", "reuse", "fd"]


# ============================================================================ case generation
def n_stats(shape, block):
    """number of statistics of a leaf (best_effort_shape_interpretation=False, PreconditionerType.ALL)."""
    if len(shape) == 0:
        return 0
    k = 1
    for d in shape:
        k *= -(-d // block)
    return len(shape) * k


def _candidates(block):
    c = [[d] for d in range(1, 8)]
    c += [[a, b] for a in range(1, 8) for b in range(1, 8)]
    c += [[a, b, d] for a in (1, 2, 3) for b in (1, 2, 3) for d in (2, 3)]
    return [(s, n_stats(s, block)) for s in c]


def tree_for(N, rng, block, need_dim=0, big=False):
    """a list of leaf shapes whose statistics count is exactly N (0 allowed: only skipped leaves).
    big: every dimension in 4..7 (used with block 8), so that every statistic is larger than |compression_rank| + 2 and
    takes the low-rank / frequent-directions path — the only consumer of the previous preconditioner."""
    cands = _candidates(block)
    if big:
        cands = [(s, k) for s, k in cands if min(s) >= 4 and (len(s) < 2 or max(s) <= 6)]
        cands += [([4, 4, 4], n_stats([4, 4, 4], block))]
    leaves, rem = [], N
    while rem > 0:
        ok = [(s, k) for s, k in cands if k <= rem and (rem > 6 or k <= 3 or k == rem)]
        s, k = rng.choice(ok)
        leaves.append(list(s))
        rem -= k
    if need_dim and leaves and max(max(s) for s in leaves) < need_dim:
        # enlarge a dimension without changing the count (need_dim <= block)
        i = rng.randrange(len(leaves))
        leaves[i] = [need_dim if j == 0 else d for j, d in enumerate(leaves[i])]
    for _ in range(rng.choice([0, 1, 1, 2]) if N else 2):
        leaves.insert(rng.randrange(len(leaves) + 1), [])      # scalar: skipped, a state without statistics
    assert sum(n_stats(s, block) for s in leaves) == N, (leaves, N)
    return leaves


LOWRANK_KINDS = ("comp", "comp_reuse", "comp_neg", "fd", "quant_comp")
FAULT_KINDS = ["full", "eigh", "reuse", "comp", "full", "eigh"]     # float paths (int16 of a NaN is not defined)


def well_posed_tree(N, rng):
    """matrices a x b with 4 <= a, b <= 6 and |a - b| <= 1 (block 8) — every statistic is a full-rank, generically
    non-degenerate Gram matrix larger than rank + 2 from the first step on — plus one vector when N is odd and a scalar."""
    leaves = []
    for _ in range(N // 2):
        a = rng.choice([4, 5, 6])
        leaves.append([a, max(4, min(6, a + rng.choice([-1, 0, 0, 1])))])
    if N % 2:
        leaves.append([rng.choice([4, 5])])
    leaves.insert(rng.randrange(len(leaves) + 1), [])
    return leaves


def make_cfg(kind, rng):
    cfg = {"kind": kind, "block": rng.choice([4, 4, 6]), "beta2": rng.choice([1.0, 0.999]),
           "eps": rng.choice([1e-3, 1e-3, 1e-3, 1e-2, 1e-2, 1e-6]), "start": rng.choice([1, 1, 2]), "pi": rng.choice([1, 1, 2]),
           "eigh": kind in ("eigh", "quant_eigh"), "quant": kind.startswith("quant"), "rank": 0, "reuse": False,
           "fd": False, "graft": rng.choice(["SGD", "RMSPROP_NORMALIZED", "ADAGRAD"])}
    if kind in ("comp", "comp_reuse", "quant_comp"):
        cfg["rank"] = 1
    if kind == "comp_neg":
        cfg["rank"] = -1
    if kind in LOWRANK_KINDS and rng.random() < 0.75:
        cfg["block"] = 8
    if kind == "fd":
        cfg.update(rank=1, reuse=True, fd=True, pi=1)      # frequent_directions requires equal statistics / preconditioner intervals
    if kind in ("comp_reuse", "reuse", "quant_reuse"):
        cfg["reuse"] = True
    return cfg


def _need_dim(cfg):
    return abs(cfg["rank"]) + 3 if cfg["rank"] else 0


def _mk(kind_of_task, N, cfg, rng, gid, seed, T, **kw):
    shapes = kw.pop("shapes", None) or tree_for(N, rng, cfg["block"], _need_dim(cfg), big=(cfg["block"] == 8))
    t = {"kind": kind_of_task, "N": N, "shapes": shapes, "cfg": cfg, "T": T, "gseed": seed * 100003 + gid}
    t.update({k: v for k, v in kw.items() if v is not None})
    return t


def gen_tasks(tier, seed):
    rng = random.Random(seed * 104729 + 13)
    quick = tier == "quick"
    tasks, gid = [], 0
    kinds = list(KINDS)
    rng.shuffle(kinds)
    T = 3 if quick else 4
    # ---------------- executed pmap runs
    if quick:
        n0 = 1 + (5 * seed) % 16
        # 8 consecutive N; N = n0 + i runs on the D > i: for every D the D consecutive N = n0 .. n0+D-1 cover all residues
        plan = [(n0 + i, [D for D in range(2, 9) if i < D]) for i in range(8)]
        extra = rng.sample([n for n in range(1, 31) if not (n0 <= n < n0 + 8)], 4)
        if n0 != 1:
            extra[0] = 1                                                # N < D for every D >= 2
        plan += [(n, sorted(rng.sample(range(2, 9), 3))) for n in extra]
        for i, (N, Ds) in enumerate(plan):
            gid += 1
            tasks.append(_mk("pmap", N, make_cfg(kinds[i % len(kinds)], rng), rng, gid, seed, T, Ds=Ds))
    else:
        for N in range(1, 31):
            for j in range(3):
                gid += 1
                tasks.append(_mk("pmap", N, make_cfg(kinds[(N * 3 + j) % len(kinds)], rng), rng, gid, seed, T,
                                 Ds=list(range(2, 9))))
    # ---------------- previous-preconditioner consumers: frequent directions (prev IS the sketch) and warm-started reuse;
    # every statistic on the low-rank path, >= 3 preconditioner computations, N >= 2 D, against the one-device run
    def dedicated(kind, N, Ds, task="pmap", **kw):
        nonlocal gid
        gid += 1
        cfg = make_cfg(kind, rng)
        cfg.update(block=8, eps=1e-3, beta2=0.999, start=1, pi=1)
        return _mk(task, N, cfg, rng, gid, seed, 4, shapes=well_posed_tree(N, rng), Ds=Ds, **kw)
    if quick:
        tasks.append(dedicated("fd", 10 + seed % 3, Ds=[2, 3, 5]))
        tasks.append(dedicated("reuse", 8 + seed % 4, Ds=[2, 4]))
        tasks.append(dedicated("comp_reuse", 9, Ds=[3]))
    else:
        for kind in ("fd", "reuse", "comp_reuse", "quant_reuse"):
            for N in (6, 9, 12, 16):
                tasks.append(dedicated(kind, N, Ds=[D for D in range(2, 9) if N >= 2 * D]))
    # ---------------- fault histories: one NaN / Inf entry in one parameter's gradient at one step, everything else healthy
    def faulty(task, N, kind, **kw):
        nonlocal gid
        gid += 1
        cfg = make_cfg(kind, rng)
        cfg.update(pi=1, start=1)
        t = _mk(task, N, cfg, rng, gid, seed, 4, **kw)
        owners = [i for i, s_ in enumerate(t["shapes"]) if len(s_) > 0]
        t["fault"] = {"step": rng.choice([0, 1, 1, 2]), "param": rng.choice(owners), "entry": rng.randrange(64),
                      "value": rng.choice(["nan", "nan", "inf", "-inf"])}
        return t
    fk = list(FAULT_KINDS)
    rng.shuffle(fk)
    for i in range(2 if quick else 12):
        tasks.append(faulty("pmap", rng.randint(3, 12), fk[i % len(fk)], Ds=[2, 3, 6] if quick else list(range(2, 9))))
    for i in range(1 if quick else 6):
        tasks.append(faulty("sharded", rng.randint(3, 12), fk[(i + 2) % len(fk)],
                            runs=[(2, 1), (3, 3), (6, 2)] if quick else [(2, 1), (2, 2), (3, 3), (6, 2), (4, 4), (8, 8), (5, 1)]))
    tasks.append(dedicated("fd", 8, Ds=None, task="sharded", runs=[(2, 2), (4, 1), (3, 3)]))
    # ---------------- executed sharded runs: (num_devices_for_pjit, mesh size)
    all_runs = [(2, 1), (3, 1), (4, 1), (5, 1), (6, 1), (7, 1), (8, 1), (2, 2), (3, 3), (4, 4), (8, 8), (6, 3), (8, 4),
                (4, 2), (5, 5), (7, 7), (6, 6), (6, 2), (16, 8), (12, 4)]
    skinds = list(SHARDED_KINDS)
    rng.shuffle(skinds)
    sN = ([0] + rng.sample(range(1, 25), 6)) if quick else ([0, 0] + list(range(1, 31)) + rng.sample(range(1, 31), 8))
    for i, N in enumerate(sN):
        gid += 1
        runs = rng.sample(all_runs, 5 if quick else 9)
        if not any(m > 1 for _, m in runs):
            runs[0] = (4, 4)
        cfg = make_cfg(skinds[i % len(skinds)], rng)
        tasks.append(_mk("sharded", N, cfg, rng, gid, seed, T, runs=sorted(runs),
                         empty_tree=(N == 0 and i % 2 == 1)))
    # ---------------- traced plans (no execution): D up to 16, N = 0 included
    tr = []
    Ns = list(range(0, 31)) if not quick else sorted(set([0, 1, 2] + rng.sample(range(3, 31), 9)))
    for N in Ns:
        for j in range(1 if quick else 3):
            gid += 1
            cfg = make_cfg(kinds[(N + j) % len(kinds)], rng)
            Ds = list(range(1, 17)) if not quick else sorted(set([1] + rng.sample(range(2, 17), 6)))
            tr.append(_mk("trace", N, cfg, rng, gid, seed, 1, Ds=Ds))
    per = 4 if quick else 7
    for ch in kit.chunked(tr, per):
        tasks.append({"kind": "trace_group", "cases": ch})
    # ---------------- batch / unbatch called directly
    unit = []
    for D in range(1, 10):
        for b in ([1, 2, 3] if quick else [1, 2, 3, 4, 7]):
            unit.append({"n": D * b, "D": D, "elem": rng.choice([[], [1], [1, 1], [2, 3], [2]])})
    tasks.append({"kind": "unit", "cases": unit})
    return tasks


# ============================================================================ worker helpers (real code)
def _grads(shapes, names, T, gseed, fault=None):
    import numpy as np
    import jax.numpy as jnp
    rs = np.random.RandomState(gseed % (2 ** 31))
    out = [{n: np.asarray(rs.randn(*s), np.float32) for n, s in zip(names, shapes)} for _ in range(T)]
    if fault:
        g = out[min(fault["step"], T - 1)][names[fault["param"]]]
        g.reshape(-1)[fault["entry"] % g.size] = {"nan": np.nan, "inf": np.inf, "-inf": -np.inf}[fault["value"]]
    return [{n: jnp.asarray(v) for n, v in st.items()} for st in out]


def _build(cfg, mode, npjit=None):
    from jax.sharding import PartitionSpec as P
    from precondition import distributed_shampoo as ds
    kw = dict(block_size=cfg["block"], beta2=cfg["beta2"], matrix_epsilon=cfg["eps"],
              start_preconditioning_step=cfg["start"], preconditioning_compute_steps=cfg["pi"],
              best_effort_shape_interpretation=False, eigh=cfg["eigh"], generate_training_metrics=True,
              graft_type=getattr(ds.GraftingType, cfg["graft"]))
    if cfg["quant"]:
        kw["best_effort_memory_usage_reduction"] = True
    if cfg["rank"]:
        kw["compression_rank"] = cfg["rank"]
    if cfg["reuse"]:
        kw["reuse_preconditioner"] = True
    if cfg["fd"]:
        kw["frequent_directions"] = True
    if mode == "pmap":
        kw["batch_axis_name"] = AXIS
    elif mode == "replicated":
        kw["batch_axis_name"] = None
    elif mode == "sharded":
        spec = P("x", None, None)
        kw.update(batch_axis_name=None, shard_optimizer_states=True, statistics_partition_spec=spec,
                  preconditioner_partition_spec=spec, num_devices_for_pjit=npjit)
    return ds.distributed_shampoo(0.1, **kw)


def _flat(tree, prefix):
    import numpy as np
    import jax
    leaves, _ = jax.tree_util.tree_flatten_with_path(tree)
    return [(prefix + jax.tree_util.keystr(p), np.asarray(x)) for p, x in leaves]


def _cat(path):
    if path.startswith("U"):
        return "update"
    if "training_metrics" in path:
        for k in ("inverse_pth_root_errors", "inverse_pth_root_iters", "final_error_ratio", "max_eigen_value", "total_retries"):
            if path.endswith("." + k):
                return "metrics." + k
        return "metrics.other"
    for k, c in (("diagonal_statistics", "diagonal_statistics"), ("diagonal_momentum", "diagonal_momentum"),
                 (".statistics", "statistics"), (".preconditioners", "preconditioners"), (".momentum", "momentum"),
                 ("avg_grad", "avg_grad"), (".count", "count"), (".exponents", "exponents")):
        if k in path:
            return c
    return "other"


ROOT_FREE = ("statistics", "diagonal_statistics", "avg_grad", "count", "exponents")


def _kappa(stats, eps, rank=0, fd=False):
    """conditioning factor of TOL for one list of statistics: worst condition number of the ridge-regularised
    statistics. Low-rank preconditioners store individual eigenvectors of the statistic (`_low_rank_root`: the |rank|
    LARGEST eigen-directions for rank > 0, the |rank| SMALLEST for rank < 0; statistics of size <= |rank| + 2 take the
    full root): a (near-)degenerate eigenvalue at the retained end makes the stored eigenvector arbitrary within its
    eigenspace (C10's spectral-gap caveat), so the factor also covers 10 * lambda_max / (smallest gap among the retained
    eigenvalues and between them and the first elided one). Frequent directions decompose the sketch, not the stored
    statistic: there every consecutive gap counts (conservative)."""
    import numpy as np
    k = 1.0
    r = abs(rank)
    for S in stats:
        S = np.asarray(S, np.float64)
        if S.size == 0 or not np.isfinite(S).all():
            continue
        w = np.linalg.eigvalsh((S + S.T) / 2)
        lmax = max(float(w[-1]), 0.0)
        lmin = max(float(w[0]), 0.0)
        ridge = eps * lmax
        if lmin + ridge > 0:
            k = max(k, (lmax + ridge) / (lmin + ridge))
        elif lmax > 0:
            k = float("inf")
        if r and len(w) > r + 2 and lmax > 0:
            gaps = np.diff(w)
            if not fd:
                gaps = gaps[len(w) - r - 1:] if rank > 0 else gaps[:r]
            gap = float(np.min(gaps))
            k = max(k, 10.0 * lmax / gap) if gap > 0 else float("inf")   # x10: observed noise reached 0.46 of lmax/gap
    return k


def _conds(stats_by_param, eps, rank, fd=False):
    """parameter name -> conditioning factor; "_max" for leaves that belong to no single parameter."""
    out = {n: _kappa(ss, eps, rank, fd) for n, ss in stats_by_param.items()}
    out["_max"] = max(out.values(), default=1.0)
    return out


def _tol(cat, kappa):
    """TOL(1e-6 * conditioning): leaves that do not pass through an inverse root (statistics, diagonal statistics,
    counters) use 1e-6 flat; root-dependent leaves 1e-6 * max(1, kappa) (observed rounding noise of two differently
    batched programs: about 5e-8 * kappa)."""
    if cat in ROOT_FREE:
        return TOL
    return TOL * max(1.0, kappa)


_FRAC = [0.0, ""]    # largest observed (difference / tolerance) of the current run and the leaf category it occurred in


def _cmp_leaf(cat, a, b, kappa, slack=1.0):
    """a: reference, b: candidate. returns (status, detail) with status in
    bitwise | tol | quant-boundary | weak | FAIL."""
    import numpy as np
    if a.shape != b.shape or a.dtype != b.dtype:
        return "FAIL", f"shape/dtype {a.shape}{a.dtype} vs {b.shape}{b.dtype}"
    if a.tobytes() == b.tobytes():
        return "bitwise", 0.0
    if a.dtype.kind in "iub":
        d = int(np.max(np.abs(a.astype(np.int64) - b.astype(np.int64)))) if a.size else 0
        if cat in ("preconditioners", "statistics", "momentum", "diagonal_momentum") and a.dtype.itemsize <= 2 and d <= 1:
            return "quant-boundary", float(d)
        return "FAIL", f"integer leaf differs by {d}"
    fa, fb = np.isfinite(a), np.isfinite(b)
    if not (fa == fb).all():
        return "FAIL", "non-finite pattern differs"
    a64 = np.where(fa, a, 0).astype(np.float64)
    b64 = np.where(fb, b, 0).astype(np.float64)
    if not fa.all() and not (np.isnan(a) == np.isnan(b)).all():
        return "FAIL", "nan/inf pattern differs"
    if cat == "metrics.final_error_ratio":
        # ratio of two successive Newton errors at rounding level: noise as soon as one bit differs; only recorded
        return "noise", 0.0
    if cat == "metrics.inverse_pth_root_errors":
        d = float(np.max(np.abs(a64 - b64))) if a.size else 0.0
        lim = 1e-4 * slack * max(1.0, kappa / 10.0)
        if d / lim > _FRAC[0]:
            _FRAC[0], _FRAC[1] = d / lim, cat
        return ("tol", d) if d <= lim else ("FAIL", f"abs diff {d:.3e} > {lim:.1e}")
    na = float(np.linalg.norm(a64))
    d = float(np.linalg.norm(a64 - b64))
    rel = d / na if na > 0 else d
    tol = _tol(cat, kappa) * slack
    if cat == "metrics.max_eigen_value":
        # output of power iteration, a data-dependent loop with its own stopping tolerance (1e-6 on the iterate, slow
        # when the two largest eigenvalues are close): observed 7e-6 between two device counts
        tol = max(tol, 1e-3 * slack)
    if rel / tol > _FRAC[0]:
        _FRAC[0], _FRAC[1] = rel / tol, cat
    if rel <= tol:
        return ("weak" if tol > 1e-2 else "tol"), rel
    return "FAIL", f"rel diff {rel:.3e} > tol {tol:.1e} (kappa {kappa:.2e})"


_PARAM_RE = None


def _param_of(path):
    """name of the parameter a state / update leaf belongs to (None for global leaves)."""
    global _PARAM_RE
    import re
    if _PARAM_RE is None:
        _PARAM_RE = re.compile(r"\['(p\d+)'\]")
    m = _PARAM_RE.search(path)
    return m.group(1) if m else None


def _flips(ref, cand):
    """Newton branch flips: parameters owning a statistic whose iteration count / total_retries differ, with the
    first differing pair for the record."""
    import numpy as np
    out = {}
    for (p, a), (_q, b) in zip(ref, cand):
        c = _cat(p)
        if c in ("metrics.inverse_pth_root_iters", "metrics.total_retries") and a.shape == b.shape:
            if not np.array_equal(a, b, equal_nan=True):
                out.setdefault(_param_of(p) or "?", [c, np.asarray(a).reshape(-1).tolist(), np.asarray(b).reshape(-1).tolist()])
    return out


def _dense(x):
    """statistic / preconditioner leaf (array or QuantizedValue) as a float matrix."""
    import numpy as np
    if hasattr(x, "quantized"):
        q = np.asarray(x.quantized)
        if q.dtype.kind == "f":
            return q
        b = np.asarray(x.bucket_size)
        d = np.asarray(x.diagonal)
        m = q.astype(np.float32) * b[np.newaxis, :]
        if d.size:
            m = m + np.diag(d)
        return m
    return np.asarray(x)


def _source_map(ref_P, cand_P):
    """for every stored preconditioner of the candidate run: index of the nearest reference preconditioner of the
    same shape (None when ambiguous)."""
    import numpy as np
    out = []
    for P in cand_P:
        best, second, arg = None, None, None
        for j, R in enumerate(ref_P):
            if R.shape != P.shape:
                continue
            if not (np.isfinite(R).all() and np.isfinite(P).all()):
                continue
            dist = float(np.linalg.norm(R.astype(np.float64) - P.astype(np.float64)))
            if best is None or dist < best:
                second, best, arg = best, dist, j
            elif second is None or dist < second:
                second = dist
        if arg is None or (second is not None and second <= 10 * best + 1e-12):
            out.append(None)
        else:
            out.append(arg)
    return out


def _exc(e):
    return f"{type(e).__name__}: {str(e)[:240]}"


# ============================================================================ worker: executed pmap runs
def _pmap_record(opt, params, grads, D, names):
    """list over steps of flat [(path, array with leading device axis)] and per-device helper views."""
    import jax
    import jax.numpy as jnp
    import numpy as np
    devs = jax.devices()[:D]
    if len(devs) < D:
        raise kit.InfraError(f"only {len(devs)} host devices")
    rep = lambda t: jax.tree.map(lambda x: jnp.broadcast_to(x, (D,) + x.shape), t)  # noqa: E731
    init = jax.pmap(opt.init, axis_name=AXIS, devices=devs)
    upd = jax.pmap(opt.update, axis_name=AXIS, devices=devs)
    rp = rep(params)
    st = init(rp)
    rec = []
    for g in grads:
        u, st = upd(rep(g), st, rp)
        flat = _flat(u, "U") + _flat(st, "S")
        stats = [[_dense(jax.tree.map(lambda x: np.asarray(x)[0], s, is_leaf=None)) for s in st.stats[n].statistics] for n in names]
        precs = {}
        for d in sorted({0, D - 1}):
            precs[d] = [_dense(jax.tree.map(lambda x: np.asarray(x)[d], p)) for n in names for p in st.stats[n].preconditioners]
        errs = np.concatenate([np.asarray(st.stats[n].training_metrics.inverse_pth_root_errors)[0].reshape(-1) for n in names]) \
            if names else np.zeros(0)
        rec.append({"flat": flat, "stats": {n: ss for n, ss in zip(names, stats)}, "precs": precs, "errs": errs})
    return rec


def _jit_record(opt, params, grads):
    import jax
    st = opt.init(params)
    upd = jax.jit(opt.update)
    rec = []
    for g in grads:
        u, st = upd(g, st, params)
        rec.append({"flat": _flat(u, "U") + _flat(st, "S")})
    return rec


def _compare_run(ref, cand, D, eps, lowrank, lead_ref, lead_cand, tally, skip_paths=None, slack=1.0):
    """ref/cand: records over steps. lead_*: whether the arrays carry a leading device axis.
    Returns (fails, first_flip_step). A Newton branch flip of one statistic excuses, from that step on, only the
    leaves of the parameter that owns it (and, in sharded mode, the global preconditioner rows); every other
    parameter keeps being compared."""
    import numpy as np
    fails = []
    excused = set()
    flip_step = None
    conds = {}
    for t, (r, c) in enumerate(zip(ref, cand)):
        rp = [p for p, _ in r["flat"]]
        cp = [p for p, _ in c["flat"]]
        if rp != cp:
            fails.append(f"step {t}: state layout differs ({len(rp)} vs {len(cp)} leaves)")
            return fails, flip_step
        # the state at step t depends on every root computed so far (a preconditioner stays in use until the next refresh,
        # momentum accumulates): the conditioning factor of a parameter is the worst one over steps 0..t
        now = _conds(r.get("stats", {}), eps, lowrank[0], lowrank[1])
        for kk, vv in now.items():
            conds[kk] = max(conds.get(kk, 1.0), vv)
        tally["kappa_max"] = max(tally.get("kappa_max", 1.0), min(conds["_max"], 1e300))
        for d in range(D if lead_cand else 1):
            refl = [(p, (a[0] if lead_ref else a)) for p, a in r["flat"]]
            candl = [(p, (b[d] if lead_cand else b)) for p, b in c["flat"]]
            fl = _flips(refl, candl)
            if fl:
                new = set(fl) - excused
                if new:
                    tally["branch_flip_params"] = tally.get("branch_flip_params", 0) + len(new)
                    tally.setdefault("flip_examples", [])
                    if len(tally["flip_examples"]) < 2:
                        k0 = sorted(new)[0]
                        tally["flip_examples"].append([t, k0] + fl[k0])
                    excused |= new
                    if flip_step is None:
                        flip_step = t
            # rounding-boundary discontinuity of quantized leaves: an int8/int16 payload that differs by one unit (its
            # float input differed in the last bits) shifts everything computed from it by a whole bucket; like a
            # branch flip it excuses the owning parameter from here on (counted)
            for (p, a), (_p, b) in zip(refl, candl):
                if a.dtype.kind == "i" and a.dtype.itemsize <= 2 and a.shape == b.shape and a.tobytes() != b.tobytes():
                    dmax = int(np.max(np.abs(a.astype(np.int64) - b.astype(np.int64))))
                    ow = _param_of(p)
                    if dmax <= 1 and ow is not None and ow not in excused:
                        excused.add(ow)
                        tally["quant_boundary_params"] = tally.get("quant_boundary_params", 0) + 1
            for (p, a), (_p, b) in zip(refl, candl):
                if skip_paths and skip_paths(p):
                    continue
                cat = _cat(p)
                owner = _param_of(p)
                kappa = conds.get(owner, conds["_max"])
                if excused:
                    if owner in excused or "?" in excused:
                        tally["excused_by_flip"] = tally.get("excused_by_flip", 0) + 1
                        continue
                r_ = abs(lowrank[0])
                if (r_ and cat == "preconditioners" and a.ndim == 2 and a.shape == b.shape and a.shape[1] == r_ + 2
                        and a.shape[0] > r_ + 2 and a.tobytes() != b.tobytes()):
                    # packed low-rank root: the first |rank| columns are eigenvectors, each determined up to its sign
                    # (v and -v denote the same matrix v v^T); compare modulo that sign
                    for j in range(r_):
                        if float(np.dot(a[:, j].astype(np.float64), b[:, j].astype(np.float64))) < 0:
                            b = b.copy()
                            b[:, j] = -b[:, j]
                            tally["eigvec_sign_aligned"] = tally.get("eigvec_sign_aligned", 0) + 1
                status, det = _cmp_leaf(cat, a, b, kappa, slack)
                tally["leaves"] = tally.get("leaves", 0) + 1
                tally[status] = tally.get(status, 0) + 1
                if status in ("tol", "weak"):
                    tally["max_rel"] = max(tally.get("max_rel", 0.0), det)
                    key = "nonbitwise." + cat
                    tally[key] = tally.get(key, 0) + 1
                if status == "FAIL":
                    if len(fails) < 4:
                        fails.append(f"step {t} device {d} leaf {p}: {det}")
        if fails:
            return fails, flip_step
    return fails, flip_step


def _run_pmap_task(task):
    import jax
    import jax.numpy as jnp
    cfg, shapes = task["cfg"], task["shapes"]
    names = [f"p{i:02d}" for i in range(len(shapes))]
    params = {n: jnp.full(tuple(s), 0.5, jnp.float32) for n, s in zip(names, shapes)}
    grads = _grads(shapes, names, task["T"], task["gseed"], task.get("fault"))
    case0 = {k: task[k] for k in ("kind", "N", "shapes", "cfg", "T", "gseed")}
    if task.get("fault"):
        case0["fault"] = task["fault"]
    out = {"kind": "pmap", "case": case0, "runs": []}
    thr = 0.1
    try:
        base = _pmap_record(_build(cfg, "pmap"), params, grads, 1, names)
    except kit.InfraError:
        raise
    except Exception as e:  # noqa: BLE001
        out["baseline_error"] = _exc(e)
        return out
    out["N_impl"] = sum(len(v) for v in base[-1]["stats"].values())
    out["accepted"] = int((base[-1]["errs"] < thr).sum()) if len(base[-1]["errs"]) else 0
    import numpy as np
    out["finite"] = bool(all(np.isfinite(a).all() for p, a in base[-1]["flat"] if a.dtype.kind == "f" and _cat(p) in ("update", "preconditioners")))
    # D = 0: the batch_axis_name=None program under jit (int16 statistics need a batch axis: quantized kinds skipped)
    Ds = list(task["Ds"])
    if not cfg["quant"] and task.get("with_jit", True):
        Ds = [0] + Ds
    for D in Ds:
        run = {"D": D}
        tally = {}
        _FRAC[0], _FRAC[1] = 0.0, ""
        try:
            if D == 0:
                rec = _jit_record(_build(cfg, "replicated"), params, grads)
                # the replicated program has no device axis; its metrics pytree is identical
                # a differently compiled whole program (no collectives): tolerances x10
                fails, flip = _compare_run([{"flat": b["flat"], "stats": b["stats"]} for b in base], rec, 1, cfg["eps"], (cfg["rank"], cfg["fd"]),
                                           True, False, tally, slack=10.0)
            else:
                rec = _pmap_record(_build(cfg, "pmap"), params, grads, D, names)
                fails, flip = _compare_run(base, rec, D, cfg["eps"], (cfg["rank"], cfg["fd"]), True, True, tally)
                if not fails:
                    sm = {}
                    for d, P in rec[-1]["precs"].items():
                        sm[str(d)] = _source_map(base[-1]["precs"][0], P)
                    run["source_map"] = sm
        except kit.InfraError:
            raise
        except Exception as e:  # noqa: BLE001
            run["error"] = _exc(e)
            out["runs"].append(run)
            continue
        tally["max_frac_of_tol"] = _FRAC[0]
        tally["max_frac_at"] = _FRAC[1]
        _FRAC[0], _FRAC[1] = 0.0, ""
        run.update(fails=fails, flip=flip, tally=tally)
        out["runs"].append(run)
    return out


# ============================================================================ worker: executed sharded runs
def _sharded_record(cfg, params, grads, names, npjit, meshD, N):
    import numpy as np
    import jax
    from jax.sharding import Mesh
    opt = _build(cfg, "sharded", npjit)
    devs = jax.devices()[:meshD]
    if len(devs) < meshD:
        raise kit.InfraError(f"only {len(devs)} host devices")
    mesh = Mesh(np.array(devs), ("x",))
    rec = []
    info = {}
    with mesh:
        fns = opt.init(None)
        st = fns.init_fn(params)
        sd = fns.shape_and_dtype_fn(params)
        g = st.stats.global_stats
        info["init_count"] = [int(g.statistics.shape[0]), int(g.preconditioners.shape[0]), int(g.exponents.shape[0])]
        info["declared_count"] = [int(sd.stats.global_stats.statistics[0][0]), int(sd.stats.global_stats.preconditioners[0][0]),
                                  int(sd.stats.global_stats.exponents[0][0])]
        info["exponents"] = [int(x) for x in np.asarray(g.exponents)]
        S0 = np.asarray(g.statistics)
        info["init_filler_identity"] = bool(all(np.array_equal(S0[i], np.eye(S0.shape[1], dtype=S0.dtype)) for i in range(N, S0.shape[0])))
        loc = [st.stats.local_stats[n] for n in names]
        info["index"] = [[int(l.index_start), len(l.sizes)] for l in loc]
        sizes = [int(s) for l in loc for s in l.sizes]
        info["sizes"] = sizes
        owner = {}
        for n, (i0, cnt) in zip(names, info["index"]):
            for i in range(i0, i0 + cnt):
                owner[i] = n
        owner = [owner.get(i, "p999999") for i in range(max(N, 0))]
        upd = jax.jit(opt.update)
        for gr in grads:
            u, st = upd(gr, st, params)
            g = st.stats.global_stats
            S, Pm = np.asarray(g.statistics), np.asarray(g.preconditioners)
            flat = _flat(u, "U") + _flat(st.stats.local_stats, "S.local") + [("S.count", np.asarray(st.count))]
            flat += [(f"S.global.statistics[{i}]['{owner[i]}']", S[i]) for i in range(N)]
            flat += [(f"S.global.preconditioners[{i}]['{owner[i]}']", Pm[i]) for i in range(N)]
            by_param = {}
            for i in range(min(N, len(sizes))):
                by_param.setdefault(owner[i], []).append(S[i][:sizes[i], :sizes[i]])
            rec.append({"flat": flat, "stats": by_param,
                        "count": [int(S.shape[0]), int(Pm.shape[0]), int(np.asarray(g.exponents).shape[0])],
                        "exponents": [int(x) for x in np.asarray(g.exponents)],
                        "filler_identity": bool(all(np.array_equal(S[i], np.eye(S.shape[1], dtype=S.dtype)) for i in range(N, S.shape[0]))),
                        "filler_finite": bool(np.isfinite(Pm[N:]).all())})
    return rec, info


def _run_sharded_task(task):
    import jax.numpy as jnp
    cfg, shapes = task["cfg"], task["shapes"]
    if task.get("empty_tree"):
        shapes = []
    names = [f"p{i:02d}" for i in range(len(shapes))]
    params = {n: jnp.full(tuple(s), 0.5, jnp.float32) for n, s in zip(names, shapes)}
    grads = _grads(shapes, names, task["T"], task["gseed"], task.get("fault"))
    case0 = {k: task[k] for k in ("kind", "N", "shapes", "cfg", "T", "gseed")}
    if task.get("fault"):
        case0["fault"] = task["fault"]
    case0["shapes"] = shapes
    case0["empty_tree"] = bool(task.get("empty_tree"))
    N = task["N"]
    out = {"kind": "sharded", "case": case0, "runs": []}
    try:
        base, binfo = _sharded_record(cfg, params, grads, names, 1, 1, N)
    except kit.InfraError:
        raise
    except Exception as e:  # noqa: BLE001
        out["baseline_error"] = _exc(e)
        return out
    out["base_info"] = {k: binfo[k] for k in ("init_count", "declared_count", "exponents", "index", "sizes", "init_filler_identity")}
    out["base_steps"] = [{k: r[k] for k in ("count", "exponents", "filler_identity", "filler_finite")} for r in base]
    for npjit, meshD in task["runs"]:
        run = {"npjit": npjit, "mesh": meshD}
        tally = {}
        _FRAC[0], _FRAC[1] = 0.0, ""
        try:
            rec, info = _sharded_record(cfg, params, grads, names, npjit, meshD, N)
            fails, flip = _compare_run(base, rec, 1, cfg["eps"], (cfg["rank"], cfg["fd"]), False, False, tally)
        except kit.InfraError:
            raise
        except Exception as e:  # noqa: BLE001
            run["error"] = _exc(e)
            out["runs"].append(run)
            continue
        tally["max_frac_of_tol"] = _FRAC[0]
        tally["max_frac_at"] = _FRAC[1]
        _FRAC[0], _FRAC[1] = 0.0, ""
        run.update(fails=fails, flip=flip, tally=tally,
                   info={k: info[k] for k in ("init_count", "declared_count", "exponents", "index", "sizes", "init_filler_identity")},
                   steps=[{k: r[k] for k in ("count", "exponents", "filler_identity", "filler_finite")} for r in rec])
        out["runs"].append(run)
    return out


# ============================================================================ worker: traced plans with recording wrappers
def _gathers(jaxpr, acc):
    for e in jaxpr.eqns:
        if e.primitive.name == "all_gather":
            acc.append([int(x) for x in e.outvars[0].aval.shape])
        for v in e.params.values():
            for sub in (v if isinstance(v, (list, tuple)) else [v]):
                if hasattr(sub, "jaxpr") and hasattr(sub.jaxpr, "eqns"):
                    _gathers(sub.jaxpr, acc)
                elif hasattr(sub, "eqns"):
                    _gathers(sub, acc)
    return acc


def _trace_case(case):
    import numpy as np
    import jax
    import jax.numpy as jnp
    from precondition import distributed_shampoo as ds
    cfg, shapes = case["cfg"], case["shapes"]
    names = [f"p{i:02d}" for i in range(len(shapes))]
    params = {n: jnp.full(tuple(s), 0.5, jnp.float32) for n, s in zip(names, shapes)}
    g = {n: jnp.ones(tuple(s), jnp.float32) for n, s in zip(names, shapes)}
    res = {"kind": "trace", "case": {k: case[k] for k in ("kind", "N", "shapes", "cfg", "T", "gseed")}, "plans": []}
    for D in case["Ds"]:
        rec = {"batch": [], "unbatch": []}
        ob, ou = ds.batch, ds.unbatch

        def sb(x, nd, _ob=ob, _rec=rec):
            out = _ob(x, nd)
            ints = all(isinstance(v, (int, np.integer)) and not isinstance(v, bool) for v in x)
            e = {"len": len(x), "D": int(nd) if isinstance(nd, (int, np.integer)) else repr(nd), "shape": [int(s) for s in out.shape]}
            if ints:
                e["values"] = [int(v) for v in x]
                try:   # the traced result is abstract: evaluate the same call of the real function eagerly
                    with jax.ensure_compile_time_eval():
                        e["rows"] = np.asarray(_ob(list(x), nd)).tolist()
                except Exception:  # noqa: BLE001  (not observable)
                    e["rows"] = None
            _rec["batch"].append(e)
            return out

        def su(b, _ou=ou, _rec=rec):
            out = _ou(b)
            _rec["unbatch"].append({"shape": [int(s) for s in b.shape], "n": len(out),
                                    "elem": [int(s) for s in out[0].shape] if out else None})
            return out
        p = {"D": D}
        try:
            opt = _build(cfg, "pmap")
            st_shape = jax.make_jaxpr(opt.init, axis_env=[(AXIS, D)], return_shape=True)(params)[1]
            st0 = jax.tree.map(lambda s: jnp.zeros(s.shape, s.dtype), st_shape)
            sizes = [int(x.shape[0]) for n in names for x in jax.tree_util.tree_leaves(
                [(_q.quantized if hasattr(_q, "quantized") else _q) for _q in st_shape.stats[n].statistics])]
            p["sizes"] = sizes
            ds.batch, ds.unbatch = sb, su
            try:
                jp = jax.make_jaxpr(opt.update, axis_env=[(AXIS, D)])(g, st0, params)
            finally:
                ds.batch, ds.unbatch = ob, ou
            p["batch"] = rec["batch"]
            p["unbatch"] = rec["unbatch"]
            p["gathers"] = _gathers(jp.jaxpr, [])
        except Exception as e:  # noqa: BLE001
            ds.batch, ds.unbatch = ob, ou
            p["error"] = _exc(e)
        res["plans"].append(p)
    return res


# ============================================================================ worker: batch / unbatch called directly
def _unit_case(c):
    import numpy as np
    import jax.numpy as jnp
    from precondition import distributed_shampoo as ds
    n, D, elem = c["n"], c["D"], tuple(c["elem"])
    xs = [jnp.full(elem, float(i), jnp.float32) for i in range(n)]
    o = {"kind": "unit", "case": c}
    try:
        b = ds.batch(xs, D)
        o["batch_shape"] = [int(s) for s in b.shape]
        bb = np.asarray(b).reshape(b.shape[0], b.shape[1], -1)
        o["rows"] = [[int(v) for v in row[:, 0]] if bb.shape[2] else [] for row in bb]
        o["rows_uniform"] = bool((bb == bb[:, :, :1]).all())
        u = ds.unbatch(b)
        o["unbatched"] = [int(np.asarray(v).reshape(-1)[0]) for v in u]
        o["unbatched_shapes_ok"] = all(tuple(v.shape) == elem for v in u)
        # unbatch on an independent [D, b] tag array (not produced by batch)
        tags = np.arange(n, dtype=np.float32)[::-1].copy().reshape(D, n // D)
        arr = jnp.asarray(tags.reshape(tags.shape + (1,) * len(elem)) * np.ones(elem, np.float32))
        o["unbatch_in"] = [[int(v) for v in r] for r in tags]
        o["unbatch_out"] = [int(np.asarray(v).reshape(-1)[0]) for v in ds.unbatch(arr)]
    except Exception as e:  # noqa: BLE001
        o["error"] = _exc(e)
    return o


def worker(task):
    import io
    import contextlib
    import time
    import jax
    t0 = time.time()
    jax.config.update("jax_traceback_filtering", "off")
    buf = io.StringIO()
    with contextlib.redirect_stdout(buf):
        if task["kind"] == "pmap":
            res = [_run_pmap_task(task)]
        elif task["kind"] == "sharded":
            res = [_run_sharded_task(task)]
        elif task["kind"] == "trace_group":
            res = [_trace_case(c) for c in task["cases"]]
        elif task["kind"] == "unit":
            res = [_unit_case(c) for c in task["cases"]]
        else:
            raise ValueError(task["kind"])
    jax.clear_caches()
    if res:
        res[0]["secs"] = round(time.time() - t0, 1)
    return res


# ============================================================================ model requests and comparison
def _exponents(shapes, block):
    out = []
    for s in shapes:
        out += [2 * len(s)] * n_stats(s, block)
    return out


def model_requests(o):
    k = o["kind"]
    if k == "unit":
        c = o["case"]
        rq = [{"op": "batch", "n": c["n"], "D": c["D"]}]
        if "unbatch_in" in o:
            rq.append({"op": "unbatch", "rows": o["unbatch_in"]})
        return rq
    if k == "trace":
        c = o["case"]
        exps = _exponents(c["shapes"], c["cfg"]["block"])
        rq = []
        for p in o["plans"]:
            sizes = p.get("sizes", [])
            rq.append({"op": "pmap_plan", "D": p["D"], "exponents": exps,
                       "paddings": sizes if len(sizes) == len(exps) else [0] * len(exps)})
        return rq
    if k == "pmap":
        c = o["case"]
        exps = _exponents(c["shapes"], c["cfg"]["block"])
        rq = [{"op": "replicated_plan", "n": len(exps)}]
        for r in o["runs"]:
            if r["D"] > 0:
                rq.append({"op": "pmap_plan", "D": r["D"], "exponents": exps, "paddings": [0] * len(exps)})
        return rq
    if k == "sharded":
        c = o["case"]
        exps = _exponents(c["shapes"], c["cfg"]["block"])
        if "baseline_error" in o:
            return []
        rq = [{"op": "sharded_plan", "D": 1, "exponents": exps, "index": o["base_info"]["index"]}]
        for r in o["runs"]:
            if "info" in r:
                rq.append({"op": "sharded_plan", "D": r["npjit"], "exponents": exps, "index": r["info"]["index"]})
            else:
                rq.append({"op": "to_pad", "n": len(exps), "D": r["npjit"]})
        return rq
    return []


def _exact(ctx, op, case, impl, model, note=""):
    if impl == model:
        ctx.corr(op, True)
        return True
    ctx.disagree(op, case, impl, model, note)
    return False


def _merge_tally(ctx, prefix, tally):
    for k, v in tally.items():
        if k == "flip_examples":
            ex = ctx.cov.setdefault("flip_examples", [])
            if len(ex) < 6:
                ex.extend(v[:1])
            continue
        if k == "max_frac_at":
            continue
        if k in ("max_rel", "kappa_max", "max_frac_of_tol"):
            key = prefix + "." + k
            if k == "max_frac_of_tol" and v > ctx.cov["distribution"].get(key, 0.0):
                ctx.cov.setdefault("max_frac_at", {})[prefix] = tally.get("max_frac_at", "")
            ctx.cov["distribution"][key] = max(ctx.cov["distribution"].get(key, 0.0), v)
        else:
            ctx.dist(prefix + "." + k, v)


def compare(ctx, o, replies):
    k = o["kind"]
    if any("error" in r for r in replies):
        raise kit.InfraError("driver error: " + str([r["error"] for r in replies if "error" in r][:2]))
    if k == "unit":
        c = o["case"]
        ctx.evaluated()
        ctx.cov["search_evaluations"] += 1
        if "error" in o:
            ctx.violation(f"batch/unbatch raise on n={c['n']} D={c['D']} elem={c['elem']}: {o['error']}", {"kind": "unit", **c})
            return
        m = replies[0]
        _exact(ctx, "batch.rows", c, o["rows"], m["rows"])
        _exact(ctx, "batch.shape", c, o["batch_shape"][:2], [c["D"], c["n"] // c["D"]])
        _exact(ctx, "unbatch(batch)", c, o["unbatched"], m["unbatched"])
        _exact(ctx, "unbatch", c, o["unbatch_out"], replies[1]["out"], f"b2={replies[1]['b2']}")
        ctx.dist(f"unit.b2={'1' if c['n'] // c['D'] == 1 else '>1'}")
        # direct oracle: round trip is the identity, element shapes preserved
        if o["unbatched"] != list(range(c["n"])) or not o["rows_uniform"]:
            ctx.violation(f"unbatch(batch(xs, {c['D']})) != xs for n={c['n']}: {o['unbatched']}", {"kind": "unit", **c})
        if not o["unbatched_shapes_ok"]:
            ctx.violation(f"unbatch changes the element shape {c['elem']} (n={c['n']}, D={c['D']})", {"kind": "unit", **c})
        if c["D"] > 1:
            ctx.nontrivial(("unit", c["n"], c["D"], tuple(c["elem"])))
        return
    if k == "trace":
        c = o["case"]
        N = c["N"]
        if o["plans"] and all("error" in p for p in o["plans"]):
            ctx.dist("trace.config_rejected")
            ctx.notes.append(f"trace: configuration raises for every D (skipped): {o['plans'][0]['error'][:160]}")
            return
        for p, m in zip(o["plans"], replies):
            D = p["D"]
            cc = dict(c, D=D)
            ctx.evaluated()
            if "error" in p:
                ctx.dist("trace.error")
                ctx.disagree("trace.runs", cc, p["error"], "update traces for every D", "tracing the pmapped update failed")
                continue
            ctx.dist("trace.kind." + c["cfg"]["kind"])
            if len(p["sizes"]) != N:
                ctx.disagree("trace.N", cc, len(p["sizes"]), N, "number of statistics in the initial state")
                continue
            if not m["computed"]:
                _exact(ctx, "plan.no_statistics", cc, [len(p["batch"]), len(p["unbatch"]), len(p["gathers"])], [0, 0, 0])
                continue
            if not p["batch"] or not p["unbatch"]:
                ctx.disagree("plan.observable", cc, [len(p["batch"]), len(p["unbatch"])], "batch and unbatch are called",
                             "the anchored batch/unbatch functions are no longer reached by the pmapped update")
                continue
            _exact(ctx, "plan.total", cc, sorted({b["len"] for b in p["batch"]}), [m["total"]],
                   f"N + to_pad, model to_pad={m['to_pad']}")
            _exact(ctx, "plan.num_devices", cc, sorted({b["D"] for b in p["batch"]}, key=str), [D])
            _exact(ctx, "plan.batch_shape", cc, sorted({tuple(b["shape"][:2]) for b in p["batch"]}), [(D, m["b"])])
            ints = [b for b in p["batch"] if "values" in b]
            _exact(ctx, "plan.exponents_paddings", cc, sorted(b["values"] for b in ints),
                   sorted([m["exponents"], m["paddings"]]), "padded exponent / padding-start lists (fillers 1 / 0)")
            rows = [b["rows"] for b in ints if b["rows"] is not None]
            if rows:
                _exact(ctx, "plan.rows", cc, sorted(rows), sorted([m["rows_exponents"], m["rows_paddings"]]),
                       "which exponent / padding start lands on which replica and slot")
            _exact(ctx, "plan.unbatch_shape", cc, sorted({tuple(u["shape"][:2]) for u in p["unbatch"]}),
                   [tuple(m["gathered_shape"])])
            _exact(ctx, "plan.unbatch_count", cc, sorted({u["n"] for u in p["unbatch"]}), [len(m["all_ids"])])
            _exact(ctx, "plan.all_gather_shape", cc, sorted({tuple(s[:2]) for s in p["gathers"]}), [tuple(m["gathered_shape"])])
            _exact(ctx, "plan.kept", cc, [m["kept_ids"], m["kept_ids_quantized"], m["all_ids"][:N]], [list(range(N))] * 3,
                   "model self-consistency (theorem pmap_result_independent_of_D on this instance)")
            if D > 1:
                ctx.nontrivial(("trace", c["cfg"]["kind"], N, D))
            ctx.dist(f"trace.residue.N%D={'0' if N % D == 0 else 'nonzero'}")
        return
    if k == "pmap":
        c = o["case"]
        N = c["N"]
        if "baseline_error" in o:
            ctx.dist("pmap.baseline_error")
            ctx.notes.append(f"pmap baseline (D=1) raised, case skipped: {o['baseline_error'][:160]} shapes={c['shapes']} cfg={c['cfg']['kind']}")
            return
        ctx.dist("pmap.kind." + c["cfg"]["kind"])
        if o["N_impl"] != N:
            ctx.disagree("pmap.N", c, o["N_impl"], N, "number of statistics")
        ctx.dist("pmap.accepted_roots", o["accepted"])
        if not o["finite"]:
            ctx.dist("pmap.baseline_nonfinite")
        _exact(ctx, "replicated.kept", c, replies[0]["kept_ids"], list(range(N)))
        mi = 1
        for r in o["runs"]:
            D = r["D"]
            cc = dict(c, D=D)
            m = None
            if D > 0:
                m = replies[mi]
                mi += 1
            ctx.evaluated(c["T"] * max(D, 1))
            ctx.cov["search_evaluations"] += c["T"] * max(D, 1)
            tag = "jit_no_axis" if D == 0 else "pmap"
            if "error" in r:
                ctx.violation(f"{tag} run on D={D} devices raises while the one-device run works: {r['error']}", cc)
                continue
            _merge_tally(ctx, tag, r["tally"])
            if r["flip"] is not None:
                ctx.dist(tag + ".branch_flip_runs")
            for f in r["fails"][:2]:
                ctx.violation(f"{tag} D={D} differs from the one-device run: {f}", cc)
            if r["fails"]:
                continue
            ctx.dist(f"{tag}.D={D}")
            if D > 0:
                ctx.dist(f"pmap.residue.D={D}.N%D={N % D}")
                for d, sm in r.get("source_map", {}).items():
                    known = [(i, j) for i, j in enumerate(sm) if j is not None]
                    impl = [j for _i, j in known]
                    model = [m["kept_ids"][i] for i, _j in known]
                    _exact(ctx, "pmap.source_index", dict(cc, device=int(d)), impl, model,
                           "nearest one-device root of every stored preconditioner")
                    ctx.dist("pmap.source_index.ambiguous", sum(1 for j in sm if j is None))
                if D > 1:
                    ctx.nontrivial(("pmap", c["cfg"]["kind"], N, D))
        return
    if k == "sharded":
        c = o["case"]
        N = c["N"]
        if "baseline_error" in o:
            ctx.dist("sharded.baseline_error")
            ctx.notes.append(f"sharded baseline raised, case skipped: {o['baseline_error'][:160]} shapes={c['shapes']} cfg={c['cfg']['kind']}")
            return
        ctx.dist("sharded.kind." + c["cfg"]["kind"])
        runs = [dict(npjit=1, mesh=1, info=o["base_info"], steps=o["base_steps"], fails=[], flip=None, tally={})] + o["runs"]
        for r, m in zip(runs, replies):
            D = r["npjit"]
            cc = dict(c, npjit=D, mesh=r["mesh"])
            ctx.evaluated(c["T"])
            ctx.cov["search_evaluations"] += c["T"]
            if "error" in r:
                ctx.violation(f"sharded run with num_devices_for_pjit={D} (mesh of {r['mesh']}) raises while "
                              f"num_devices_for_pjit=1 works: {r['error']}", cc)
                continue
            info = r["info"]
            _exact(ctx, "sharded.count.init", cc, info["init_count"], [m["count"]] * 3)
            _exact(ctx, "sharded.count.declared", cc, info["declared_count"], [m["declared"]] * 3)
            _exact(ctx, "sharded.exponents", cc, info["exponents"], m["exponents"], "real exponents then fillers 1")
            _exact(ctx, "sharded.views", cc, [list(range(s, s + n)) for s, n in info["index"]], m["views"])
            _exact(ctx, "sharded.views_cover", cc, [i for v in m["views"] for i in v], list(range(N)))
            _exact(ctx, "sharded.filler_identity.init", cc, info["init_filler_identity"], True)
            for t, s in enumerate(r["steps"]):
                _exact(ctx, "sharded.count.step", dict(cc, step=t), s["count"], [m["count"]] * 3)
                _exact(ctx, "sharded.exponents.step", dict(cc, step=t), s["exponents"], m["exponents"])
                _exact(ctx, "sharded.filler_identity.step", dict(cc, step=t), s["filler_identity"], True)
            _merge_tally(ctx, "sharded", r["tally"])
            if r["flip"] is not None:
                ctx.dist("sharded.branch_flip_runs")
            for f in r["fails"][:2]:
                ctx.violation(f"sharded num_devices_for_pjit={D} (mesh of {r['mesh']}) differs from num_devices_for_pjit=1: {f}", cc)
            if r["fails"]:
                continue
            ctx.dist(f"sharded.npjit={D}.mesh={r['mesh']}")
            if D > 1:
                ctx.nontrivial(("sharded", c["cfg"]["kind"], N, D, r["mesh"]))
        return


# ============================================================================ stages
def const_stage(ctx):
    import ast
    src = open(os.path.join(kit.repo_src(), "distributed_shampoo.py")).read()
    tree = ast.parse(src)
    top = {n.name for n in tree.body if isinstance(n, ast.FunctionDef)}
    for fn in ("batch", "unbatch"):
        if fn not in top:
            ctx.const_fail("anchor", f"module-level function {fn} not found in distributed_shampoo.py")
    inner = {n.name for n in ast.walk(tree) if isinstance(n, ast.FunctionDef)}
    for fn in ("_pmap_compute_preconditioners", "_pmap_quantized_compute_preconditioners", "sharded_init_fn", "sharded_update_fn",
               "_matrix_inverse_pth_root_pjit"):
        if fn not in inner:
            ctx.const_fail("anchor", f"function {fn} not found in distributed_shampoo.py")
    thr = consts.func_default("distributed_shampoo.py", "distributed_shampoo", "inverse_failure_threshold")
    ctx.cov["constants"] = {"inverse_failure_threshold": thr, "TOL": TOL}


def _dev_filter(ctx, tasks):
    only = os.environ.get("C13_ONLY")
    cap = os.environ.get("C13_MAXTASKS")
    if not only and not cap:
        return tasks
    keep, seen = [], {}
    for t in tasks:
        tag = t["kind"]
        if only and tag not in only.split(","):
            continue
        seen[tag] = seen.get(tag, 0) + 1
        if cap and seen[tag] > int(cap):
            continue
        keep.append(t)
    ctx.notes.append(f"DEV FILTER ACTIVE (C13_ONLY={only}, C13_MAXTASKS={cap}): {len(keep)} of {len(tasks)} tasks run")
    ctx.cov["dev_filter"] = {"only": only, "max": cap}
    return keep


def _cost(t):
    if t["kind"] == "pmap":
        return (len(t["Ds"]) + 2) * (3 + t["N"] / 6)
    if t["kind"] == "sharded":
        return (len(t["runs"]) + 1) * (3 + t["N"] / 6)
    if t["kind"] == "trace_group":
        return sum(len(c["Ds"]) for c in t["cases"]) * 0.5
    return 1


def execute(ctx, tasks):
    order = sorted(range(len(tasks)), key=lambda i: -_cost(tasks[i]))
    results = kit.parallel_map(worker, [tasks[i] for i in order], nproc=min(14, int(os.environ.get("C13_NPROC", "14"))), ndev=8)
    obs = [o for grp in results for o in grp]
    reqs, spans = [], []
    for o in obs:
        rq = model_requests(o)
        spans.append((len(reqs), len(reqs) + len(rq)))
        reqs.extend(rq)
    replies = ctx.driver(reqs) if reqs else []
    for o, (a, b) in zip(obs, spans):
        compare(ctx, o, replies[a:b])
    secs = sorted(((o["secs"], o["kind"], o.get("case", {}).get("N")) for o in obs if "secs" in o), reverse=True)
    ctx.cov["slowest_tasks_s"] = [list(x) for x in secs[:5]]
    ctx.cov["worker_seconds_total"] = round(sum(x[0] for x in secs), 1)
    return obs


def _corpus_tasks(ctx):
    """past defect witnesses (must pass now): D10 — 1x1 statistics reaching unbatch (leaf (1,), (1,1), block_size 1)."""
    import json
    p = os.path.join(kit.ROOT, "corpus", "C13", "defect_witnesses.json")
    if not os.path.exists(p):
        return []
    tasks = []
    for i, w in enumerate(json.load(open(p))["cases"]):
        cfg = make_cfg(w["kind"], random.Random(i))
        cfg.update(w.get("cfg", {}))
        t = {"kind": w["task"], "N": sum(n_stats(s, cfg["block"]) for s in w["shapes"]), "shapes": w["shapes"], "cfg": cfg,
             "T": 2, "gseed": 77 + i}
        if w["task"] == "pmap":
            t["Ds"] = w["Ds"]
        else:
            t["runs"] = [tuple(r) for r in w["runs"]]
        tasks.append(t)
    ctx.dist("corpus.cases", len(tasks))
    return tasks


def run(ctx):
    if os.environ.get("C13_NO_GEN"):          # builder aid for mutation experiments (a worktree next to runs on /repo)
        ctx.notes.append("DEV: C13_NO_GEN set, generated-model tie skipped")
        ctx.lean_stage()
        return _run_rest(ctx)
    kit.gen_stage(ctx)                        # regenerates lean/PrecondVerif/Gen/Src.lean from the current source (no-op < 0.1 s)
    ctx.lean_stage(extra_props=("Gen", "Compose"))   # also builds/audits PrecondVerif.GenProps.C13.* (Props/Gen.lean) and ComposeProps.C13.* (Props/Compose.lean)
    ctx.notes.append("model tie #2: every `to_pad = -n % d` of distributed_shampoo.py regenerated by harness/py2lean.py; "
                     "GenProps.C13.to_pad_devices_bridge proves Gen.toPad = Devices.toPad for D > 0")
    return _run_rest(ctx)


def _run_rest(ctx):
    const_stage(ctx)
    tasks = _corpus_tasks(ctx) + gen_tasks(ctx.tier, ctx.seed)
    ctx.cov["rule"] = (
        "executed: jax.pmap of Distributed Shampoo init/update over D forced host devices (D = 2..8 against D = 1 and against the "
        "batch_axis_name=None jit program), quick = 8 consecutive N (all residues mod every D <= 8) + 4 further N in 1..30 (N = 1 always), "
        "thorough = every N in 1..30 x 3 configuration kinds x every D; sharded mode under a mesh of 1..8 devices for "
        "num_devices_for_pjit in 2..16 against 1 (N = 0 and the empty tree included); kinds full/eigh/int16-quantized/"
        "compressed(+-rank)/reused/frequent-directions; random N(0,1) float32 gradients, identical on every device, T = 3-4 steps. "
        "evaluations = optimizer steps compared leaf by leaf per device (+ one per traced plan / direct batch-unbatch call). "
        "A non-trivial case is a distinct (mode, kind, N, D[, mesh]) with D >= 2 that ran and was compared on every device.")
    ctx.assumptions += [
        "decision TOL: relative 1e-6 (Frobenius, per leaf) for leaves that do not pass through an inverse root (statistics, diagonal "
        "statistics, counters); 1e-6 * max(1, kappa) for root-dependent leaves, kappa = worst condition number of the ridge-regularised "
        "statistics of the owning parameter at that step (TOL(eps*kappa) of DESIGN 2.3), for low-rank kinds also 10 * lambda_max / smallest eigenvalue gap at the retained end of the spectrum (top |rank| eigenvalues and the cut for rank > 0, bottom for rank < 0, every gap for frequent directions), worst over the steps so far because a preconditioner stays in use until the next refresh and the momentum carries it (a degenerate eigenvalue makes the stored eigenvector arbitrary within its eigenspace: observed 29% legit difference of the packed root, both packed roots being valid); error metrics absolute 1e-4 * max(1, kappa/10), the power-iteration estimate max_eigen_value relative 1e-3, final_error_ratio (a ratio of rounding-level errors) only recorded; int16 payloads of quantized "
        "leaves may differ by one unit (rounding boundary, counted; it excuses the owning parameter from that step on, like a branch flip); bitwise equality is recorded per leaf category in the distribution",
        "comparisons whose tolerance exceeds 1e-2 are counted as `weak`",
        "packed low-rank preconditioners are compared modulo the sign of each stored eigenvector column (v and -v denote the same root; "
        "a sign flip between two device counts was observed for a well-separated top eigenvector), counted as eigvec_sign_aligned",
        "a Newton branch flip (iteration count / total_retries of a statistic differ between the two runs) excuses, from that step on, "
        "only the leaves of the parameter owning that statistic; it is counted, never reported; eigh kinds have no such branches",
        "per-matrix determinism of XLA across batch sizes is not provable; it is what the executed runs decide",
        "multi-device pmap of a tree without statistics is only traced (jaxlib CPU compiler segfault, not the package's)",
        "sharded mode: statistics/preconditioner partition spec P('x', None, None) on a 1-D mesh whose size divides num_devices_for_pjit",
    ]
    tasks = _dev_filter(ctx, tasks)
    obs = execute(ctx, tasks)
    picked = 0
    for o in obs:
        if o["kind"] == "pmap" and "runs" in o and picked < 4 and o["runs"]:
            c = o["case"]
            ctx.sample({"kind": "pmap", "N": c["N"], "shapes": c["shapes"], "cfg": c["cfg"],
                        "runs": [{"D": r["D"], "fails": r.get("fails"), "tally": r.get("tally"), "error": r.get("error")} for r in o["runs"][:4]]})
            picked += 1
    for o in obs:
        if o["kind"] == "sharded" and "runs" in o and o["runs"]:
            c = o["case"]
            ctx.sample({"kind": "sharded", "N": c["N"], "shapes": c["shapes"], "cfg": c["cfg"], "base": o.get("base_info"),
                        "runs": [{"npjit": r["npjit"], "mesh": r["mesh"], "tally": r.get("tally"), "error": r.get("error")} for r in o["runs"][:3]]})
            break


def replay(ctx, data):
    cases = [v["case"] for v in data.get("violations", [])]
    cases += [s["detail"]["case"] for s in data.get("stage_failures", [])
              if isinstance(s.get("detail"), dict) and isinstance(s["detail"].get("case"), dict)]
    tasks, seen = [], set()
    unit, trace = [], []
    for c in cases:
        key = repr(sorted(c.items(), key=lambda kv: kv[0]))
        if key in seen:
            continue
        seen.add(key)
        k = c.get("kind")
        if k == "unit":
            unit.append({"n": c["n"], "D": c["D"], "elem": c["elem"]})
        elif k == "pmap":
            t = {x: c[x] for x in ("kind", "N", "shapes", "cfg", "T", "gseed", "fault") if x in c}
            t["Ds"] = [c["D"]] if c.get("D") else [2]
            if c.get("D") == 0:
                t["Ds"] = []
            tasks.append(t)
        elif k == "sharded":
            t = {x: c[x] for x in ("kind", "N", "shapes", "cfg", "T", "gseed", "fault") if x in c}
            t["empty_tree"] = c.get("empty_tree", False)
            t["runs"] = [(c.get("npjit", 2), c.get("mesh", 1))]
            tasks.append(t)
        elif k == "trace":
            t = {x: c[x] for x in ("kind", "N", "shapes", "cfg", "T", "gseed")}
            t["Ds"] = [c.get("D", 2)]
            trace.append(t)
    if unit:
        tasks.append({"kind": "unit", "cases": unit})
    if trace:
        tasks.append({"kind": "trace_group", "cases": trace})
    ctx.cov["rule"] = "replay of recorded cases"
    execute(ctx, tasks)
