"""C11 — quantized optimizer state round-trips within half a bucket and never wraps.

Correspondence (real `QuantizedValue.from_float_value` / `to_float`, eager, under `jit`, and under `vmap` as in
`_quantized_matrix_inverse_pth_root_vmap`, against the Lean model `Model/Quant.lean` executed at `Rat`):
  K-i  EXACT-DYADIC  columns k_i * 2^e (k integer or half-integer, max|k| = N, bucket = 2^e normal): stored integers,
       bucket sizes, dequantized values, re-quantized integers and buckets must equal the Rat model bit for bit.
  K-ii arbitrary float32 tensors, rank 1..3: stored integers vs Rat-model integers on the same exact inputs (a +-1
       difference is `boundary` only if the exact ratio x/bucket is within N*2^-22 of a half-integer), bucket size
       within 1.5*2^-23 relative of the exact max|x|/N.  bfloat16: exact (correctly rounded) against the Rat model of
       round-to-nearest-even to 8 bits; float32: bitwise passthrough.
  K-iii FLOAT32-EXACT  the same tensors against the model in rounded arithmetic (`quantizeFl` with float32 rounding after
       every operation, run on exact rationals): every column's bucket size, stored integers and dequantized values must
       equal, bit for bit, one of the four variants (bucket / ratio divided by a rounded division or as a*fl(1/b), which
       is what XLA-CPU emits for constant or broadcast divisors); columns in the K1/K2/K3 regimes are skipped.
  K-iv call sites  real `distributed_shampoo` / `sm3` optimizers are run eagerly with `QuantizedValue.from_float_value`
       wrapped by a recorder: every call (argument, dtype, extract_diagonal, calling function) goes through the same
       oracle and model comparison, and the requested dtype must be the one `call_site_dtype` of the model predicts.
Search oracle (no reference to the model): |to_float - x| <= (1/2 + (3N+2)*2^-24) * max|x|/N per column (theorem
roundtrip_fp_xla; 3N under one rounding per operation, roundtrip_fp), no stored integer
outside [-N, N] (in particular never the most negative value), zeros exact, extracted diagonal exact, re-quantizing
reproduces the integers.

Known findings (platform flush-to-zero / overflow, classified exactly, reported only when listed in known_findings.json):
K1 column max|x| < N*2^-126; K2 subnormal entry in a column with normal bucket; K3 column max|x| == FLT_MAX (eager);
K4 subnormal diagonal entry under extract_diagonal.
"""
import ast
import glob
import json
import os
from fractions import Fraction

from harness import kit

FLT_MAX_BITS = 0x7F7FFFFF
TINY = 2.0 ** -126  # smallest normal float32

K_TEXT = {
    "K1": "float32 column with max|x| < N*2^-126 (bucket_size subnormal): bucket flushes to 0 on XLA CPU and the column dequantizes to 0",
    "K2": "subnormal float32 entry in a column with normal bucket_size is read as 0 on XLA CPU (denormals-are-zero): round-trip error exceeds half a bucket",
    "K3": "column max|x| == FLT_MAX: bucket_size rounds up and N*bucket_size overflows to inf in to_float (eager)",
    "K4": "subnormal float32 diagonal entry is read as 0 on XLA CPU (denormals-are-zero) in to_float: the extracted diagonal is not reproduced exactly",
}

INT_BITS = {"int8": 8, "int16": 16}


# ----------------------------------------------------------------------------- constants from the source
def source_num_buckets():
    """{'int8': 127.0, 'int16': 32767.0} read from `QuantizedValue.quantize` (the literal assigned to `num_buckets`
    in the branch testing `quantized_dtype == jnp.<dtype>`)."""
    p = os.path.join(kit.repo_src(), "quantization_utils.py")
    tree = ast.parse(open(p).read(), p)
    out = {}

    def dtype_of(test):
        if isinstance(test, ast.Compare) and len(test.comparators) == 1:
            for side in (test.left, test.comparators[0]):
                if isinstance(side, ast.Attribute) and side.attr in INT_BITS:
                    return side.attr
        return None

    for node in ast.walk(tree):
        if isinstance(node, ast.If):
            dt = dtype_of(node.test)
            if dt is None:
                continue
            for st in node.body:
                if isinstance(st, ast.Assign) and any(isinstance(t, ast.Name) and t.id == "num_buckets" for t in st.targets):
                    v = st.value
                    lit = None
                    if isinstance(v, ast.Call) and v.args:
                        try:
                            lit = ast.literal_eval(v.args[0])
                        except Exception:  # noqa: BLE001
                            lit = None
                    else:
                        try:
                            lit = ast.literal_eval(v)
                        except Exception:  # noqa: BLE001
                            lit = None
                    if lit is not None and dt not in out:
                        out[dt] = lit
    return out


# ----------------------------------------------------------------------------- helpers
def hexes(a):
    import numpy as np
    return ["0x%08x" % int(v) for v in np.ascontiguousarray(a, dtype=np.float32).reshape(-1).view(np.uint32)]


def unhex(lst, shape=None):
    import numpy as np
    a = np.array([int(h, 16) for h in lst], dtype=np.uint32).view(np.float32)
    return a.reshape(shape) if shape is not None else a


def prod(l):
    r = 1
    for d in l:
        r *= d
    return r


QUICK_SHAPES = [[1], [2], [3], [7], [16], [33],
                [1, 1], [1, 5], [5, 1], [2, 2], [3, 3], [4, 4], [8, 8], [3, 7], [7, 3], [12, 12],
                [1, 1, 1], [2, 3, 4], [4, 3, 2], [3, 1, 5], [5, 4, 1], [2, 2, 2], [6, 5, 3]]
SQUARE = [[1, 1], [2, 2], [3, 3], [4, 4], [8, 8], [12, 12]]
FLOAT_KINDS = ["normal", "colscale", "loguniform", "const", "zeros", "overflow", "fltmax", "k1", "k2", "tinynormal",
               "nearhalf", "ints", "allexp", "wrapsearch"]


def clip32(x):
    import numpy as np
    fm = float(np.finfo(np.float32).max)
    x = np.nan_to_num(np.asarray(x, dtype=np.float64), nan=0.0, posinf=fm, neginf=-fm)
    x = np.clip(x, -fm, fm)
    y = x.astype(np.float32)
    y = np.where(np.isfinite(y), y, np.sign(x).astype(np.float32) * np.float32(fm))
    return y.astype(np.float32)


def gen_dyadic(rng, shape, N, ed):
    """columns k*2^e, k integer or half-integer, max|k| = N (or an all-zero column); everything exactly representable
    and normal, so the float32 implementation has no rounding to do."""
    import numpy as np
    rows, cols = shape[0], prod(shape[1:])
    nbits = int(N).bit_length()
    x = np.zeros((rows, cols), dtype=np.float64)
    for c in range(cols):
        kind = rng.choice(["int", "half", "zero", "const"], p=[0.5, 0.3, 0.08, 0.12])
        lo = -125 if kind == "half" else -126
        e = int(rng.integers(lo, 127 - nbits + 1))
        idx = [i for i in range(rows) if not (ed and i == c)]
        if not idx or kind == "zero":
            continue
        if kind == "const":
            k = np.full(len(idx), float(N) * rng.choice([-1.0, 1.0]))
        else:
            k = rng.integers(-N, N + 1, size=len(idx)).astype(np.float64)
            if kind == "half":
                h = rng.random(len(idx)) < 0.6
                kk = rng.integers(-N, N, size=len(idx)).astype(np.float64) + 0.5
                k = np.where(h, kk, k)
            k[int(rng.integers(0, len(idx)))] = float(N) * rng.choice([-1.0, 1.0])
        x[idx, c] = k * 2.0 ** e
    if ed:
        for i in range(rows):
            d = rng.choice([0.0, 1.0, -3.5, 2.0 ** int(rng.integers(-120, 120)) * (1 + int(rng.integers(0, 2 ** 23)) / 2 ** 23)])
            x[i, i] = d
    y = x.astype(np.float32)
    assert np.all(y.astype(np.float64) == x)
    return y.reshape(shape)


def gen_float(rng, kind, shape, N, ed):
    import numpy as np
    rows, cols = shape[0], prod(shape[1:])
    rc = (rows, cols)
    fm = float(np.finfo(np.float32).max)
    if kind == "normal":
        x = rng.standard_normal(rc) * 2.0 ** rng.uniform(-100, 120)
    elif kind == "allexp":
        x = rng.standard_normal(rc) * 2.0 ** rng.uniform(-149, 127)
    elif kind == "colscale":
        x = rng.standard_normal(rc) * 2.0 ** rng.integers(-110, 110, size=cols)
    elif kind == "loguniform":
        x = rng.choice([-1.0, 1.0], size=rc) * 2.0 ** rng.uniform(-126, 127.99, size=rc)
    elif kind == "const":
        x = np.tile(rng.standard_normal(cols) * 2.0 ** rng.integers(-60, 60, size=cols), (rows, 1))
        flip = rng.random(cols) < 0.3
        sg = np.where(rng.random(rc) < 0.5, -1.0, 1.0)
        x = np.where(flip[None, :], x * sg, x)
    elif kind == "zeros":
        x = rng.standard_normal(rc) * 2.0 ** rng.uniform(-20, 20)
        x[:, rng.random(cols) < 0.4] = 0.0
        x[rng.random(rc) < 0.3] = 0.0
        neg0 = (x == 0) & (rng.random(rc) < 0.3)
        x = np.where(neg0, -0.0, x)
    elif kind == "overflow":
        x = rng.uniform(-1, 1, size=rc) * fm * rng.uniform(0.5, 1.0)
        for c in range(cols):
            if rng.random() < 0.5:
                x[int(rng.integers(0, rows)), c] = rng.choice([-1.0, 1.0]) * float(np.nextafter(np.float32(fm), np.float32(0)))
    elif kind == "fltmax":
        x = rng.uniform(-1, 1, size=rc) * fm
        for c in range(cols):
            if rng.random() < 0.7:
                x[int(rng.integers(0, rows)), c] = rng.choice([-1.0, 1.0]) * fm
    elif kind == "k1":
        top = np.log2(N) - 126
        x = rng.choice([-1.0, 1.0], size=rc) * 2.0 ** rng.uniform(-149, top - 0.01, size=rc)
        if cols > 1:  # keep some ordinary columns next to the flushed ones
            ordinary = rng.random(cols) < 0.4
            x = np.where(ordinary[None, :], rng.standard_normal(rc), x)
    elif kind == "k2":
        x = rng.choice([-1.0, 1.0], size=rc) * TINY * rng.uniform(0, 1, size=rc)
        for c in range(cols):
            x[int(rng.integers(0, rows)), c] = rng.choice([-1.0, 1.0]) * N * TINY * rng.uniform(1.01, 1.99)
    elif kind == "tinynormal":
        s = N * 2.0 ** rng.integers(-124, -90, size=cols)
        x = rng.uniform(-1, 1, size=rc) * s[None, :]
        for c in range(cols):
            x[int(rng.integers(0, rows)), c] = rng.choice([-1.0, 1.0]) * s[c]
    elif kind == "nearhalf":
        s = 2.0 ** rng.integers(-60, 60, size=cols) * rng.uniform(1, 2, size=cols)
        k = rng.integers(-N, N, size=rc) + 0.5
        x = k * s[None, :] * (1 + rng.integers(-2, 3, size=rc) * 2.0 ** -23)
        for c in range(cols):
            x[int(rng.integers(0, rows)), c] = rng.choice([-1.0, 1.0]) * N * s[c]
    elif kind == "wrapsearch":
        # the largest entry's computed ratio is N(1+d2)/(1+d1): random significands of the column maximum, the other
        # entries just below it or at a half-integer multiple of the bucket
        mant = 1.0 + rng.integers(0, 2 ** 23, size=cols) / 2.0 ** 23
        s = mant * 2.0 ** rng.integers(-100, 100, size=cols)
        x = rng.choice([-1.0, 1.0], size=rc) * s[None, :] * (1.0 - rng.integers(0, 4, size=rc) * 2.0 ** -24 * rng.integers(0, 2, size=rc))
        half = rng.random(rc) < 0.3
        x = np.where(half, rng.choice([-1.0, 1.0], size=rc) * (N - 0.5) / N * s[None, :] * (1 + rng.integers(-2, 3, size=rc) * 2.0 ** -23), x)
        for c in range(cols):
            x[int(rng.integers(0, rows)), c] = rng.choice([-1.0, 1.0]) * s[c]
    elif kind == "ints":
        x = rng.integers(-9, 10, size=rc).astype(np.float64)
    else:
        raise ValueError(kind)
    return clip32(x).reshape(shape)


def mk_case(stream, dtype, shape, ed, mode, x, kind, batch_with=None):
    c = {"stream": stream, "dtype": dtype, "shape": [int(d) for d in shape], "ed": bool(ed), "mode": mode,
         "kind": kind, "data": hexes(x)}
    if batch_with is not None:
        c["batch_with"] = [hexes(b) for b in batch_with]
    return c


def load_corpus():
    out = []
    for p in sorted(glob.glob(os.path.join(kit.ROOT, "corpus", "C11", "*.json"))):
        d = json.load(open(p))
        for c in d.get("cases", []):
            c = dict(c)
            c.setdefault("kind", "corpus:" + os.path.basename(p))
            out.append(c)
    return out


def gen_cases(tier, seed, NB):
    import numpy as np
    rng = np.random.default_rng([seed, 11])
    shapes = [list(s) for s in QUICK_SHAPES]
    squares = [list(s) for s in SQUARE]
    if tier == "thorough":
        for _ in range(14):
            r = int(rng.integers(1, 4))
            shapes.append([int(rng.integers(1, 11)) for _ in range(r)])
        squares += [[5, 5], [16, 16]]
    reps_dy = 3 if tier == "quick" else 20
    reps_fl = 1 if tier == "quick" else 10
    cases = []
    for dtype in ("int8", "int16"):
        N = NB[dtype]
        cfgs = [(s, False) for s in shapes] + [(s, True) for s in squares]
        for shape, ed in cfgs:
            modes = ["eager", "jit"]
            for mode in modes:
                for _ in range(reps_dy):
                    cases.append(mk_case("dyadic", dtype, shape, ed, mode, gen_dyadic(rng, shape, N, ed), "dyadic"))
                for kind in FLOAT_KINDS:
                    for _ in range(reps_fl):
                        if tier == "quick" and mode == "jit" and rng.random() < 0.5:
                            continue
                        cases.append(mk_case("float", dtype, shape, ed, mode, gen_float(rng, kind, shape, N, ed), kind))
        # every exponent that keeps bucket = 2^e normal and N*2^e finite (quick: every 4th and both ends)
        nbits = int(N).bit_length()
        es = list(range(-126, 128 - nbits + 1))
        if tier == "quick":
            es = sorted(set(es[::4] + es[:2] + es[-2:]))
        for e in es:
            for mode in ("eager", "jit"):
                k = np.array([N * rng.choice([-1.0, 1.0]), float(rng.integers(-N, N + 1)), float(rng.integers(-N, N)) + (0.5 if e > -126 else 0.0),
                              0.0, float(rng.integers(-N, N + 1))])
                x = (k * 2.0 ** e).astype(np.float32)
                assert np.all(x.astype(np.float64) == k * 2.0 ** e) and np.all(np.isfinite(x))
                cases.append(mk_case("dyadic", dtype, [5], False, mode, x, "dyadic_sweep"))
        # the vmapped form used by _quantized_matrix_inverse_pth_root_vmap (square, extract_diagonal=True)
        for shape in squares:
            for _ in range(2 if tier == "quick" else 8):
                kinds = list(rng.choice(FLOAT_KINDS, size=2)) + ["dyadic"]
                mats = [gen_dyadic(rng, shape, N, True) if k == "dyadic" else gen_float(rng, k, shape, N, True) for k in kinds]
                for j, k in enumerate(kinds):
                    others = [m for jj, m in enumerate(mats) if jj != j]
                    cases.append(mk_case("dyadic" if k == "dyadic" else "float", dtype, shape, True, "vmap", mats[j], k,
                                         batch_with=others))
        # many column maxima at once: does the computed ratio of the largest entry ever round to N+1 ?
        for mode in ("eager", "jit"):
            for shape in ([2, 257], [1, 128], [3, 64, 2]):
                for _ in range(1 if tier == "quick" else 6):
                    cases.append(mk_case("float", dtype, shape, False, mode, gen_float(rng, "wrapsearch", shape, N, False), "wrapsearch"))
    # bfloat16 / float32 passthrough; extract_diagonal is accepted and ignored for these dtypes
    for dtype in ("bfloat16", "float32"):
        for shape in squares[:4]:
            for mode in ("eager", "jit"):
                cases.append(mk_case("cast", dtype, shape, True, mode, gen_float(rng, "normal", shape, 127, False), "normal"))
        for shape in shapes[:: (2 if tier == "quick" else 1)]:
            for mode in ("eager", "jit"):
                for kind in ["normal", "allexp", "loguniform", "zeros", "overflow", "fltmax", "k1", "ints", "nearhalf"]:
                    if tier == "quick" and rng.random() < 0.5:
                        continue
                    cases.append(mk_case("cast", dtype, shape, False, mode, gen_float(rng, kind, shape, 127, False), kind))
    return cases


# ----------------------------------------------------------------------------- implementation runner
def run_impl(chunk):
    """Real code on a chunk of cases -> one observation dict per case (bit patterns / ints only)."""
    import numpy as np
    import jax
    import jax.numpy as jnp
    from precondition.quantization_utils import QuantizedValue as QV

    dts = {"int8": jnp.int8, "int16": jnp.int16, "bfloat16": jnp.bfloat16, "float32": jnp.float32}
    jitted = {}

    def fns(dtype, ed, mode):
        key = (dtype, ed, mode)
        if key in jitted:
            return jitted[key]
        dt = dts[dtype]
        q = lambda v: QV.from_float_value(v, dt, ed)  # noqa: E731
        d = lambda qv: qv.to_float()  # noqa: E731
        if mode == "jit":
            q, d = jax.jit(q), jax.jit(d)
        elif mode == "vmap":
            # as in distributed_shampoo._quantized_matrix_inverse_pth_root_vmap: payload triples cross vmap, the
            # QuantizedValue is rebuilt from them
            def q1(m):
                qp = QV.from_float_value(m, dt, True)
                return qp.quantized, qp.diagonal, qp.bucket_size

            def d1(qx, qd, qb):
                return QV(qx, qd, qb, qx.dtype, True, list(qx.shape)).to_float()
            q, d = jax.jit(jax.vmap(q1)), jax.jit(jax.vmap(d1))
        jitted[key] = (q, d)
        return q, d

    def bits(a):
        return ["0x%08x" % int(v) for v in np.asarray(a, dtype=np.float32).reshape(-1).view(np.uint32)]

    out = []
    for c in chunk:
        try:
            shape = c["shape"]
            x = np.array([int(h, 16) for h in c["data"]], dtype=np.uint32).view(np.float32).reshape(shape)
            q, d = fns(c["dtype"], c["ed"], c["mode"])
            obs = {}
            if c["mode"] == "vmap":
                others = [np.array([int(h, 16) for h in b], dtype=np.uint32).view(np.float32).reshape(shape) for b in c["batch_with"]]
                xs = jnp.asarray(np.stack([x] + others))
                qx, qd, qb = q(xs)
                y = d(qx, qd, qb)
                qx2, _qd2, qb2 = q(y)
                obs = {"q": [int(v) for v in np.asarray(qx[0]).reshape(-1)], "bucket": bits(qb[0]), "diag": bits(qd[0]),
                       "deq": bits(y[0]), "rq": [int(v) for v in np.asarray(qx2[0]).reshape(-1)], "rbucket": bits(qb2[0]),
                       "qdtype": str(qx.dtype)}
            else:
                qv = q(jnp.asarray(x))
                y = d(qv)
                qv2 = q(y)
                if c["dtype"] in ("int8", "int16"):
                    obs = {"q": [int(v) for v in np.asarray(qv.quantized).reshape(-1)], "bucket": bits(qv.bucket_size),
                           "diag": bits(qv.diagonal) if c["ed"] else [],
                           "deq": bits(y), "rq": [int(v) for v in np.asarray(qv2.quantized).reshape(-1)],
                           "rbucket": bits(qv2.bucket_size), "qdtype": str(qv.quantized.dtype),
                           "shape_field": [int(v) for v in qv.shape]}
                else:
                    y2 = d(qv2)
                    obs = {"deq": bits(y), "deq2": bits(y2), "qdtype": str(qv.quantized.dtype),
                           "ydtype": str(np.asarray(y).dtype)}
            if tuple(np.asarray(y).shape[-len(shape):]) != tuple(shape):
                obs["exception"] = f"to_float shape {np.asarray(y).shape} for input shape {shape}"
        except Exception as e:  # noqa: BLE001
            obs = {"exception": type(e).__name__ + ": " + str(e)[:300]}
        out.append(obs)
    return out


# ----------------------------------------------------------------------------- direct oracle (no model)
def oracle_int(c, obs, N):
    """The property on the implementation's outputs. Returns list of (known_id_or_None, message)."""
    import numpy as np
    shape = c["shape"]
    rows, cols = shape[0], prod(shape[1:])
    bits_n = INT_BITS[c["dtype"]]
    minint = -(2 ** (bits_n - 1))
    x32 = unhex(c["data"], (rows, cols))
    X = x32.astype(np.float64)
    fails = []
    if obs.get("qdtype") != c["dtype"]:
        fails.append((None, f"payload dtype {obs.get('qdtype')} instead of {c['dtype']}"))
    q = np.array(obs["q"], dtype=np.int64).reshape(rows, cols)
    rq = np.array(obs["rq"], dtype=np.int64).reshape(rows, cols)
    Y = unhex(obs["deq"], (rows, cols)).astype(np.float64)
    if c["ed"]:
        D = np.diag(X).copy()
        P = X - np.diag(D)          # exact: off-diagonal unchanged, diagonal 0
    else:
        P = X
    m = np.abs(P).max(axis=0)      # exact column max-abs
    bt = m / N
    slack = (0.5 + (3.0 * N + 2.0) * 2.0 ** -24) * bt
    with np.errstate(invalid="ignore", over="ignore"):
        err = np.abs(Y - X)
    sub_entry = (np.abs(P) > 0) & (np.abs(P) < TINY)
    k1_col = (m > 0) & (m < N * TINY)
    fltmax_col = m == float(np.finfo(np.float32).max)
    eager = c["mode"] == "eager"

    def classify(i, j, diag_clause=False):
        if diag_clause:
            if c["ed"] and i == j and 0 < abs(X[i, i]) < TINY and Y[i, i] == 0.0:
                return "K4"
            return None
        if k1_col[j]:
            return "K1"
        if sub_entry[i, j]:
            return "K2"
        if fltmax_col[j] and eager and np.isinf(Y[:, j]).any():
            return "K3"
        return None

    # 1. half-bucket round trip (diagonal entries of an extracted diagonal are judged by clause 4)
    bad = ~(err <= slack[None, :])
    if c["ed"]:
        bad[np.arange(rows), np.arange(rows)] = False
    for i, j in zip(*np.nonzero(bad)):
        fails.append((classify(i, j), f"round-trip error {err[i, j]:.6g} > (1/2+(3N+2)*2^-24)*bucket = {slack[j]:.6g} at row {i} column {j} "
                      f"(x={X[i, j]!r}, to_float={Y[i, j]!r}, q={q[i, j]}, column max|x|={m[j]!r}, N={N})"))
    # 2. no wrap
    for i, j in zip(*np.nonzero((q == minint) | (np.abs(q) > N))):
        fails.append((None, f"stored integer {q[i, j]} outside [-N, N] = [-{N}, {N}] or equal to the most negative {c['dtype']} value {minint} at row {i} column {j} (x={X[i, j]!r}, column max|x|={m[j]!r})"))
    # 3. zeros exact
    for i, j in zip(*np.nonzero((X == 0) & ((Y != 0) | (q != 0)))):
        fails.append((classify(i, j), f"zero at row {i} column {j} comes back as {Y[i, j]!r} (q={q[i, j]})"))
    # 4. diagonal exact
    if c["ed"]:
        dstored = unhex(obs["diag"])
        xd = np.diag(x32)
        if dstored.shape != xd.shape or not np.array_equal(dstored.view(np.uint32), xd.view(np.uint32)):
            fails.append((None, f"stored diagonal {dstored.tolist()} differs from the diagonal {xd.tolist()}"))
        for i in range(rows):
            if not (Y[i, i] == X[i, i]):
                fails.append((classify(i, i, True), f"diagonal entry {i} = {X[i, i]!r} comes back as {Y[i, i]!r}"))
            if q[i, i] != 0:
                fails.append((None, f"diagonal entry {i} has payload {q[i, i]} although the diagonal is extracted"))
    # 5. re-quantizing reproduces the integers
    for j in np.nonzero((rq != q).any(axis=0))[0]:
        i = int(np.nonzero(rq[:, j] != q[:, j])[0][0])
        kid = "K3" if (fltmax_col[j] and eager and np.isinf(Y[:, j]).any()) else None
        fails.append((kid, f"re-quantized integer {rq[i, j]} != {q[i, j]} at row {i} column {j} (column max|x|={m[j]!r})"))
    info = {"k1_cols": int(k1_col.sum()), "sub_entries": int((sub_entry & ~k1_col[None, :]).sum()), "fltmax_cols": int(fltmax_col.sum()),
            "zero_cols": int((m == 0).sum()), "nontrivial": bool(((q != 0) & (np.abs(q) != N)).any()),
            "max_ratio_err": float(np.nanmax(np.where(bt[None, :] > 0, err / np.where(bt > 0, bt, 1.0)[None, :], 0.0))) if err.size else 0.0}
    return fails, info


def oracle_cast(c, obs):
    import numpy as np
    x32 = unhex(c["data"])
    y32 = unhex(obs["deq"])
    y2 = unhex(obs["deq2"])
    X, Y = x32.astype(np.float64), y32.astype(np.float64)
    fails = []
    info = {"inf_overflow": 0}
    if obs.get("ydtype") != "float32":
        fails.append((None, f"to_float dtype {obs.get('ydtype')}"))
    if c["dtype"] == "float32":
        if not np.array_equal(x32.view(np.uint32), y32.view(np.uint32)):
            fails.append((None, "float32 passthrough changed bits"))
        return fails, info
    if obs.get("qdtype") != "bfloat16":
        fails.append((None, f"payload dtype {obs.get('qdtype')} instead of bfloat16"))
    # bfloat16: half an 8-bit ulp, zeros exact, idempotent; finite values above the bfloat16 range round to inf (IEEE)
    big = np.abs(X) >= float(2.0 ** 128 - 2.0 ** 119)   # midpoint between bf16 max and 2^128
    info["inf_overflow"] = int(big.sum())
    with np.errstate(invalid="ignore", over="ignore"):
        err = np.abs(Y - X)
    bound = np.maximum(np.abs(X) * 2.0 ** -8, 2.0 ** -134)
    bad = ~(err <= bound) & ~big
    for i in np.nonzero(bad)[0][:5]:
        fails.append((None, f"bfloat16 round trip of {X[i]!r} gives {Y[i]!r}"))
    if np.any((X == 0) & (Y != 0)):
        fails.append((None, "bfloat16: zero not reproduced"))
    if not np.array_equal(y32.view(np.uint32), y2.view(np.uint32)):
        fails.append((None, "bfloat16: re-quantizing a dequantized value changes it"))
    return fails, info


# ----------------------------------------------------------------------------- comparison with the model
def f32_fraction(v):
    return Fraction(float(v))


def compare_int(ctx, c, obs, rep, N):
    import numpy as np
    shape = c["shape"]
    rows, cols = shape[0], prod(shape[1:])
    if "error" in rep:
        raise kit.InfraError(f"driver error: {rep['error']}")
    mq = np.array(rep["q"], dtype=np.int64).reshape(rows, cols)
    iq = np.array(obs["q"], dtype=np.int64).reshape(rows, cols)
    ib = unhex(obs["bucket"])
    mb = [Fraction(s) for s in rep["bucket"]]
    tag = c["stream"]
    if len(ib) != cols or len(mb) != cols:
        ctx.disagree(tag + ".bucket_shape", slim(c), len(ib), len(mb), "number of bucket sizes")
        return
    if obs.get("shape_field") is not None and obs["shape_field"] != shape:
        ctx.disagree(tag + ".shape_field", slim(c), obs["shape_field"], shape)
    if tag == "dyadic":
        # EXACT-DYADIC: everything bit for bit
        ok = np.array_equal(mq, iq)
        ctx.corr("dyadic.q", ok)
        if not ok:
            ctx.disagree("dyadic.q", slim(c), iq.reshape(-1).tolist()[:64], mq.reshape(-1).tolist()[:64])
        ibf = [f32_fraction(v) for v in ib]
        ok = ibf == mb
        ctx.corr("dyadic.bucket", ok)
        if not ok:
            ctx.disagree("dyadic.bucket", slim(c), [str(v) for v in ibf][:16], rep["bucket"][:16])
        idq = [f32_fraction(v) for v in unhex(obs["deq"])]
        ok = idq == [Fraction(s) for s in rep["deq"]]
        ctx.corr("dyadic.to_float", ok)
        if not ok:
            ctx.disagree("dyadic.to_float", slim(c), obs["deq"][:16], rep["deq"][:16])
        ok = obs["rq"] == rep["rq"]
        ctx.corr("dyadic.requantize.q", ok)
        if not ok:
            ctx.disagree("dyadic.requantize.q", slim(c), obs["rq"][:64], rep["rq"][:64])
        ok = [f32_fraction(v) for v in unhex(obs["rbucket"])] == [Fraction(s) for s in rep["rbucket"]]
        ctx.corr("dyadic.requantize.bucket", ok)
        if not ok:
            ctx.disagree("dyadic.requantize.bucket", slim(c), obs["rbucket"][:16], rep["rbucket"][:16])
        if c["ed"]:
            ok = [f32_fraction(v) for v in unhex(obs["diag"])] == [Fraction(s) for s in rep["diag"]]
            ctx.corr("dyadic.diag", ok)
            if not ok:
                ctx.disagree("dyadic.diag", slim(c), obs["diag"][:16], rep["diag"][:16])
        return
    # float stream: integers, with classification of rounding boundaries and of the flush / overflow regimes
    x32 = unhex(c["data"], (rows, cols))
    X = x32.astype(np.float64)
    P = X - np.diag(np.diag(X)) if c["ed"] else X
    m = np.abs(P).max(axis=0)
    k1_col = (m > 0) & (m < N * TINY)
    sub_entry = (np.abs(P) > 0) & (np.abs(P) < TINY)
    diff = iq - mq
    nb = 0
    for j in range(cols):
        if k1_col[j]:
            ctx.corr("float.q.skipped_flush_regime(K1)", True, rows)
            continue
        # bucket: within 1.5 * 2^-23 relative of the exact max|x|/N
        bi = f32_fraction(ib[j])
        okb = abs(bi - mb[j]) <= mb[j] * Fraction(3, 2 ** 24)
        ctx.corr("float.bucket", okb)
        if not okb:
            ctx.disagree("float.bucket", slim(c), str(bi), rep["bucket"][j], f"column {j}")
        col_diff = diff[:, j]
        same = int((col_diff == 0).sum())
        if same:
            ctx.corr("float.q", True, same)
        for i in np.nonzero(col_diff)[0]:
            i = int(i)
            dlt = int(col_diff[i])
            if sub_entry[i, j]:
                ctx.corr("float.q.skipped_subnormal_entry(K2)", True)
                continue
            near = False
            if abs(dlt) == 1 and mb[j] > 0:
                ratio = Fraction(float(P[i, j])) / mb[j]
                fr = ratio - (ratio.numerator // ratio.denominator)   # fractional part in [0,1)
                near = abs(fr - Fraction(1, 2)) <= Fraction(N, 2 ** 22)
            if near:
                nb += 1
                ctx.corr("float.q.boundary", True)
            else:
                ctx.disagree("float.q", slim(c), int(iq[i, j]), int(mq[i, j]),
                             f"row {i} column {j} x={X[i, j]!r} column max|x|={m[j]!r}")
    if nb:
        ctx.dist("boundary_entries", nb)
    if c["ed"]:
        ok = [f32_fraction(v) for v in unhex(obs["diag"])] == [Fraction(s) for s in rep["diag"]]
        ctx.corr("float.diag", ok)
        if not ok:
            ctx.disagree("float.diag", slim(c), obs["diag"][:16], rep["diag"][:16])


def compare_fl32(ctx, c, obs, rep, N):
    """FLOAT32-EXACT: every column of the implementation equals one division variant of the rounded-arithmetic model."""
    import numpy as np
    if "error" in rep:
        raise kit.InfraError(f"driver error: {rep['error']}")
    shape = c["shape"]
    rows, cols = shape[0], prod(shape[1:])
    x32 = unhex(c["data"], (rows, cols))
    X = x32.astype(np.float64)
    P = X - np.diag(np.diag(X)) if c["ed"] else X
    m = np.abs(P).max(axis=0)
    k1_col = (m > 0) & (m <= N * TINY)          # '<=': m*fl(1/N) may land just below the normal range
    sub_col = ((np.abs(X) > 0) & (np.abs(X) < TINY)).any(axis=0)   # incl. a subnormal extracted diagonal (K4)
    ib = [f32_fraction(v) for v in unhex(obs["bucket"])]
    if len(obs["q"]) != rows * cols or len(ib) != cols:
        # the implementation no longer produces one bucket per column / one integer per entry (e.g. a change of the reduction
        # axes): that is a disagreement with the model, not a harness error
        ctx.disagree("fl32.column", slim(c), {"n_q": len(obs["q"]), "n_bucket": len(ib)}, {"n_q": rows * cols, "n_bucket": cols},
                     "implementation payload/bucket_size do not have the shapes the model predicts (rows x cols, cols)")
        return
    iq = np.array(obs["q"], dtype=np.int64).reshape(rows, cols)
    iy = unhex(obs["deq"], (rows, cols))
    variants = {}
    for k in ("00", "01", "10", "11"):
        r = rep[k]
        variants[k] = (np.array(r["q"], dtype=np.int64).reshape(rows, cols), [Fraction(t) for t in r["bucket"]],
                       r["deq"], bool(r["overflow"]))
    # guard of roundtrip_fp_xla_fl32 / no_wrap_fp_fl32 (NormalCol 2^-126 N), evaluated by the model per column: inside it the
    # theorems promise the bound for the executed model, so such a column must never be one the comparison skips as a
    # flush regime of the bucketed part, and the implementation must meet the theorem's bound there
    guard = [bool(g) for g in rep["normal"]]
    P_sub = ((np.abs(P) > 0) & (np.abs(P) < TINY)).any(axis=0)
    bt = m / N
    for j in range(cols):
        ctx.dist("fl32_guard:" + ("inside" if guard[j] else "outside"))
        # (a subnormal ENTRY does not contradict the guard: NormalCol bounds entries relative to the bucket, and the theorem is about
        # the executed model, which has no denormals-are-zero; such columns stay classified as K2 below)
        if guard[j] and k1_col[j]:
            ctx.disagree("fl32.guard", slim(c), "flush regime (K1/K2) by the harness classification", "NormalCol holds",
                         f"column {j}: the theorem's guard holds for a column the harness treats as a flush regime")
    if any(v[3] for v in variants.values()):
        ctx.corr("fl32.skipped_overflow_regime(K3)", True, cols)
        return
    for j in range(cols):
        if k1_col[j] or sub_col[j]:
            ctx.corr("fl32.skipped_flush_regime(K1/K2)", True)
            continue
        col_y = None
        matched = []
        for k, (mq, mb, md, _ov) in variants.items():
            if mb[j] != ib[j] or not np.array_equal(mq[:, j], iq[:, j]):
                continue
            if col_y is None:
                col_y = [f32_fraction(v) if np.isfinite(v) else None for v in iy[:, j]]
            if [Fraction(md[i * cols + j]) for i in range(rows)] == col_y:
                matched.append(k)
        ok = bool(matched)
        ctx.corr("fl32.column", ok)
        if ok:
            ctx.dist("fl32_variant:" + ("any" if len(matched) == 4 else "+".join(matched)))
        else:
            ctx.disagree("fl32.column", slim(c), {"q": iq[:, j].tolist()[:32], "bucket": str(ib[j]), "deq": [float(v) for v in iy[:, j]][:32]},
                         {k: {"q": variants[k][0][:, j].tolist()[:32], "bucket": str(variants[k][1][j])} for k in ("00", "11")},
                         f"column {j}: no division variant of the float32 model reproduces bucket, integers and to_float")


def compare_cast(ctx, c, obs, rep):
    if c["dtype"] == "float32":
        ok = obs["deq"] == c["data"]
        ctx.corr("float32.passthrough", ok)
        if not ok:
            ctx.disagree("float32.passthrough", slim(c), obs["deq"][:16], c["data"][:16])
        return
    if "error" in rep:
        raise kit.InfraError(f"driver error: {rep['error']}")
    import numpy as np
    y = unhex(obs["deq"])
    bad = 0
    for k, (v, r) in enumerate(zip(y, rep["r"])):
        if r == "overflow":
            ok = bool(np.isinf(v))
        else:
            ok = bool(np.isfinite(v)) and Fraction(float(v)) == Fraction(r)
        if not ok:
            bad += 1
            if bad <= 2:
                ctx.disagree("bfloat16.round", slim(c), c["data"][k] + " -> " + obs["deq"][k], r, f"entry {k}")
    ctx.corr("bfloat16.round", True, len(y) - bad)


def slim(c):
    """case without bulky duplicates, still replayable"""
    return c


def case_request(c, N):
    if c["dtype"] in INT_BITS:
        return {"op": "quantize", "N": int(N), "shape": c["shape"], "ed": c["ed"], "data": c["data"]}
    if c["dtype"] == "bfloat16":
        return {"op": "bf16", "data": c["data"]}
    return {"op": "round", "data": []}


def report(ctx, c, fails):
    known = ctx.known_ids()
    for kid, msg in fails:
        if kid is not None and kid in known:
            ctx.known_finding(kid, K_TEXT[kid])
            ctx.dist("known_finding_" + kid)
        else:
            what = msg if kid is None else f"[{kid} regime, not listed in known_findings.json] {msg}"
            ctx.violation(f"{c['dtype']} {c['mode']} extract_diagonal={c['ed']} shape={c['shape']}: {what}", c)


def execute(ctx, cases, NB):
    # contiguous chunks share (mode, dtype, ed, shape) so that a worker compiles few configurations
    order = sorted(range(len(cases)), key=lambda k: (cases[k]["mode"], cases[k]["dtype"], cases[k]["ed"], cases[k]["shape"]))
    srt = [cases[k] for k in order]
    chunks = kit.chunked(srt, max(1, len(srt) // 56 + 1))
    results = kit.parallel_map(run_impl, chunks, nproc=14)
    flat_sorted = [r for ch in results for r in ch]
    flat = [None] * len(cases)
    for pos, k in enumerate(order):
        flat[k] = flat_sorted[pos]
    judge(ctx, cases, flat, NB)
    return flat


def judge(ctx, cases, flat, NB):
    """oracle + model comparison of observed (case, obs) pairs"""
    reqs = [case_request(c, NB.get(c["dtype"], 1)) for c in cases]
    fl_idx = [k for k, c in enumerate(cases) if c["dtype"] in INT_BITS]
    reqs_fl = [dict(case_request(cases[k], NB[cases[k]["dtype"]]), op="quantize_fl32") for k in fl_idx]
    all_replies = ctx.driver(reqs + reqs_fl)
    replies = all_replies[:len(reqs)]
    fl_reply = dict(zip(fl_idx, all_replies[len(reqs):]))
    import hashlib
    for kk, (c, obs, rep) in enumerate(zip(cases, flat, replies)):
        ctx.evaluated()
        ctx.cov["search_evaluations"] += 1
        ctx.dist(f"{c['stream']}:{c['dtype']}:{c['mode']}:ed={int(c['ed'])}")
        ctx.dist("kind:" + str(c.get("kind")))
        ctx.dist("rank:%d" % len(c["shape"]))
        if "exception" in obs:
            ctx.violation(f"{c['dtype']} {c['mode']} shape={c['shape']}: implementation raised {obs['exception']}", c)
            continue
        key = (c["stream"], c["dtype"], c["mode"], c["ed"], tuple(c["shape"]), hashlib.sha1("".join(c["data"]).encode()).hexdigest()[:16])
        if c["dtype"] in INT_BITS:
            N = NB[c["dtype"]]
            fails, info = oracle_int(c, obs, N)
            for k in ("k1_cols", "sub_entries", "fltmax_cols", "zero_cols"):
                if info[k]:
                    ctx.dist("columns_or_entries:" + k, info[k])
            ctx.cov["max_roundtrip_error_in_buckets"] = max(ctx.cov.get("max_roundtrip_error_in_buckets", 0.0),
                                                            info["max_ratio_err"] if not any(f[0] for f in fails) and not fails else 0.0)
            if info["nontrivial"]:
                ctx.nontrivial(key)
            report(ctx, c, fails)
            compare_int(ctx, c, obs, rep, N)
            compare_fl32(ctx, c, obs, fl_reply[kk], N)
        else:
            fails, info = oracle_cast(c, obs)
            if info["inf_overflow"]:
                ctx.dist("bfloat16_finite_above_range_rounds_to_inf", info["inf_overflow"])
            ctx.nontrivial(key)
            report(ctx, c, fails)
            compare_cast(ctx, c, obs, rep)


# ----------------------------------------------------------------------------- call sites inside the optimizers
def site_configs(tier, seed):
    import numpy as np
    rng = np.random.default_rng([seed, 1111])
    trees = [[[4, 3], [5], [2, 3, 2], []], [[3, 3], [1, 4], [6, 1]], [[2, 2, 2], [7]], [[5, 2, 1, 2], [3]]]
    out = []
    n = 1 if tier == "quick" else 4
    for _ in range(n):
        for be in (True, False):
            for graft in ("SGD", "RMSPROP_NORMALIZED", "ADAGRAD"):
                out.append({"opt": "ds", "best_effort": be, "graft": graft, "shapes": trees[int(rng.integers(0, len(trees)))],
                            "scale_log2": int(rng.integers(-40, 40)), "gseed": int(rng.integers(0, 2 ** 31)), "steps": 3})
        for tr in trees[:2] if tier == "quick" else trees:
            out.append({"opt": "sm3", "shapes": [sh for sh in tr if sh], "scale_log2": int(rng.integers(-40, 40)),
                        "gseed": int(rng.integers(0, 2 ** 31)), "steps": 3})
        out.append({"opt": "ds_pmap", "best_effort": True, "graft": "RMSPROP_NORMALIZED", "shapes": [[4, 3], [5], [3, 3]],
                    "scale_log2": int(rng.integers(-10, 10)), "gseed": int(rng.integers(0, 2 ** 31)), "steps": 3})
    return out


def run_sites(chunk):
    """Run real optimizers eagerly with QuantizedValue.from_float_value wrapped by a recorder (the class attribute is
    patched in this worker process only; /repo is not touched)."""
    import sys
    import io
    import contextlib
    import numpy as np
    import jax
    import jax.numpy as jnp
    from precondition import distributed_shampoo as ds
    from precondition import sm3
    from precondition.quantization_utils import QuantizedValue as QV

    orig = QV.from_float_value.__func__
    log = []

    def bits(a):
        return ["0x%08x" % int(v) for v in np.asarray(a, dtype=np.float32).reshape(-1).view(np.uint32)]

    def rec(cls, fvalue, quantized_dtype, extract_diagonal=False):
        out = orig(cls, fvalue, quantized_dtype, extract_diagonal)
        caller = sys._getframe(1).f_code.co_name
        dname = jnp.dtype(quantized_dtype).name
        if isinstance(fvalue, list):
            back = out.to_float()
            log.append({"site": caller, "dtype": dname, "ed": bool(extract_diagonal), "empty": True,
                        "ok": bool(fvalue == [] and isinstance(back, list) and back == [] and out.quantized == [])})
            return out
        if isinstance(fvalue, jax.core.Tracer):
            log.append({"site": caller, "dtype": dname, "ed": bool(extract_diagonal), "traced": True, "rank": int(fvalue.ndim)})
            return out
        x = np.asarray(fvalue)
        shape = [int(d) for d in x.shape]
        e = {"site": caller, "dtype": dname, "ed": bool(extract_diagonal), "rank": len(shape), "shape": shape or [1],
             "data": bits(x), "in_dtype": str(x.dtype)}
        y = out.to_float()
        out2 = orig(cls, y, quantized_dtype, extract_diagonal)
        if dname in ("int8", "int16"):
            e["obs"] = {"q": [int(v) for v in np.asarray(out.quantized).reshape(-1)], "bucket": bits(out.bucket_size),
                        "diag": bits(out.diagonal) if extract_diagonal else [], "deq": bits(y),
                        "rq": [int(v) for v in np.asarray(out2.quantized).reshape(-1)], "rbucket": bits(out2.bucket_size),
                        "qdtype": str(out.quantized.dtype), "shape_field": [int(v) for v in out.shape]}
        else:
            e["obs"] = {"deq": bits(y), "deq2": bits(out2.to_float()), "qdtype": str(out.quantized.dtype),
                        "ydtype": str(np.asarray(y).dtype)}
        log.append(e)
        return out

    def state_qvs(tree):
        return [l for l in jax.tree_util.tree_leaves(tree, is_leaf=lambda t: isinstance(t, QV)) if isinstance(l, QV)]

    results = []
    QV.from_float_value = classmethod(rec)
    try:
        for cfg in chunk:
            log.clear()
            res = {"cfg": cfg, "records": [], "state": []}
            try:
                rng = np.random.default_rng(cfg["gseed"])
                params = {"p%d" % k: jnp.asarray(rng.standard_normal(sh).astype(np.float32)) for k, sh in enumerate(cfg["shapes"])}
                sc = 2.0 ** cfg["scale_log2"]
                with contextlib.redirect_stdout(io.StringIO()):
                    if cfg["opt"] == "sm3":
                        opt = sm3.sm3(0.1)
                    else:
                        opt = ds.distributed_shampoo(
                            0.1, block_size=8, best_effort_memory_usage_reduction=cfg["best_effort"],
                            batch_axis_name="batch" if cfg["opt"] == "ds_pmap" else None,
                            graft_type=getattr(ds.GraftingType, cfg["graft"]), preconditioning_compute_steps=1,
                            statistics_compute_steps=1, skip_preconditioning_rank_lt=0, start_preconditioning_step=1)
                    st = opt.init(params)
                    upd = opt.update
                    if cfg["opt"] == "ds_pmap":
                        rep = lambda tree: jax.tree.map(lambda x: jnp.broadcast_to(x, (1,) + x.shape), tree)  # noqa: E731
                        upd = jax.pmap(opt.update, axis_name="batch")
                        st, params = rep(st), rep(params)
                    for _ in range(cfg["steps"]):
                        g = jax.tree.map(lambda p: jnp.asarray((rng.standard_normal(p.shape) * sc).astype(np.float32)), params)
                        _u, st = upd(g, st, params)
                res["records"] = list(log)
                # the QuantizedValues left in the optimizer state (payloads only; judged by their own invariants)
                for qv in state_qvs(st):
                    dname = jnp.dtype(qv.quantized_dtype).name
                    if dname not in ("int8", "int16") or isinstance(qv.quantized, list):
                        res["state"].append({"dtype": dname, "ed": bool(qv.extract_diagonal)})
                        continue
                    lead = 1 if cfg["opt"] == "ds_pmap" else 0
                    q = np.asarray(qv.quantized)[0] if lead else np.asarray(qv.quantized)
                    b = np.asarray(qv.bucket_size)[0] if lead else np.asarray(qv.bucket_size)
                    d = (np.asarray(qv.diagonal)[0] if lead else np.asarray(qv.diagonal)) if qv.extract_diagonal else None
                    one = QV(jnp.asarray(q), jnp.asarray(d) if d is not None else [], jnp.asarray(b), qv.quantized_dtype,
                             qv.extract_diagonal, list(q.shape))
                    y = one.to_float()
                    again = orig(QV, y, qv.quantized_dtype, qv.extract_diagonal)
                    res["state"].append({"dtype": dname, "ed": bool(qv.extract_diagonal), "shape": [int(v) for v in q.shape],
                                         "q": [int(v) for v in q.reshape(-1)], "bucket": bits(b),
                                         "rq": [int(v) for v in np.asarray(again.quantized).reshape(-1)],
                                         "rbucket": bits(again.bucket_size), "finite": bool(np.isfinite(np.asarray(y)).all())})
            except Exception as e:  # noqa: BLE001
                res["exception"] = type(e).__name__ + ": " + str(e)[:300]
            results.append(res)
    finally:
        QV.from_float_value = classmethod(orig)
        jax.clear_caches()
    return results


def judge_sites(ctx, results, NB):
    import numpy as np
    cases, flat, dreqs, dmeta = [], [], [], []
    for res in results:
        cfg = res["cfg"]
        ctx.evaluated()
        ctx.dist("site_run:" + cfg["opt"])
        if "exception" in res:
            ctx.violation(f"optimizer run {cfg['opt']} with quantized state raised {res['exception']}", {"site_cfg": cfg})
            continue
        for r in res["records"]:
            ctx.dist(f"site_call:{cfg['opt']}:{r['site']}:{r['dtype']}:" + ("empty" if r.get("empty") else "traced" if r.get("traced") else "rank%d" % r["rank"]))
            # which dtype does the model predict for this call site ?
            if r["site"] == "_quantize_momentum" and cfg["opt"] == "sm3":
                dreqs.append({"op": "call_site_dtype", "site": "sm3_momentum"})
            elif r["site"] == "_quantize_momentum":
                if r.get("empty"):
                    continue
                dreqs.append({"op": "call_site_dtype", "site": "ds_momentum", "best_effort": bool(cfg["best_effort"]), "rank": int(r["rank"])})
            elif r["site"] == "_quantize_diagonal_statistics":
                dreqs.append({"op": "call_site_dtype", "site": "ds_diagonal_statistics"})
            elif r["site"] in ("_maybe_quantize_matrices_with_dtype", "matrix_inverse_pth_root_wrapper", "<listcomp>",
                               "_pmap_quantized_compute_preconditioners"):
                dreqs.append({"op": "call_site_dtype", "site": "ds_second_moment", "best_effort": bool(cfg["best_effort"]), "low_rank": False,
                              "fd": False, "pmap_axis": cfg["opt"] == "ds_pmap", "sharded": False})
            else:
                ctx.disagree("site.unknown_caller", {"site_cfg": cfg}, r["site"], None, "QuantizedValue.from_float_value called from a function the model does not know")
                continue
            dmeta.append((cfg, r))
            if r.get("empty"):
                ctx.corr("site.empty_list_roundtrip", r["ok"])
                if not r["ok"]:
                    ctx.violation(f"{r['site']}: from_float_value([]).to_float() is not []", {"site_cfg": cfg})
                continue
            if r.get("traced"):
                continue
            if r["in_dtype"] != "float32":
                ctx.dist("site_call_non_float32_input")
                continue
            c = {"stream": "float", "dtype": r["dtype"], "shape": r["shape"], "ed": r["ed"], "mode": "eager",
                 "kind": f"site:{cfg['opt']}:{r['site']}", "data": r["data"]}
            if r["dtype"] in INT_BITS and r["obs"].get("shape_field") == [] :
                r["obs"]["shape_field"] = None
            cases.append(c)
            flat.append(r["obs"])
        # invariants of the integer payloads left in the state (no_wrap, diagonal payload 0, max_hits_N, idempotent re-quantization)
        for sv in res["state"]:
            ctx.dist(f"site_state:{cfg['opt']}:{sv['dtype']}:ed={int(sv['ed'])}")
            if "q" not in sv:
                continue
            N = NB[sv["dtype"]]
            rows, cols = sv["shape"][0], prod(sv["shape"][1:])
            q = np.array(sv["q"], dtype=np.int64).reshape(rows, cols)
            b = unhex(sv["bucket"]).astype(np.float64)
            what = []
            if (np.abs(q) > N).any():
                what.append(f"stored integer outside [-{N}, {N}]")
            if sv["ed"] and (np.diag(q) != 0).any():
                what.append("non-zero payload on the extracted diagonal")
            mx = np.abs(q).max(axis=0)
            if b.shape != mx.shape:
                ctx.violation(f"{cfg['opt']} call site: stored QuantizedValue has {b.size} bucket sizes for {cols} columns "
                              f"(one bucket per column = all indices sharing the trailing coordinates)", {"site_cfg": cfg})
                continue
            if ((b > 0) & (mx != N)).any():
                what.append("a column with positive bucket size whose largest |integer| is not N")
            if ((b == 0) & (mx != 0)).any() or (b < 0).any() or not sv["finite"]:
                what.append("zero/negative bucket with non-zero payload, or non-finite to_float")
            rb = unhex(sv["rbucket"]).astype(np.float64)
            if sv["rq"] != sv["q"] or (np.abs(rb - b) > 3 * 2.0 ** -24 * b).any():
                # the property speaks of the integers; in float32 the bucket fl(fl(N*b)/N) may move by an ulp
                what.append("re-quantizing to_float() of the stored value changes the integers (or a bucket size by more than 3*2^-24 relative)")
            ctx.corr("site.state_invariants", not what)
            for w in what:
                ctx.violation(f"{cfg['opt']} state {sv['dtype']} extract_diagonal={sv['ed']} shape={sv['shape']}: {w}", {"site_cfg": cfg, "state": sv})
    if dreqs:
        for (cfg, r), rep in zip(dmeta, ctx.driver(dreqs)):
            if "error" in rep:
                raise kit.InfraError(f"driver error: {rep['error']}")
            ok = rep["dtype"] == r["dtype"]
            ctx.corr("site.dtype", ok)
            if not ok:
                ctx.disagree("site.dtype", {"site_cfg": cfg, "site": r["site"], "rank": r.get("rank")}, r["dtype"], rep["dtype"],
                             "dtype requested by the call site differs from the model's rule")
    if cases:
        judge(ctx, cases, flat, NB)


def const_stage(ctx):
    nb = source_num_buckets()
    NB = {}
    for dt, bits in INT_BITS.items():
        v = nb.get(dt)
        if v is None:
            raise kit.InfraError(f"num_buckets literal for {dt} not found in quantization_utils.py")
        hi = 2 ** (bits - 1) - 1
        if float(v) != int(v) or not (1 <= int(v)):
            ctx.const_fail(f"num_buckets[{dt}]", f"{v!r}: theorems assume an integer N >= 1 (hypothesis hN)")
            NB[dt] = max(1, int(v))
        else:
            NB[dt] = int(v)
            if int(v) > hi:
                ctx.const_fail(f"num_buckets[{dt}]", f"{v!r} > {hi}: [-N, N] no longer fits {dt} without using the most negative value "
                               f"(no_wrap gives |q| <= N only)")
        # hypotheses of roundtrip_fp (N >= 2) and of roundtrip_fp_xla / no_wrap_fp / max_hits_N_fp (N*u <= 1/16) at u = 2^-24
        if NB[dt] < 2:
            ctx.const_fail(f"num_buckets[{dt}]", f"{v!r} < 2: roundtrip_fp assumes N >= 2")
        if NB[dt] * 32 > 2 ** 24:
            ctx.const_fail(f"num_buckets[{dt}]", f"{v!r}: N * 2^-24 > 1/32, outside the hypothesis of requantize_idempotent_fp")
        if NB[dt] * 16 > 2 ** 24:
            ctx.const_fail(f"num_buckets[{dt}]", f"{v!r}: N * 2^-24 > 1/16, outside the hypothesis of roundtrip_fp_xla / no_wrap_fp")
    ctx.cov["constants"] = {"num_buckets": {k: nb[k] for k in nb}, "unit_roundoff": "2^-24 (float32 inputs)",
                            "oracle_slack_in_buckets": {k: 0.5 + (3 * NB[k] + 2) * 2.0 ** -24 for k in NB}}
    return NB


def run(ctx):
    ctx.lean_stage()
    NB = const_stage(ctx)
    ctx.cov["rule"] = ("a case is one tensor x dtype x extract_diagonal x execution mode (eager / jit / vmap); it is non-trivial when some stored "
                       "integer is neither 0 nor +-N (a real rounding happened) or, for bfloat16/float32, always; distinct by "
                       "(stream, dtype, mode, extract_diagonal, shape, sha1 of the input bits)")
    ctx.assumptions += [
        "EXACT-DYADIC stream: inputs k*2^e with k integer or half-integer, max|k|=N, 2^e normal: implementation == Rat model bit for bit",
        "float stream: stored integers == Rat model except +-1 where the exact ratio is within N*2^-22 of a half-integer (counted as boundary); "
        "bucket_size within 1.5*2^-23 relative of exact max|x|/N (the jit path multiplies by fl(1/N))",
        "oracle slack (1/2 + (3N+2)*2^-24)*bucket (theorem roundtrip_fp_xla with u = 2^-24), evaluated in float64 from the exact column max-abs",
        "theorems roundtrip_fp_xla_fl32 / no_wrap_fp_fl32 apply to columns inside the guard NormalCol 2^-126 N (reported per column by the "
        "driver, counted as fl32_guard:inside/outside); columns outside it (flush / overflow regimes, entries below 2^-124 buckets) are covered "
        "by execution only",
        "FLOAT32-EXACT stream: bit equality with one of the four division variants of the rounded-arithmetic model; a column is skipped when it "
        "is in the K1 regime, has a subnormal entry (K2), or the model flags an overflow (K3 regime)",
        "bfloat16: correctly rounded (ties to even, gradual underflow) against the Rat model; finite inputs above the bfloat16 range round to inf "
        "(IEEE; counted, the property states no bound for them); extract_diagonal is ignored by the code for bfloat16/float32",
        "diagonal / zero reproduction is compared by value (-0.0 == 0.0)",
        "columns in the flush-to-zero regimes K1/K2 are not compared with the exact model (the oracle judges them)",
    ]
    cases = load_corpus() + gen_cases(ctx.tier, ctx.seed, NB)
    flat = execute(ctx, cases, NB)
    cfgs = site_configs(ctx.tier, ctx.seed)
    site_results = [r for ch in kit.parallel_map(run_sites, kit.chunked(cfgs, 2), nproc=8) for r in ch]
    judge_sites(ctx, site_results, NB)
    step = max(1, len(cases) // 5)
    for c, obs in list(zip(cases, flat))[::step]:
        if len("".join(c["data"])) < 400:
            ctx.sample({"case": c, "impl": obs})
    if not ctx.cov["samples"]:
        ctx.sample({"case": cases[0], "impl": flat[0]})


def replay(ctx, data):
    NB = const_stage(ctx)
    cases = [v["case"] for v in data.get("violations", [])]
    cases += [s["detail"]["case"] for s in data.get("stage_failures", [])
              if isinstance(s.get("detail"), dict) and isinstance(s["detail"].get("case"), dict)
              and ("data" in s["detail"]["case"] or "site_cfg" in s["detail"]["case"])]
    ctx.cov["rule"] = "replay of recorded cases"
    site_cfgs = []
    for c in cases:
        if "site_cfg" in c and c["site_cfg"] not in site_cfgs:
            site_cfgs.append(c["site_cfg"])
    cases = [c for c in cases if "data" in c]
    if cases:
        execute(ctx, cases, NB)
    if site_cfgs:
        judge_sites(ctx, [r for ch in kit.parallel_map(run_sites, kit.chunked(site_cfgs, 2), nproc=8) for r in ch], NB)
