"""C16 — OCO algorithms match closed forms; lossless S-AdaGrad is full-matrix AdaGrad.

Implementation runner: `precondition.oco.algorithms.generate_init_update(w_shape, HParams(...))` under
`jax_enable_x64`, eager, every state of a gradient history is recorded (`as_np`).  A subset of the cases is also fed
through `precondition.oco.train._compiled_run_dataset` (jit + scan + fori_loop; the loss is `<w, x_row>` so that the
gradient of row `r` is the prescribed `g_r`) with a random `obs_ixs`; the history it returns must be the init/update
iterates at those rows.

Correspondence (K) with the Lean model `Model/OCO.lean` through `drv_c16`:
  * `ogd`, `ada` — whole history, every intermediate state; `Float` run (IEEE double, `rsqrt x = 1/sqrt x`) and the exact
    `Rat` run (the instance `ogd_closed_form` / `adagrad_closed_form` speak about; `rsqrt` is a float oracle whose
    specification `r > 0, |r^2 x - 1| <= 2^-48` is checked exactly by the driver).  Policy TOL(1e-12 * sum of |increments|).
  * `fd_init`, `fd_b`, `fd_step` — sketched methods, factored through the state: from the implementation's state `s_{t-1}`
    the model builds the matrix `B` handed to the SVD (`fd_b`); numpy's SVD of that `B` is the kernel parameter of
    `fdUpdate` (`fd_step`; the driver re-checks `SvdSpec` on it); the model's next state is compared with the
    implementation's `s_t`: `t` EXACT, `alpha` TOL, `e^2` TOL, the sketch `P^T diag(e^2) P` TOL (signs / degenerate
    subspaces cancel), `w` TOL(kappa) with the explicit conditioning factor of `x -> (alpha + x)^(-1/2)`, `(alpha + x)^-1`,
    `(alpha + sqrt x)^-1`.  Executed theorem instances: the model's last row is exactly zero (`last_row_zero_step`), its
    `alpha'` is exactly `alpha + factor * rho` (`alpha_recurrence`).

Search oracle (S), numpy only, no reference to the model:
  * OGD: `t_T = T`, `w_T = -lr sum_t g_t / sqrt(t + delta)`;  AdaGrad: `h_T = delta + sum g^2`,
    `w_T = -lr sum_t g_t / sqrt(h_t)` (`h = 0 -> 1`), at every prefix of the history;
  * sketched: last root-eigenvalue and last sketch row exactly 0; rows of `P` orthonormal; the frequent-directions step
    `S_t = shrink_rho(S_{t-1} + g~ g~^T)`, `rho_t` = k-th eigenvalue (escaped mass); `alpha_t = delta + c * sum rho`
    (c = 1, 1/2, 0, 0 for S_ADA, RFD_SON, FD_SON, ADA_FD); bracket `S_t <= sum g~ g~^T <= S_t + (sum rho) I`
    (for S-AdaGrad also with `alpha_t - delta` as the slack); step closed form
    `w_t - w_{t-1} = -lr' phi(S_t, alpha_t) g_t`, phi = (alpha I + S)^(-1/2) | (alpha I + S)^-1 | (alpha I + S^(1/2))^-1;
  * lossless clause: S_ADA, delta > 0, history rank < sketch size: `alpha_t = delta` (every rho_t = 0 up to rounding) and
    every iterate equals the independently run full-matrix AdaGrad `w_t = w_{t-1} - lr (delta I + sum g g^T)^(-1/2) g_t`.
  * train path: history rows equal the eager iterates.
"""
import json
import math
import os
import random
from collections import Counter
from fractions import Fraction

from harness import kit

SKETCHED = ("S_ADA", "ADA_FD", "FD_SON", "RFD_SON")
ALGOS = ("OGD", "ADA") + SKETCHED
ALPHA_FACTOR = {"S_ADA": 1.0, "RFD_SON": 0.5, "FD_SON": 0.0, "ADA_FD": 0.0}
GUARD_MAX = 1e100   # inputs are <= ~1e4: no legitimate sketch entry (P, e, alpha, t, diag_h) comes near this magnitude
KAPPA_MAX = 1e7      # w is compared only when B2/alpha is below this (beyond it the closed form is numerically ill-posed)


# ----------------------------------------------------------------------------- helpers
def H(x):
    return kit.f64_hex(float(x))


def unH(a):
    import numpy as np
    return np.array([kit.hex_f64(h) for h in a], dtype=np.float64)


def case_arrays(case):
    import numpy as np
    gs = np.array([[kit.hex_f64(h) for h in g] for g in case["gs"]], dtype=np.float64).reshape(len(case["gs"]), -1)
    return gs, kit.hex_f64(case["delta"]), kit.hex_f64(case["lr"])


def sketch_factor(algo, t, lr):
    if algo == "RFD_SON":
        return 1.0 / math.sqrt(t * lr)
    if algo == "FD_SON":
        return 1.0 / math.sqrt(math.sqrt(t) * lr)
    return 1.0


def lr_eff(algo, lr):
    return 1.0 if algo in ("RFD_SON", "FD_SON") else lr


def close(a, b, tol):
    """entrywise |a-b| <= tol, NaN matching NaN (Ada-FD with delta = 0 produces NaN iterates in code and model alike)"""
    import numpy as np
    a = np.asarray(a, dtype=np.float64)
    b = np.asarray(b, dtype=np.float64)
    if a.shape != b.shape:
        return False
    with np.errstate(invalid="ignore"):
        ok = (np.isnan(a) & np.isnan(b)) | (np.abs(a - b) <= tol) | (a == b)
    return bool(np.all(ok))


def gram_rows(P, e):
    R = P * e.reshape(-1, 1)
    return R.T @ R


# ----------------------------------------------------------------------------- generators
def gen_history(nprng, rng, profile, T, n, k):
    import numpy as np
    if profile == "gauss":
        G = nprng.randn(T, n) * 10.0 ** rng.uniform(-1, 1)
    elif profile == "scaled":
        G = nprng.randn(T, n) * (10.0 ** nprng.uniform(-2, 2, size=(T, 1)))
    elif profile == "zeros":
        G = nprng.randn(T, n)
        for t in range(T):
            if rng.random() < 0.3:
                G[t] = 0.0
        if rng.random() < 0.5:
            G[0] = 0.0
    elif profile == "smallint":
        G = nprng.randint(-3, 4, size=(T, n)).astype(np.float64)
    elif profile == "basis":
        G = np.zeros((T, n))
        for t in range(T):
            G[t, rng.randrange(n)] = rng.choice([-1.0, 1.0]) * 2.0 ** rng.randint(-1, 1)
    elif profile == "sparse":
        G = nprng.randn(T, n) * (nprng.rand(T, n) < 0.4)
    elif profile in ("lowrank", "lowrank_int", "lowrank_scaled", "rank_k"):
        r = k if profile == "rank_k" else rng.randint(1, max(1, k - 1))
        if profile == "lowrank_int":
            basis = nprng.randint(-2, 3, size=(r, n)).astype(np.float64)
            coef = nprng.randint(-2, 3, size=(T, r)).astype(np.float64)
        else:
            basis = nprng.randn(r, n)
            coef = nprng.randn(T, r)
        G = coef @ basis
        if profile == "lowrank_scaled":
            G = G * (10.0 ** nprng.uniform(-1.5, 1.5, size=(T, 1)))
    else:
        raise ValueError(profile)
    return G


def gen_case(rng, cid, tier, algo=None, profile=None):
    import numpy as np
    algo = algo or rng.choice(ALGOS)
    nmax = 8 if tier == "quick" else 12
    n = rng.randint(2, nmax)
    shape = [n]
    facs = [(a, n // a) for a in range(2, n) if n % a == 0]
    u = rng.random()
    if facs and u < 0.3:
        shape = list(rng.choice(facs))
    elif u < 0.4:
        shape = rng.choice([[1, n], [n, 1]])
    T = rng.randint(1, 20 if tier == "quick" else 32)
    if rng.random() < 0.15:
        T = rng.randint(1, 3)
    k = 0
    if algo in SKETCHED:
        k = rng.choice([2, 2, 3, rng.randint(2, n), rng.randint(2, n), n])
        k = max(2, min(k, n))
    if profile is None:
        if algo in SKETCHED:
            profile = rng.choice(["gauss", "gauss", "scaled", "zeros", "smallint", "basis", "sparse", "lowrank", "lowrank",
                                  "lowrank_int", "lowrank_scaled", "rank_k"])
        else:
            profile = rng.choice(["gauss", "gauss", "scaled", "zeros", "smallint", "basis", "sparse"])
    u = rng.random()
    if u < 0.35:
        delta = rng.choice([0.25, 0.5, 1.0, 2.0])
    elif u < 0.95:
        delta = 10.0 ** rng.uniform(-3, 1)
    else:
        delta = 0.0
    lr = rng.choice([0.125, 0.25, 0.5, 1.0]) if rng.random() < 0.4 else 10.0 ** rng.uniform(-2, 0.3)
    nprng = np.random.RandomState(rng.randrange(2 ** 31))
    G = gen_history(nprng, rng, profile, T, n, k)
    return {"id": cid, "algo": algo, "shape": shape, "k": k, "delta": H(delta), "lr": H(lr), "profile": profile,
            "gs": [[H(x) for x in g] for g in G], "train": None}


SCALES = [1.0, 1e-3, 1e-7, 3e-8, 1e4]
DELTAS = [0.3, 1e-6, 1e-14, 2e-16]


def scale_family(rng, tier):
    """gradient scale x delta grid (delta > 0): the closed forms and full-matrix AdaGrad are scale free, so the
    iterates must follow them at tiny and large scales alike. S_ADA: rank < sketch size (lossless clause) and generic;
    the other algorithms: generic histories."""
    import numpy as np
    out = []
    reps = 1 if tier == "quick" else 4
    for rep in range(reps):
        for sc in SCALES:
            for dl in DELTAS:
                for algo, profile in (("S_ADA", "lowrank"), ("S_ADA", "lowrank_int"), ("S_ADA", "gauss"), ("OGD", "gauss"), ("ADA", "gauss"),
                                      ("ADA_FD", "gauss"), ("FD_SON", "lowrank"), ("RFD_SON", "gauss")):
                    n = rng.randint(3, 8)
                    k = 0 if algo in ("OGD", "ADA") else rng.randint(2 if profile == "gauss" else 3, n) if n >= 3 else 2
                    T = rng.randint(2, 12)
                    nprng = np.random.RandomState(rng.randrange(2 ** 31))
                    G = gen_history(nprng, rng, profile, T, n, k)
                    if profile == "gauss":
                        G = nprng.randn(T, n)
                    G = G * sc
                    lr = rng.choice([0.125, 0.5, 1.0, 10.0 ** rng.uniform(-2, 0.3)])
                    out.append({"id": f"scale-{rep}-{sc:g}-{dl:g}-{algo}-{profile}", "algo": algo, "shape": [n], "k": k,
                                "delta": H(dl), "lr": H(lr), "profile": "scalefam:" + profile,
                                "gs": [[H(x) for x in g] for g in G], "train": None})
    return out


def fixed_cases():
    """hand-picked histories that always run (degenerate spectra, zero first gradient, rank exactly k-1, k = n)"""
    import numpy as np
    out = []

    def mk(cid, algo, shape, k, delta, lr, G, profile):
        out.append({"id": cid, "algo": algo, "shape": shape, "k": k, "delta": H(delta), "lr": H(lr), "profile": profile,
                    "gs": [[H(x) for x in g] for g in np.asarray(G, dtype=np.float64)], "train": None})
    eye4 = np.eye(4)
    for a in SKETCHED:
        mk(f"fix-eye-{a}", a, [4], 2, 0.5, 0.25, np.vstack([eye4, -eye4, 2 * eye4]), "basis")
        mk(f"fix-zero-first-{a}", a, [2, 2], 3, 1.0, 0.5, [[0, 0, 0, 0], [3, 4, 0, 0], [0, 0, 0, 0], [1, -1, 2, 0.5]], "zeros")
        mk(f"fix-k-eq-n-{a}", a, [3], 3, 0.25, 1.0, [[1, 2, 3], [-1, 0.5, 2], [2, 2, -1], [0.5, 0.25, 4], [1, 1, 1]], "gauss")
    v = np.array([[1.0, 2, -1, 0.5, 3]])
    w = np.array([[0.0, 1, 1, -2, 0.25]])
    mk("fix-lossless-r1", "S_ADA", [5], 2, 0.5, 0.5, np.vstack([v, -2 * v, 0.5 * v, 3 * v]), "lowrank")
    mk("fix-lossless-r2", "S_ADA", [5], 3, 0.125, 0.25, np.vstack([v, w, v + w, v - 2 * w, 0 * v, 3 * w]), "lowrank")
    mk("fix-not-lossless-r2-k2", "S_ADA", [5], 2, 0.125, 0.25, np.vstack([v, w, v + w, v - 2 * w, 0 * v, 3 * w]), "rank_k")
    mk("fix-ogd", "OGD", [2, 2], 0, 0.0, 0.5, [[1, -2, 4, 0], [4, 0, 0.5, 1], [0, 0, 0, 0], [-1, 1, 1, 1]], "smallint")
    mk("fix-ada-delta0", "ADA", [4], 0, 0.0, 0.5, [[1, 0, 4, 0], [4, 0, 0.5, 0], [0, 0, 0, 0], [-1, 0, 1, 1]], "sparse")
    return out


def corpus_cases():
    out = []
    d = os.path.join(kit.ROOT, "corpus", "C16")
    if os.path.isdir(d):
        for f in sorted(os.listdir(d)):
            if f.endswith(".json"):
                for c in json.load(open(os.path.join(d, f))).get("cases", []):
                    c = dict(c)
                    c["id"] = "corpus:" + f + ":" + str(c.get("id", ""))
                    out.append(c)
    return out


# ----------------------------------------------------------------------------- implementation runner (worker)
def run_impl(task):
    import numpy as np
    import jax
    jax.config.update("jax_enable_x64", True)
    import jax.numpy as jnp
    from precondition.oco import algorithms as A
    from precondition.oco import train as TR
    out = []
    for case in task["cases"]:
        obs = {}
        try:
            gs, delta, lr = case_arrays(case)
            shape = tuple(case["shape"])
            hp = A.HParams(delta, lr, int(case["k"]), A.Algorithm[case["algo"]])
            init, update = A.generate_init_update(shape, hp)
            state = init()
            states = [A.as_np(state)]
            for g in gs:
                state = update(state, jnp.array(0.0, jnp.float64), jnp.asarray(g.reshape(shape)))
                states.append(A.as_np(state))
                # a runaway sketch state is not fed back (LAPACK's SVD may not terminate on non-finite input); the oracle
                # reports the truncation. w never reaches the SVD (and with delta = 0 it is legitimately NaN for Ada-FD
                # or astronomically large for the pseudo-inverse methods), so it is not guarded.
                bad_keys = [k for k, v in states[-1].items()
                            if k != "w" and (not np.all(np.isfinite(v)) or np.any(np.abs(v) > GUARD_MAX))]
                if bad_keys:
                    obs["truncated"] = {"step": len(states) - 1, "keys": bad_keys}
                    break
            obs["states"] = [{k: np.array(v, dtype=np.float64) for k, v in s.items()} for s in states]
            obs["dtypes"] = sorted({str(v.dtype) for s in states for v in s.values()})
            if case.get("train") and "truncated" not in obs:
                T = gs.shape[0]
                x = jnp.asarray(gs)
                y = jnp.zeros((T,), jnp.float64)
                loss_and_grad = jax.value_and_grad(lambda w, r, yy: jnp.vdot(w.ravel(), r) + 0.0 * yy)
                s0 = init()
                s0["loss"] = jnp.array(0.0, dtype=jnp.float64)
                s0["n"] = 0
                hist = TR._compiled_run_dataset(x, y, s0, np.array(case["train"], dtype=np.int64), loss_and_grad, update, None)
                obs["train"] = {k: np.array(v) for k, v in hist.items()}
        except Exception as e:  # noqa: BLE001
            import traceback
            obs["exception"] = type(e).__name__ + ": " + str(e)[:300]
            obs["trace"] = traceback.format_exc()[-1200:]
        out.append(obs)
    jax.clear_caches()
    return out


# ----------------------------------------------------------------------------- tolerances
def w_step_tol(algo, alpha, B2, g2, lre, wmax, same_factors=False):
    """(bound, tight) absolute tolerances for one increment of w, or None when alpha <= 0 / ill-conditioned.
    A perturbation dx = 1e-12*B2 of the sketch moves phi(S, alpha) g by at most |phi'|_max * dx * |g| (phi a matrix function
    with bounded divided differences); Ada-FD goes through a matrix square root (Hoelder 1/2)."""
    if not (alpha > 0) or not math.isfinite(alpha) or B2 / alpha > KAPPA_MAX:
        return None
    if algo == "S_ADA":
        f, fp = alpha ** -0.5, 0.5 * alpha ** -1.5
        bound = lre * g2 * (fp * 1e-12 * B2 + 1e-12 * f)
    elif algo in ("FD_SON", "RFD_SON"):
        f, fp = 1.0 / alpha, alpha ** -2.0
        bound = lre * g2 * (fp * 1e-12 * B2 + 1e-12 * f)
    elif same_factors:
        # Ada-FD judged from the implementation's own (P, e): a linear solve with condition (alpha + e_max)/alpha
        f = 1.0 / alpha
        bound = lre * g2 * 1e-12 * f * (1.0 + math.sqrt(B2) / alpha)
    else:
        f = 1.0 / alpha
        bound = lre * g2 * (alpha ** -2.0 * math.sqrt(1e-13 * B2) + 1e-12 * f)
    return bound + 1e-13 * wmax + 1e-300, 1e-10 * lre * g2 * f + 1e-13 * wmax + 1e-300


# ----------------------------------------------------------------------------- direct oracle
def oracle_simple(ctx, case, states, stats):
    """OGD / diagonal AdaGrad closed forms at every prefix."""
    import numpy as np
    gs, delta, lr = case_arrays(case)
    algo = case["algo"]
    bad = []
    w = np.zeros(gs.shape[1])
    cum = 0.0
    h = np.full(gs.shape[1], delta)
    s0 = states[0]
    if np.any(s0["w"] != 0):
        bad.append("initial iterate is not zero")
    if algo == "ADA" and not close(s0["diag_h"].ravel(), h, 0.0):
        bad.append(f"initial diag_h {s0['diag_h'].ravel().tolist()} != delta {delta}")
    if algo == "OGD" and float(s0["t"]) != 0.0:
        bad.append("initial t != 0")
    for t in range(1, len(states)):
        g = gs[t - 1]
        st = states[t]
        if algo == "OGD":
            term = lr * g / math.sqrt(t + delta)
            if float(st["t"]) != float(t):
                bad.append(f"step {t}: t = {float(st['t'])}")
        else:
            h = h + g * g
            term = lr * g / np.sqrt(np.where(h == 0, 1.0, h))
            if not close(st["diag_h"].ravel(), h, 1e-12 * np.abs(h) + 1e-300):
                bad.append(f"step {t}: diag_h {st['diag_h'].ravel().tolist()} != delta + sum g^2 = {h.tolist()}")
        w = w - term
        cum += float(np.max(np.abs(term))) if term.size else 0.0
        if not close(st["w"].ravel(), w, 1e-12 * cum + 1e-300):
            bad.append(f"step {t}: w {st['w'].ravel().tolist()} != closed form {w.tolist()}")
        if bad:
            break
    stats["oracle:" + algo] += 1
    return bad


def phi_apply(algo, S, alpha, g, P=None, e=None):
    """phi(S, alpha) g with numpy's eigh of the n x n sketch (safe inversion: non-positive arguments give 0).
    Ada-FD: S^(1/2) = P^T diag(e) P for orthonormal rows of P (checked separately), then one linear solve."""
    import numpy as np
    if algo == "ADA_FD" and P is not None:
        return np.linalg.solve(alpha * np.eye(S.shape[0]) + (P.T * e) @ P, g)
    x, V = np.linalg.eigh((S + S.T) / 2)
    x = np.maximum(x, 0.0)
    if algo == "S_ADA":
        a = alpha + x
        f = np.where(a <= 0, 0.0, 1.0 / np.sqrt(np.where(a <= 0, 1.0, a)))
    elif algo in ("FD_SON", "RFD_SON"):
        a = alpha + x
        f = np.where(a <= 0, 0.0, 1.0 / np.where(a <= 0, 1.0, a))
    else:
        f = 1.0 / (alpha + np.sqrt(x))
    return V @ (f * (V.T @ g))


def oracle_sketched(ctx, case, states, stats):
    import numpy as np
    gs, delta, lr = case_arrays(case)
    algo, k = case["algo"], int(case["k"])
    n = gs.shape[1]
    bad = []
    info = {"rho_pos": False, "lossless": False, "skipped_w": 0}
    s0 = states[0]
    if np.any(s0["w"] != 0) or np.any(s0["P"] != 0) or np.any(s0["e"] != 0) or float(s0["t"]) != 0 or \
            not (float(s0["alpha"]) == delta) or s0["P"].shape != (k, n) or s0["e"].shape != (k,):
        bad.append("initial state is not (w=0, t=0, alpha=delta, P=0[k,n], e=0[k])")
        return bad, info
    C = np.zeros((n, n))
    Cg = np.zeros((n, n))       # unscaled second moment sum g g^T
    S_prev = np.zeros((n, n))
    rho_sum = 0.0
    # lossless clause: rank of the whole history below the sketch size, delta > 0
    sv = np.linalg.svd(gs, compute_uv=False) if gs.size else np.zeros(0)
    hist_rank = int(np.sum(sv > 1e-11 * max(sv[0], 1e-300))) if sv.size and sv[0] > 0 else 0
    margin_ok = hist_rank == 0 or hist_rank == len(sv) or sv[hist_rank] <= 1e-14 * sv[0]
    lossless = algo == "S_ADA" and delta > 0 and hist_rank < k and margin_ok
    info["lossless"] = lossless
    info["hist_rank"] = hist_rank
    w_full = np.zeros(n)
    full_tol = 0.0
    for t in range(1, len(states)):
        st = states[t]
        g = gs[t - 1]
        P, e, alpha = st["P"], st["e"], float(st["alpha"])
        if not (np.all(np.isfinite(P)) and np.all(np.isfinite(e)) and math.isfinite(alpha)):
            bad.append(f"step {t}: non-finite sketch state")
            break
        if float(st["t"]) != float(t):
            bad.append(f"step {t}: t = {float(st['t'])}")
        # last sketch row zero (exactly)
        if e[-1] != 0.0 or np.any(P[-1] * e[-1] != 0.0):
            bad.append(f"step {t}: last sketch row not zero (e[-1] = {e[-1]!r})")
        if np.any(e < 0):
            bad.append(f"step {t}: negative root eigenvalue")
        if not close(P @ P.T, np.eye(k), 1e-11):
            bad.append(f"step {t}: rows of P not orthonormal")
        gt = g * sketch_factor(algo, t, lr)
        M = S_prev + np.outer(gt, gt)
        C = C + np.outer(gt, gt)
        Cg = Cg + np.outer(g, g)
        scale = max(float(np.trace(C)), 1e-300)
        lam, V = np.linalg.eigh((M + M.T) / 2)
        lam, V = lam[::-1], V[:, ::-1]
        rho = max(float(lam[k - 1]), 0.0)
        if rho > 1e-9 * scale:
            info["rho_pos"] = True
        rho_sum += rho
        S_exp = (V[:, :k] * np.maximum(lam[:k] - rho, 0.0)) @ V[:, :k].T
        S = gram_rows(P, e)
        tol = 1e-10 * scale
        if not close(S, S_exp, tol):
            bad.append(f"step {t}: sketch is not the frequent-directions shrink of S_(t-1) + g g^T (max dev {float(np.max(np.abs(S - S_exp))):.3e})")
        a_exp = delta + ALPHA_FACTOR[algo] * rho_sum
        if abs(alpha - a_exp) > 1e-10 * (scale + abs(delta)):
            bad.append(f"step {t}: alpha {alpha!r} != delta + {ALPHA_FACTOR[algo]} * sum rho = {a_exp!r}")
        lo = float(np.linalg.eigvalsh(C - S)[0])
        hi = float(np.linalg.eigvalsh(S + rho_sum * np.eye(n) - C)[0])
        if lo < -tol or hi < -tol:
            bad.append(f"step {t}: bracket S <= C <= S + (sum rho) I fails: min eig {lo:.3e} / {hi:.3e}")
        if algo == "S_ADA":
            hi2 = float(np.linalg.eigvalsh(S + (alpha - delta) * np.eye(n) - C)[0])
            if hi2 < -(tol + 4.5e-16 * abs(alpha)):      # alpha = fl(delta + sum rho): alpha - delta is known to an ulp of alpha
                bad.append(f"step {t}: C <= S + (alpha - delta) I fails: min eig {hi2:.3e}")
        # step closed form
        dw = (st["w"] - states[t - 1]["w"]).ravel()
        lre = lr_eff(algo, lr)
        wmax = float(np.max(np.abs(st["w"]))) if np.all(np.isfinite(st["w"])) else 0.0
        tl = w_step_tol(algo, alpha, scale, float(np.linalg.norm(g)), lre, wmax, same_factors=True)
        if tl is None or not np.all(np.isfinite(states[t - 1]["w"])):
            info["skipped_w"] += 1
        else:
            dw_exp = -lre * phi_apply(algo, S, alpha, g, P, e)
            if not close(dw, dw_exp, tl[0]):
                bad.append(f"step {t}: increment of w {dw.tolist()} != -lr phi(S, alpha) g = {dw_exp.tolist()} (tol {tl[0]:.2e})")
            stats["oracle_w_tight" if close(dw, dw_exp, tl[1]) else "oracle_w_within_conditioning_bound"] += 1
        if lossless:
            if abs(alpha - delta) > 1e-12 * scale + 4.5e-16 * delta:
                bad.append(f"step {t}: lossless regime (history rank {hist_rank} < sketch size {k}) but alpha - delta = {alpha - delta:.3e}")
            # exact full-matrix AdaGrad step (delta I + G^T G)^(-1/2) g from the SVD of the history so far (float64):
            # in-span part through the singular values, the rest of g (round-off only) through delta^(-1/2)
            _u, sg, Vh = np.linalg.svd(gs[:t], full_matrices=False)
            keep = sg > 1e-11 * sg[0] if sg.size and sg[0] > 0 else np.zeros(sg.shape, dtype=bool)
            Vr, lam = Vh[keep], sg[keep] ** 2
            cg = Vr @ g
            step = Vr.T @ (cg / np.sqrt(delta + lam)) + (g - Vr.T @ cg) / math.sqrt(delta)
            w_full = w_full - lr * step
            lam_min = float(lam.min()) if lam.size else scale
            # RELATIVE tolerance, scale free: round-off leaking out of the span is amplified by sqrt(B2/delta), an in-span
            # eigenvalue is known to eps*B2
            rel = 1e-10 + 3e-14 * math.sqrt(1.0 + scale / delta) + 1e-13 * scale / (lam_min + delta)
            info["lossless_rel_tol_max"] = max(info.get("lossless_rel_tol_max", 0.0), rel)
            if rel > 1e-3:
                info["skipped_w"] += 1
                info["lossless_w_unjudged"] = True
                lossless = False
            else:
                full_tol += rel * lr * float(np.linalg.norm(step))
                info["lossless_w_judged"] = True
                with np.errstate(invalid="ignore"):
                    info["lossless_dev_over_tol_max"] = max(info.get("lossless_dev_over_tol_max", 0.0), float(np.max(np.abs(st["w"].ravel() - w_full))) / (full_tol + 1e-14 * wmax + 1e-300))
                if not close(st["w"].ravel(), w_full, full_tol + 1e-14 * wmax):
                    dev = float(np.nanmax(np.abs(st["w"].ravel() - w_full)))
                    bad.append(f"step {t}: lossless S-AdaGrad iterate {st['w'].ravel().tolist()} != full-matrix AdaGrad {w_full.tolist()} "
                               f"(max dev {dev:.3e}, relative to |w| {dev / max(float(np.max(np.abs(w_full))), 1e-300):.2e}, tol {full_tol:.2e})")
        S_prev = S
        if bad:
            break
    stats["oracle:" + algo] += 1
    return bad, info


def oracle_train(case, states, hist, stats, cum_tol):
    """the jit/scan/fori_loop history equals the eager iterates at rows obs_ixs"""
    import numpy as np
    obs = case["train"]
    bad = []
    algo = case["algo"]
    if not close(np.asarray(hist["n"], dtype=np.float64), np.asarray(obs, dtype=np.float64), 0.0):
        return [f"train: rows processed {np.asarray(hist['n']).tolist()} != obs_ixs {obs}"]
    for j, r in enumerate(obs):
        st = states[r]
        tolw = 10 * cum_tol[r] + 1e-12 * (1 + float(np.max(np.abs(st["w"])))) if np.all(np.isfinite(st["w"])) else 0.0
        if not math.isfinite(tolw):
            stats["train_w_skipped(after an ill-conditioned step)"] += 1
        elif not close(hist["w"][j], st["w"], tolw):
            bad.append(f"train: w after row {r} differs from the init/update iterate (max dev {float(np.nanmax(np.abs(hist['w'][j] - st['w']))):.3e}, tol {tolw:.2e})")
        if "t" in st and float(hist["t"][j]) != float(st["t"]):
            bad.append(f"train: t after row {r} = {float(hist['t'][j])}")
        if algo == "ADA" and not close(hist["diag_h"][j], st["diag_h"], 1e-12 * np.abs(st["diag_h"])):
            bad.append(f"train: diag_h after row {r} differs")
        if algo in SKETCHED:
            S1, S2 = gram_rows(hist["P"][j], hist["e"][j]), gram_rows(st["P"], st["e"])
            sc = max(float(np.trace(S2)), float(st["alpha"]), 1e-300)
            if not close(S1, S2, 1e-9 * sc) or abs(float(hist["alpha"][j]) - float(st["alpha"])) > 1e-9 * sc:
                bad.append(f"train: sketch/alpha after row {r} differ")
        if bad:
            break
    stats["oracle:train"] += 1
    return bad


# ----------------------------------------------------------------------------- model correspondence
def st_json(st):
    return {"w": [H(x) for x in st["w"].ravel()], "t": H(st["t"]), "alpha": H(st["alpha"]),
            "P": [[H(x) for x in row] for row in st["P"]], "e": [H(x) for x in st["e"]]}


def requests_simple(case):
    gs, delta, lr = case_arrays(case)
    op = "ogd" if case["algo"] == "OGD" else "ada"
    n = gs.shape[1]
    fl = {"op": op, "scalar": "float", "n": n, "lr": case["lr"], "delta": case["delta"], "gs": case["gs"]}
    rt = {"op": op, "scalar": "rat", "n": n, "lr": kit.rat_str(Fraction(lr)), "delta": kit.rat_str(Fraction(delta)),
          "gs": [[kit.rat_str(Fraction(float(x))) for x in g] for g in gs]}
    return [fl, rt]


def compare_simple(ctx, case, states, rep_f, rep_q, stats):
    import numpy as np
    algo = case["algo"]
    op = "ogd" if algo == "OGD" else "ada"
    for rep, scalar in ((rep_f, "float"), (rep_q, "rat")):
        name = f"{op}[{scalar}]"
        if "error" in rep or "states" not in rep:
            ctx.disagree(name, case, None, rep, "driver error")
            continue
        if scalar == "rat" and not rep.get("rsqrt_ok"):
            raise kit.InfraError(f"rsqrt oracle of the exact run misses its specification on case {case['id']}")
        dec = (lambda a: unH(a)) if scalar == "float" else (lambda a: np.array([float(Fraction(s)) for s in a]))
        dec1 = kit.hex_f64 if scalar == "float" else (lambda s: float(Fraction(s)))
        ms = rep["states"]
        ok = len(ms) == len(states) - 1
        note = ""
        cum = 0.0
        for t in range(1, len(states)):
            if not ok:
                break
            st, m = states[t], ms[t - 1]
            mw = dec(m["w"])
            cum += float(np.max(np.abs(st["w"] - states[t - 1]["w"]))) if st["w"].size else 0.0
            if not close(st["w"].ravel(), mw, 1e-12 * cum + 1e-300):
                ok, note = False, f"w at step {t}"
            if algo == "OGD" and float(st["t"]) != dec1(m["t"]):
                ok, note = False, f"t at step {t}"
            if algo == "ADA":
                mh = dec(m["diag_h"])
                if not close(st["diag_h"].ravel(), mh, 1e-13 * np.abs(mh) + 1e-300):
                    ok, note = False, f"diag_h at step {t}"
        if ok and ms:
            fin = rep["final"]
            ok = close(dec(fin["w"]), dec(ms[-1]["w"]), 0.0)
            note = note or ("final != last trace state" if not ok else "")
        ctx.corr(name, ok)
        if not ok:
            ctx.disagree(name, _slim(case), {"states": [_st_list(s) for s in states[:4]]}, {"states": ms[:4]}, note)


def _st_list(st):
    return {k: v.tolist() for k, v in st.items()}


def _slim(case):
    return case


def compare_sketched(ctx, case, states, reps_b, stats):
    """second round trip: numpy SVD of the model's B, then fd_step; returns the fd_step requests (filled later)."""
    import numpy as np
    reqs = []
    svds = []
    gs, delta, lr = case_arrays(case)
    n = gs.shape[1]
    for t in range(1, len(states)):
        rb = reps_b[t - 1]
        if "B" not in rb:
            reqs.append({"op": "noop"})
            svds.append(None)
            continue
        B = np.array([[kit.hex_f64(h) for h in row] for row in rb["B"]], dtype=np.float64).reshape(int(case["k"]), n)
        if not np.all(np.isfinite(B)):
            reqs.append({"op": "noop"})
            svds.append(None)
            continue
        U, s, Vt = np.linalg.svd(B, full_matrices=False)
        svds.append((B, U, s, Vt))
        reqs.append({"op": "fd_step", "sketch_size": int(case["k"]), "n": n, "algo": case["algo"], "lr": case["lr"],
                     "state": st_json(states[t - 1]), "g": case["gs"][t - 1],
                     "svd": {"U": [[H(x) for x in r] for r in U], "s": [H(x) for x in s], "Vt": [[H(x) for x in r] for r in Vt]}})
    return reqs, svds


def judge_sketched(ctx, case, states, reps_b, reps_s, svds, stats):
    import numpy as np
    gs, delta, lr = case_arrays(case)
    algo = case["algo"]
    cum_tol = [0.0]
    for t in range(1, len(states)):
        st, prev = states[t], states[t - 1]
        rep = reps_s[t - 1]
        cum_tol.append(cum_tol[-1])
        if svds[t - 1] is None or "state" not in rep:
            if np.all(np.isfinite(prev["P"])) and np.all(np.isfinite(prev["e"])):
                ctx.disagree("fd_step", case, None, {"fd_b": reps_b[t - 1], "fd_step": rep}, f"driver error at step {t}")
            continue
        B = svds[t - 1][0]
        B2 = max(float(np.sum(B * B)), 1e-300)
        smax = math.sqrt(B2)
        recon, vo, uo = (kit.hex_f64(rep[x]) for x in ("svd_recon", "svd_v_ortho", "svd_u_ortho"))
        if not (recon <= 1e-12 * (1 + smax) and vo <= 1e-12 and uo <= 1e-12 and rep["svd_ordered"]):
            raise kit.InfraError(f"numpy SVD misses SvdSpec on case {case['id']} step {t}: recon {recon}, ortho {vo}/{uo}")
        m = rep["state"]
        mP = np.array([[kit.hex_f64(h) for h in row] for row in m["P"]]).reshape(st["P"].shape)
        me, mw = unH(m["e"]), unH(m["w"])
        malpha, mt = kit.hex_f64(m["alpha"]), kit.hex_f64(m["t"])
        fails = []
        if mt != float(st["t"]):
            fails.append("t")
        if abs(malpha - float(st["alpha"])) > 1e-12 * (abs(malpha) + B2):
            fails.append("alpha")
        if not close(me * me, st["e"] * st["e"], 1e-12 * B2):
            fails.append("e^2")
        if not close(gram_rows(mP, me), gram_rows(st["P"], st["e"]), 1e-12 * B2):
            fails.append("sketch")
        g = gs[t - 1]
        wmax = float(np.max(np.abs(st["w"]))) if np.all(np.isfinite(st["w"])) else 0.0
        tl = w_step_tol(algo, float(st["alpha"]), B2, float(np.linalg.norm(g)), lr_eff(algo, lr), wmax)
        if tl is None:
            cum_tol[-1] = math.inf          # from here on w is not comparable across runs (train vs eager) either
            stats["corr_w_skipped(alpha<=0 or kappa>1e7)"] += 1
            if not np.all(np.isfinite(st["w"])) and not close(mw, st["w"].ravel(), 0.0):
                fails.append("w (non-finite pattern)")
        else:
            cum_tol[-1] += tl[0]
            if not close(mw, st["w"].ravel(), tl[0]):
                fails.append("w")
            stats["corr_w_tight" if close(mw, st["w"].ravel(), tl[1]) else "corr_w_within_conditioning_bound"] += 1
        ctx.corr("fd_step", not fails)
        if fails:
            ctx.disagree("fd_step", case, _st_list(st), m, f"step {t}: {fails} differ")
        # executed theorem instances
        inst = all(kit.hex_f64(h) == 0.0 for h in rep["last_row"]) and me[-1] == 0.0
        af = kit.hex_f64(rep["alpha_factor"])
        inst2 = malpha == float(prev["alpha"]) + af * kit.hex_f64(rep["rho"]) and af == ALPHA_FACTOR[algo]
        ctx.corr("model instance: last_row_zero_step, alpha_recurrence", inst and inst2)
        if not (inst and inst2):
            ctx.disagree("model instance: last_row_zero_step, alpha_recurrence", case, None, rep, f"step {t}")
    return cum_tol


# ----------------------------------------------------------------------------- driver of a batch of cases
def execute(ctx, cases, stats):
    import hashlib
    import numpy as np
    order = sorted(range(len(cases)), key=lambda i: (cases[i]["algo"], cases[i]["k"], tuple(cases[i]["shape"])))
    # interleave so that every worker gets a similar mix (and the expensive train cases are spread)
    nchunks = min(56, max(1, len(cases) // 4))
    chunks = [[] for _ in range(nchunks)]
    for pos, i in enumerate(order):
        chunks[pos % nchunks].append(i)
    tasks = [{"cases": [cases[i] for i in ch]} for ch in chunks if ch]
    import time
    tm = ctx.cov.setdefault("timing_s", {})
    t0 = time.time()
    results = kit.parallel_map(run_impl, tasks, nproc=14)
    tm["implementation"] = round(tm.get("implementation", 0) + time.time() - t0, 1)
    t0 = time.time()
    obs = [None] * len(cases)
    for ch, res in zip([c for c in chunks if c], results):
        for i, o in zip(ch, res):
            obs[i] = o
    # round 1 of driver requests
    reqs, slots = [], []
    for i, c in enumerate(cases):
        o = obs[i]
        if "states" not in o:
            slots.append(None)
            continue
        if c["algo"] in SKETCHED:
            n = int(np.prod(c["shape"]))
            start = len(reqs)
            reqs.append({"op": "fd_init", "sketch_size": int(c["k"]), "n": n, "delta": c["delta"]})
            for t in range(1, len(o["states"])):
                reqs.append({"op": "fd_b", "sketch_size": int(c["k"]), "n": n, "algo": c["algo"], "lr": c["lr"],
                             "state": st_json(o["states"][t - 1]), "g": c["gs"][t - 1]})
            slots.append((start, len(reqs)))
        else:
            start = len(reqs)
            reqs += requests_simple(dict(c, gs=c["gs"][:len(o["states"]) - 1]))
            slots.append((start, len(reqs)))
    rep1 = ctx.driver(reqs) if reqs else []
    # round 2
    reqs2, slots2, svd_store = [], {}, {}
    for i, c in enumerate(cases):
        if slots[i] is None or c["algo"] not in SKETCHED:
            continue
        a, b = slots[i]
        r2, svds = compare_sketched(ctx, c, obs[i]["states"], rep1[a + 1:b], stats)
        slots2[i] = (len(reqs2), len(reqs2) + len(r2))
        reqs2 += r2
        svd_store[i] = svds
    rep2 = ctx.driver(reqs2) if reqs2 else []
    tm["model (driver, svd)"] = round(tm.get("model (driver, svd)", 0) + time.time() - t0, 1)
    ctx.cov["driver_requests"] = ctx.cov.get("driver_requests", 0) + len(reqs) + len(reqs2)
    t0 = time.time()
    # judge
    for i, c in enumerate(cases):
        o = obs[i]
        ctx.evaluated()
        ctx.dist("algo:" + c["algo"])
        ctx.dist("profile:" + c["profile"])
        ctx.dist("T:%d-%d" % ((len(c["gs"]) - 1) // 5 * 5 + 1, (len(c["gs"]) - 1) // 5 * 5 + 5))
        if "states" not in o:
            ctx.cov["search_evaluations"] += 1
            ctx.violation(f"{c['algo']} shape={c['shape']} sketch={c['k']}: implementation raised {o.get('exception')}", {"case": c, "trace": o.get("trace")})
            continue
        states = o["states"]
        if "truncated" in o:
            tr = o["truncated"]
            ctx.violation(f"{c['algo']} shape={c['shape']} sketch={c['k']} delta={kit.hex_f64(c['delta'])} lr={kit.hex_f64(c['lr'])} "
                          f"[{c['profile']}]: sketch state entries {tr['keys']} non-finite or above 1e100 after step {tr['step']} "
                          f"(history of {len(c['gs'])} bounded gradients); history not continued", {"case": c})
            c = dict(c, gs=c["gs"][:len(states) - 1])
            cases[i] = c
        if o["dtypes"] != ["float64"]:
            ctx.violation(f"{c['algo']}: state dtypes {o['dtypes']} under jax_enable_x64 (float64 expected)", {"case": c})
        key = (c["algo"], tuple(c["shape"]), c["k"], c["delta"], c["lr"], hashlib.sha1(json.dumps(c["gs"]).encode()).hexdigest()[:16])
        ctx.cov["search_evaluations"] += 1
        a, b = slots[i]
        cum_tol = None
        if c["algo"] in SKETCHED:
            bad, info = oracle_sketched(ctx, c, states, stats)
            init_ok = rep1[a].get("state") == st_json(states[0])
            ctx.corr("fd_init", init_ok)
            if not init_ok:
                ctx.disagree("fd_init", c, st_json(states[0]), rep1[a])
            a2, b2 = slots2[i]
            cum_tol = judge_sketched(ctx, c, states, rep1[a + 1:b], rep2[a2:b2], svd_store[i], stats)
            if info["rho_pos"]:
                ctx.nontrivial(key)
                stats["sketched_with_escaped_mass"] += 1
            if info["lossless"]:
                ctx.nontrivial(key)
                stats["lossless_clause_exercised"] += 1
                if info.get("lossless_w_judged"):
                    stats["lossless_iterates_judged_vs_full_matrix_adagrad"] += 1
                if info.get("lossless_w_unjudged"):
                    stats["lossless_iterates_unjudged(relative tol > 1e-3: B2/delta > ~1e21)"] += 1
                if c["profile"].startswith("scalefam"):
                    stats["lossless_scale_family" + ("" if info.get("lossless_w_judged") else "_unjudged")] += 1
            stats["oracle_w_steps_skipped(alpha<=0 or kappa>1e7)"] += info["skipped_w"]
        else:
            bad = oracle_simple(ctx, c, states, stats)
            compare_simple(ctx, c, states, rep1[a], rep1[a + 1], stats)
            if len(c["gs"]) >= 2:
                ctx.nontrivial(key)
            T = len(states)
            incs = [0.0] + [float(np.max(np.abs(states[t]["w"] - states[t - 1]["w"]))) * 1e-12 for t in range(1, T)]
            cum_tol = list(np.cumsum(incs))
        if c.get("train") and "train" in o and not bad:
            tb = oracle_train(c, states, o["train"], stats, cum_tol)
            ctx.corr("train._compiled_run_dataset vs eager iterates", not tb)
            bad += tb
        for msg in bad[:3]:
            ctx.violation(f"{c['algo']} shape={c['shape']} sketch={c['k']} delta={kit.hex_f64(c['delta'])} lr={kit.hex_f64(c['lr'])} "
                          f"T={len(c['gs'])} [{c['profile']}]: {msg}", {"case": c})
    tm["oracle + comparison"] = round(tm.get("oracle + comparison", 0) + time.time() - t0, 1)
    return obs


# ----------------------------------------------------------------------------- constants
def const_stage(ctx):
    """literals the model hard-codes and the theorems name: alpha factors (sada_alpha: 1, rfd_alpha: 1/2,
    fdson_adafd_alpha_const: 0), unit sketch factor and lr conventions, eps = 0 of safe_invert"""
    from harness import consts
    rel = "oco/algorithms.py"
    want = {("_rfd", "alpha_update_factor"): 0.5, ("_rfd", "lr"): 1.0,
            ("_fdson", "alpha_update_factor"): 0.0, ("_fdson", "lr"): 1.0,
            ("_adafd", "alpha_update_factor"): 0.0, ("_adafd", "sketch_update_factor"): 1.0,
            ("_sada", "alpha_update_factor"): 1.0, ("_sada", "sketch_update_factor"): 1.0,
            ("_fd_update_fn", "eps"): 0.0}
    got = {}
    for (fn, name), v in want.items():
        try:
            g = consts.func_local(rel, fn, name)
        except kit.InfraError:
            g = None        # renamed / restructured: the correspondence run decides
        got[f"{fn}.{name}"] = g
        if g is not None and float(g) != v:
            ctx.const_fail(f"{fn}.{name}", f"source has {g!r}, model and theorems (alphaFactor / factors / safeInvert) assume {v!r}")
    ctx.cov["consts"] = got


# ----------------------------------------------------------------------------- entry points
def _add_train(rng, cases, count):
    idx = [i for i, c in enumerate(cases) if len(c["gs"]) >= 2]
    rng.shuffle(idx)
    # all six algorithms get a share
    per = {}
    chosen = []
    for i in idx:
        a = cases[i]["algo"]
        if per.get(a, 0) < (count + 5) // 6:
            per[a] = per.get(a, 0) + 1
            chosen.append(i)
    for i in chosen:
        T = len(cases[i]["gs"])
        m = rng.randint(2, min(T + 1, 6))
        inner = sorted(rng.sample(range(0, T + 1), max(0, m - 2))) if T >= 1 else []
        cases[i]["train"] = [0] + inner + [T]


def run(ctx):
    ctx.lean_stage()
    const_stage(ctx)
    stats = Counter()
    rng = random.Random(ctx.seed * 7919 + 16)
    cases = corpus_cases()
    ncorpus = len(cases)
    cases += fixed_cases()
    cases += scale_family(rng, ctx.tier)
    nrand = 720 if ctx.tier == "quick" else 5400
    for i in range(nrand):
        cases.append(gen_case(rng, f"r{ctx.seed}-{i}", ctx.tier, algo=ALGOS[i % 6]))
    _add_train(rng, cases, 56 if ctx.tier == "quick" else 420)
    ctx.cov["rule"] = ("a case is (algorithm, w_shape, sketch size, delta, lr, gradient history of length 1..20 [32 thorough] in dimension "
                       "2..8 [12]); fixed witnesses first, then seeded random histories (gauss, per-step scaled, zero steps, small integers, "
                       "signed basis vectors, sparse, rank < sketch size (float / integer / scaled), rank = sketch size). Non-trivial: "
                       "OGD/ADA with >= 2 steps; sketched with some escaped mass rho_t > 1e-9 tr(C) (real deflation) or with the lossless "
                       "clause exercised (S_ADA, delta > 0, history rank < sketch size); distinct by (algo, shape, k, delta, lr, sha1 of history)")
    ctx.assumptions += [
        "policy TOL: OGD/AdaGrad 1e-12 x accumulated |increment|; sketched alpha, e^2, P^T diag(e^2) P: 1e-12 x ||B||_F^2 against the Float model "
        "(oracle: 1e-10 x tr C); w: explicit conditioning bound lr |g| (|phi'(alpha)| 1e-12 ||B||^2 + 1e-12 phi(alpha)), Ada-FD through the "
        "Hoelder-1/2 bound of the matrix square root; agreement to 1e-10 relative is counted separately (`*_w_tight`)",
        "w is not compared on steps with alpha <= 0 or ||B||^2/alpha > 1e7 (safe inversion makes the closed form discontinuous there); the sketch "
        "observables are compared on every step",
        "the SVD is a kernel parameter of the model: numpy's SVD of the model's own B, SvdSpec residuals re-checked by the driver (<= 1e-12)",
        "t, last sketch row and last root-eigenvalue: EXACT; initial states EXACT",
        "Ada-FD with delta = 0 yields NaN iterates (0/0 in e/(alpha+e)) in code and model alike; the property states nothing about them, "
        "only the sketch observables are judged there",
        "lossless iterates are compared with exact full-matrix AdaGrad (float64, SVD of the history) at the RELATIVE tolerance "
        "1e-10 + 3e-14 sqrt(1 + B2/delta) + 1e-13 B2/(lambda_min + delta), accumulated over the steps; no kappa exclusion applies there "
        "(unjudged only when that tolerance exceeds 1e-3); scale family: gradient scale {1,1e-3,1e-7,3e-8,1e4} x delta {0.3,1e-6,1e-14,2e-16}",
        "lossless clause judged when the numerical rank (singular values > 1e-11 s_1, next one <= 1e-14 s_1) of the history is below the sketch size",
    ]
    obs = execute(ctx, cases, stats)
    ctx.cov["corpus_cases"] = ncorpus
    ctx.cov["stats"] = dict(stats)
    step = max(1, len(cases) // 6)
    for c, o in list(zip(cases, obs))[::step]:
        if "states" in o:
            ctx.sample({"id": c["id"], "algo": c["algo"], "shape": c["shape"], "k": c["k"], "delta": kit.hex_f64(c["delta"]),
                        "lr": kit.hex_f64(c["lr"]), "T": len(c["gs"]), "profile": c["profile"],
                        "final_w": o["states"][-1]["w"].ravel().tolist(),
                        "final_alpha": float(o["states"][-1]["alpha"]) if "alpha" in o["states"][-1] else None})


def replay(ctx, data):
    const_stage(ctx)
    cases = []
    for v in data.get("violations", []):
        c = v.get("case")
        if isinstance(c, dict) and isinstance(c.get("case"), dict) and "gs" in c["case"]:
            cases.append(c["case"])
    for s in data.get("stage_failures", []):
        d = s.get("detail")
        if isinstance(d, dict) and isinstance(d.get("case"), dict) and "gs" in d["case"]:
            cases.append(d["case"])
    seen, uniq = set(), []
    for c in cases:
        k = json.dumps(c, sort_keys=True)
        if k not in seen:
            seen.add(k)
            uniq.append(c)
    ctx.cov["rule"] = "replay of recorded cases"
    if uniq:
        execute(ctx, uniq, Counter())
