"""C03 — a preconditioner is replaced only by a verified root; failures never leak.

Implementation runner: the real Distributed Shampoo optimizer through its public init/update API in three
modes — replicated (`jit`), pmap + int16-quantized statistics/preconditioners (`batch_axis_name` +
`best_effort_memory_usage_reduction`, forced host devices) and sharded (`shard_optimizer_states`, `jit`
under a one-device mesh) — over fault histories: NaN / +Inf / -Inf / 0 / 1e30 / 1e-30 / 1e12 / 1e-12
gradients (whole tensor or one entry) on step subsets x failure thresholds {0, 1e-30, 0.1, 1e30} x
matrix_epsilon {0, 1e-6, 1e-12} x Newton/eigh x refresh interval {1, 2, 3}; the same observables for the other root paths:
LOBPCG-deflated Newton roots (`lobpcg_topk_precondition`, incl. gradients whose first row is zero: K6 of C01), low-rank packed
roots (`compression_rank` 1, -1, 2: packed dim x (|r|+2) slots next to full small ones) and frequent directions
(`frequent_directions` + `reuse_preconditioner`: the root is warm-started from the stored packed sketch).

Correspondence (K, policy EXACT): per step and slot the reported error (float32 bit pattern of
`training_metrics.inverse_pth_root_errors`) and the refresh interval are handed to the Lean slot automaton
(`Model/Gate.lean`: `slotStep` with `select` / `selectTriple` / `selectWhere`); its decision (kept /
replaced), the stored error and the origin of the stored value are compared with what the state shows:
kept <=> every stored leaf bitwise equal to the previous one. A replaced-but-bit-equal slot is counted as
inconclusive unless the statistics moved by >= 5% (Frobenius, relative) under O(1)-only gradients since the stored value
last changed (then the candidate must differ bitwise).
`XF` decoding, IEEE arithmetic/comparison of `XF` and the arithmetic blend are compared EXACTLY with numpy.

Search oracle (S, no reference to the model): after every step every stored preconditioner leaf is finite;
a slot that changed bitwise did so on a refresh step and its reported error is finite and < float32(threshold);
the update is finite as long as every gradient so far was zero or of magnitude 1e-12..1e12; on a non-refresh step the slot is not
the raw statistics slice (the `efficient_cond` sentinel carried with error = threshold must never be accepted).
A worker that is still running long after all others finished (LAPACK SVD on garbage under a mutated gate) is killed and
reported next to the violations of the other tasks; a hang alone is an infrastructure outcome (exit 2).
"""
import itertools
import os
import random
from fractions import Fraction

from harness import kit, consts

KINDS = ["ok", "nan", "pinf", "ninf", "zero", "huge", "tiny", "big", "small", "nan1", "inf1", "row0zero"]
MODERATE = {"ok", "zero", "big", "small", "row0zero", "rank1"}
FAULTS = [k for k in KINDS if k != "ok"]
THRS = [0.0, 1e-30, 0.1, 1e30]
EPSS = [0.0, 1e-6, 1e-12]
MODES = ["replicated", "pmapq", "sharded"]
SHAPES = [
    {"shapes": [[4, 3], [3, 2]], "block": 4},
    {"shapes": [[5, 3], [2, 2]], "block": 4},      # blocks (4,3) and (1,3): a 1x1 statistic next to larger ones
    {"shapes": [[3], [2, 2]], "block": 4},         # rank-1 leaf: one statistic, exponent 2
    {"shapes": [[2, 2], [2, 3]], "block": 2},
    {"shapes": [[1], [3, 2]], "block": 4},         # (1,) leaf: 1x1 statistic
]
GRAFTS = ["SGD", "RMSPROP_NORMALIZED", "ADAGRAD", "RMSPROP"]
# root paths other than the plain Newton / eigh root: LOBPCG-deflated Newton root (every statistic must be larger than 5k),
# low-rank packed roots (compression_rank r: statistics of dimension > |r|+2 are packed into dim x (|r|+2), smaller ones take the
# full root), frequent directions (sketch updated from the previously stored packed preconditioner)
VARIANTS = [
    # (6,8): the 6x6 statistic is padded to max_size 8 (LOBPCG then reports error 1: always rejected), the 8x8 one has full rank
    # after two O(1) steps (error ~1e-6: accepted); (8,): rank-deficient 8x8 statistic (error ~0.2)
    {"variant": {"lobpcg": 1}, "shapes": [[6, 8], [8]], "block": 8},
    {"variant": {"rank": 1}, "shapes": [[6, 7], [6, 3]], "block": 8},
    {"variant": {"rank": -1}, "shapes": [[7, 6], [4]], "block": 8},
    {"variant": {"rank": 2}, "shapes": [[6, 5], [7]], "block": 8},
    {"variant": {"fd": 1}, "shapes": [[6, 7], [6, 3]], "block": 8},
    {"variant": {"fd": 2}, "shapes": [[6, 5], [7]], "block": 8},
]


# ============================================================================ case generation
def _history(rng, T, kinds=None, p=0.35):
    kinds = kinds or FAULTS
    return [rng.choice(kinds) if rng.random() < p else "ok" for _ in range(T)]


def _subset_histories(T, kind):
    out = []
    for mask in range(1 << T):
        out.append([kind if (mask >> t) & 1 else "ok" for t in range(T)])
    return out


def gen_tasks(tier, seed):
    rng = random.Random(seed * 104729 + 3)
    tasks = []
    cid = 0
    quick = tier == "quick"
    T = 6 if quick else 8
    grid = []
    if quick:
        # every (mode, threshold, Newton/eigh) with two of the three epsilons; interval / shapes / graft rotate with the seed
        for mi, mode in enumerate(MODES):
            for ti, thr in enumerate(THRS):
                for ei, eigh in enumerate([False, True]):
                    for j in range(2):
                        k = (mi * 8 + ti * 2 + ei) * 2 + j + seed
                        grid.append((mode, thr, EPSS[(ti + ei + mi + seed + j) % 3], eigh, [1, 2, 1, 3][(k + ti + j) % 4],
                                     SHAPES[k % len(SHAPES)], GRAFTS[(k // 2) % len(GRAFTS)]))
    else:
        for mode in MODES:
            for thr in THRS:
                for eps in EPSS:
                    for eigh in [False, True]:
                        for pi in [1, 2]:
                            k = len(grid) + seed
                            grid.append((mode, thr, eps, eigh, pi if k % 5 else 3, SHAPES[k % len(SHAPES)],
                                         GRAFTS[k % len(GRAFTS)]))
    for gi, (mode, thr, eps, eigh, pi, shp, graft) in enumerate(grid):
        cid += 1
        hs = []
        nh = 8 if quick else 10
        for h in range(nh):
            kinds = _history(rng, T, p=[0.2, 0.35, 0.6][h % 3])
            hs.append({"kinds": kinds, "target": rng.choice(["p0", "p0", "all", "p1"]), "gseed": seed * 1000003 + cid * 101 + h})
        # single fault on one step, moderate-only histories (the update clause), all-zero / all-fault prefixes
        hs.append({"kinds": [rng.choice(sorted(MODERATE)) for _ in range(T)], "target": "all", "gseed": seed * 7 + cid})
        hs.append({"kinds": ["zero"] * 2 + ["ok"] * (T - 2), "target": "all", "gseed": seed * 11 + cid})
        hs.append({"kinds": ["ok", "ok"] + [rng.choice(["nan", "pinf", "nan1", "huge"])] + ["ok"] * (T - 3), "target": "p0",
                   "gseed": seed * 13 + cid})
        hs.append({"kinds": ["ok"] * T, "target": "all", "gseed": seed * 17 + cid})
        if not quick:
            # all subsets of the 8 steps for one fault kind (rotating over the grid)
            kind = FAULTS[(gi + seed) % len(FAULTS)]
            for kinds in _subset_histories(T, kind):
                hs.append({"kinds": kinds, "target": "p0", "gseed": seed * 19 + cid})
        tasks.append({"kind": "ds", "mode": mode, "thr": thr, "eps": eps, "eigh": eigh, "pi": pi, "T": T,
                      "shapes": shp["shapes"], "block": shp["block"], "graft": graft,
                      "ndev": [2, 3, 8][cid % 3] if mode == "pmapq" else None,
                      "npjit": [1, 2, 3][cid % 3] if mode == "sharded" else None,
                      "defaults": False, "histories": hs})
    # ---- the other root paths (LOBPCG, low-rank, frequent directions): same observables
    vgrid = []
    if quick:
        for mi, mode in enumerate(MODES):
            for vi, v in enumerate(VARIANTS):
                k = mi * len(VARIANTS) + vi + seed
                thr = THRS[(k + vi) % 4] if (k % 3) else 0.1
                if "lobpcg" in v["variant"]:
                    thr = [0.1, 1e30][(mi + seed) % 2]      # thresholds at which LOBPCG roots are accepted as well as rejected
                vgrid.append((mode, thr, EPSS[k % 3], [1, 2, 1, 3][(k + mi) % 4], v, GRAFTS[k % len(GRAFTS)]))
    else:
        for mode in MODES:
            for v in VARIANTS:
                for thr in THRS:
                    for eps in EPSS:
                        k = len(vgrid) + seed
                        vgrid.append((mode, thr, eps, [1, 2, 1, 3][k % 4], v, GRAFTS[k % len(GRAFTS)]))
    for gi, (mode, thr, eps, pi, v, graft) in enumerate(vgrid):
        cid += 1
        hs = []
        vk = FAULTS + ["row0zero", "row0zero"]
        for h in range(8 if quick else 10):
            hs.append({"kinds": _history(rng, T, kinds=vk, p=[0.2, 0.35, 0.6][h % 3]), "target": rng.choice(["p0", "p0", "all", "p1"]),
                       "gseed": seed * 1000003 + cid * 101 + h})
        hs.append({"kinds": [rng.choice(["ok", "zero", "big", "small", "row0zero"]) for _ in range(T)], "target": "all", "gseed": seed * 7 + cid})
        hs.append({"kinds": ["zero"] * 2 + ["ok"] * (T - 2), "target": "all", "gseed": seed * 11 + cid})
        hs.append({"kinds": ["ok", "ok"] + [rng.choice(["nan", "pinf", "nan1", "huge"])] + ["ok"] * (T - 3), "target": "p0", "gseed": seed * 13 + cid})
        hs.append({"kinds": ["ok", "row0zero", "row0zero", "ok"] + ["ok"] * (T - 4), "target": "all", "gseed": seed * 23 + cid})
        hs.append({"kinds": ["rank1"] * 2 + ["ok"] * (T - 2), "target": "all", "gseed": seed * 29 + cid})
        hs.append({"kinds": ["ok"] * T, "target": "all", "gseed": seed * 17 + cid})
        tasks.append({"kind": "ds", "mode": mode, "thr": thr, "eps": eps, "eigh": False, "pi": pi, "T": T,
                      "shapes": v["shapes"], "block": v["block"], "graft": graft, "variant": v["variant"],
                      "ndev": [2, 3][cid % 2] if mode == "pmapq" else None,
                      "npjit": [1, 2, 3][cid % 3] if mode == "sharded" else None,
                      "defaults": False, "histories": hs})
    # ---- frequent directions with the periodic reset of the warm start (reset_preconditioner: every round(1/(1-beta2)) steps):
    # on a reset step whose root is rejected, or which is not a refresh step, the stored sketch must stay bit-identical
    rgrid = []
    TR = 8 if quick else 11
    if quick:
        for mi, mode in enumerate(MODES):
            for bi, b2 in enumerate([0.5, 0.75, 0.8]):
                rgrid.append((mode, b2, [3, 1, 2][(bi + mi + seed) % 3], [0.1, 0.1, 1e30, 0.0][(bi + 2 * mi + seed) % 4], EPSS[(bi + mi + seed) % 3]))
    else:
        for mode in MODES:
            for b2 in [0.5, 0.75, 0.8]:
                for pi in [1, 2, 3]:
                    for thr in [0.1, 1e30, 0.0]:
                        rgrid.append((mode, b2, pi, thr, EPSS[(len(rgrid) + seed) % 3]))
    for gi, (mode, b2, pi, thr, eps) in enumerate(rgrid):
        cid += 1
        rf = int(round(1 / (1 - b2)))
        v = VARIANTS[4 + (gi + seed) % 2]
        hs = [{"kinds": ["ok"] * TR, "target": "all", "gseed": seed * 31 + cid},
              {"kinds": [rng.choice(["ok", "ok", "zero", "small", "big"]) for _ in range(TR)], "target": "all", "gseed": seed * 37 + cid}]
        for k in range(rf, TR, rf):        # one fault exactly ON each reset step (the root of that step is rejected)
            kinds = ["ok"] * TR
            kinds[k] = rng.choice(["nan", "nan1", "pinf", "inf1", "huge"])
            hs.append({"kinds": kinds, "target": rng.choice(["p0", "all"]), "gseed": seed * 41 + cid * 7 + k})
        for h in range(3 if quick else 6):
            hs.append({"kinds": _history(rng, TR, p=[0.2, 0.35][h % 2]), "target": rng.choice(["p0", "all", "p1"]), "gseed": seed * 43 + cid * 11 + h})
        tasks.append({"kind": "ds", "mode": mode, "thr": thr, "eps": eps, "eigh": False, "pi": pi, "T": TR,
                      "shapes": v["shapes"], "block": v["block"], "graft": GRAFTS[(gi + seed) % len(GRAFTS)],
                      "variant": dict(v["variant"], reset=b2),
                      "ndev": [2, 3][cid % 2] if mode == "pmapq" else None, "npjit": [1, 2, 3][cid % 3] if mode == "sharded" else None,
                      "defaults": False, "histories": hs})
    return tasks


def corpus_tasks():
    """corpus/C03/*.json (run first); falls back to the built-in witnesses when the directory is missing."""
    import glob
    import json
    files = sorted(glob.glob(os.path.join(kit.ROOT, "corpus", "C03", "*.json")))
    if not files:
        return _builtin_corpus()
    tasks = []
    for f in files:
        tasks += json.load(open(f))["tasks"]
    return tasks


def _builtin_corpus():
    """Witnesses of the three repaired C03 defects (corpus/reproducers/c03_*.py, d5_sharded_nan.py): must pass now.
    corpus/C03/defect_witnesses.json is the dump of this list."""
    T = 4
    t = []
    # 5c7d9fd: only 1x1 statistics, Newton: NaN gradient / zero gradient with matrix_epsilon = 0
    for mode in MODES:
        for eps, kinds in ((1e-6, ["ok", "nan", "ok", "ok"]), (0.0, ["zero", "ok", "ok", "zero"]), (0.0, ["pinf", "ok", "ok", "ok"])):
            t.append({"kind": "ds", "mode": mode, "thr": 0.1, "eps": eps, "eigh": False, "pi": 1, "T": T, "shapes": [[1]],
                      "block": 4, "graft": "RMSPROP_NORMALIZED", "ndev": 2 if mode == "pmapq" else None,
                      "npjit": 1 if mode == "sharded" else None, "defaults": True, "corpus": "c03_1x1_newton_error_zero",
                      "histories": [{"kinds": kinds, "target": "all", "gseed": 5}]})
    # 2899ef0: eigh, matrix_epsilon = 0, rank-1 gradient
    for mode in MODES:
        t.append({"kind": "ds", "mode": mode, "thr": 0.1, "eps": 0.0, "eigh": True, "pi": 1, "T": T, "shapes": [[4, 3]],
                  "block": 4, "graft": "RMSPROP_NORMALIZED", "ndev": 2 if mode == "pmapq" else None,
                  "npjit": 1 if mode == "sharded" else None, "defaults": False, "corpus": "c03_eigh_eps0_nonfinite_root",
                  "histories": [{"kinds": ["rank1"] * T, "target": "all", "gseed": 1},
                                {"kinds": ["rank1", "zero", "rank1", "ok"], "target": "all", "gseed": 2}]})
    # 02f94fc (D5): sharded, one NaN entry at step 2
    for npjit in (1, 2, 3):
        t.append({"kind": "ds", "mode": "sharded", "thr": 0.1, "eps": 1e-6, "eigh": False, "pi": 1, "T": T,
                  "shapes": [[5, 3], [4]], "block": 4, "graft": "RMSPROP_NORMALIZED", "ndev": None, "npjit": npjit,
                  "defaults": False, "corpus": "d5_sharded_nan",
                  "histories": [{"kinds": ["ok", "ok", "nan1", "ok"], "target": "p0", "gseed": 0},
                                {"kinds": ["ok", "ok", "nan", "ok"], "target": "p0", "gseed": 0}]})
    # da82164 (D25): frequent directions reported error 0 for a NaN sketch (one NaN gradient entry at step 2)
    for mode in MODES:
        t.append({"kind": "ds", "mode": mode, "thr": 0.1, "eps": 1e-6, "eigh": False, "pi": 1, "T": T, "shapes": [[6, 7]],
                  "block": 8, "graft": "RMSPROP_NORMALIZED", "variant": {"fd": 1}, "ndev": 2 if mode == "pmapq" else None,
                  "npjit": 1 if mode == "sharded" else None, "defaults": False, "corpus": "d25_c03_fd_nan_error_zero",
                  "histories": [{"kinds": ["ok", "ok", "nan1", "ok"], "target": "all", "gseed": 0},
                                {"kinds": ["ok", "pinf", "ok", "ok"], "target": "all", "gseed": 1}]})
    # low-rank root, matrix_epsilon = 0, singular statistics (rank-1 leaf): Inf/NaN packed root with a tiny reported error
    for mode in MODES:
        t.append({"kind": "ds", "mode": mode, "thr": 0.1, "eps": 0.0, "eigh": False, "pi": 1, "T": T, "shapes": [[7]],
                  "block": 8, "graft": "RMSPROP_NORMALIZED", "variant": {"rank": 2}, "ndev": 2 if mode == "pmapq" else None,
                  "npjit": 1 if mode == "sharded" else None, "defaults": False, "corpus": "d26_c03_lowrank_eps0_nonfinite_root",
                  "histories": [{"kinds": ["ok"] * T, "target": "all", "gseed": 0},
                                {"kinds": ["zero", "ok", "rank1", "ok"], "target": "all", "gseed": 1}]})
    return t


# ============================================================================ worker (real code)
def _f32hex(x):
    import numpy as np
    return "0x%08x" % int(np.asarray(x, np.float32).reshape(()).view(np.uint32))


def _bits(a):
    import numpy as np
    return np.ascontiguousarray(np.asarray(a)).tobytes()


def _grad(kind, shape, rs):
    import numpy as np
    base = rs.randn(*shape).astype(np.float32)
    if kind == "ok":
        return base
    if kind == "nan":
        return np.full(shape, np.nan, np.float32)
    if kind == "pinf":
        return np.full(shape, np.inf, np.float32)
    if kind == "ninf":
        return np.full(shape, -np.inf, np.float32)
    if kind == "zero":
        return np.zeros(shape, np.float32)
    if kind == "huge":
        return (base * np.float32(1e30)).astype(np.float32)
    if kind == "tiny":
        return (base * np.float32(1e-30)).astype(np.float32)
    if kind == "big":
        return (base * np.float32(1e12)).astype(np.float32)
    if kind == "small":
        return (base * np.float32(1e-12)).astype(np.float32)
    if kind == "nan1":
        base.reshape(-1)[0] = np.nan
        return base
    if kind == "inf1":
        base.reshape(-1)[-1] = np.inf
        return base
    if kind == "row0zero":
        base[0] = 0.0          # e_1 lies in the null space of the left statistic (LOBPCG's fixed search direction, K6 of C01)
        return base
    if kind == "rank1":
        n = int(np.prod(shape))
        if len(shape) == 2:
            return np.outer(np.arange(1, shape[0] + 1), ([1., -1., 2., 3., -2., 1.5, -0.5, 4.] * 2)[:shape[1]]).astype(np.float32)
        return np.arange(1, n + 1, dtype=np.float32).reshape(shape)
    raise ValueError(kind)


def _build(c):
    import numpy as np
    import jax
    from jax.sharding import Mesh, PartitionSpec as P
    from precondition import distributed_shampoo as ds
    mode = c["mode"]
    kw = dict(block_size=c["block"], matrix_epsilon=c["eps"], start_preconditioning_step=1,
              preconditioning_compute_steps=c["pi"], inverse_failure_threshold=c["thr"], eigh=c["eigh"],
              generate_training_metrics=True, graft_type=getattr(ds.GraftingType, c["graft"]))
    if not c.get("defaults"):
        kw.update(best_effort_shape_interpretation=False, beta2=1.0)
    v = c.get("variant") or {}
    if "lobpcg" in v:
        kw.update(lobpcg_topk_precondition=v["lobpcg"])
    if "rank" in v:
        kw.update(compression_rank=v["rank"])
    if "fd" in v:
        kw.update(compression_rank=v["fd"], frequent_directions=True, reuse_preconditioner=True, statistics_compute_steps=c["pi"])
    if "reset" in v:
        # reset_frequency = round(1 / (1 - beta2)); the optimizer then behaves like beta2 = 1 between resets
        kw.update(reset_preconditioner=True, beta2=v["reset"])
    mesh = None
    if mode == "replicated":
        kw.update(batch_axis_name=None)
    elif mode == "pmapq":
        kw.update(batch_axis_name="batch", best_effort_memory_usage_reduction=True)
    elif mode == "sharded":
        npjit = c["npjit"]
        spec = P("x", None, None) if npjit == 1 else P(None)
        kw.update(batch_axis_name=None, shard_optimizer_states=True, statistics_partition_spec=spec,
                  preconditioner_partition_spec=spec, num_devices_for_pjit=npjit)
        mesh = Mesh(np.array(jax.devices()[:1]), ("x",))
    else:
        raise ValueError(mode)
    return ds.distributed_shampoo(0.1, **kw), mesh


def _view(c, state, names):
    """Per slot: list of stored preconditioner leaves, reported error, statistics leaves; plus the step counter."""
    import numpy as np
    mode = c["mode"]
    slots = []
    if mode == "sharded":
        g = state.stats.global_stats
        Pg, Sg = np.asarray(g.preconditioners), np.asarray(g.statistics)
        owned = set()
        for n in names:
            loc = state.stats.local_stats[n]
            i0, ns = int(loc.index_start), len(loc.sizes)
            errs = np.asarray(loc.training_metrics.inverse_pth_root_errors).reshape(-1)
            for k in range(ns):
                owned.add(i0 + k)
                slots.append({"owner": n, "k": k, "P": [Pg[i0 + k]], "S": [Sg[i0 + k]], "err": errs[k], "dense": Pg[i0 + k],
                              "Sdense": Sg[i0 + k]})
        for i in range(Pg.shape[0]):
            if i not in owned:
                slots.append({"owner": None, "k": i, "P": [Pg[i]], "S": [Sg[i]], "err": None, "dense": Pg[i], "Sdense": Sg[i]})
        return int(state.count), slots
    dev0 = (lambda x: np.asarray(x)[0]) if mode == "pmapq" else (lambda x: np.asarray(x))
    for n in names:
        loc = state.stats[n]
        errs = dev0(loc.training_metrics.inverse_pth_root_errors).reshape(-1)
        for k, (p, s) in enumerate(zip(loc.preconditioners, loc.statistics)):
            if mode == "pmapq" and hasattr(p, "quantized") and np.asarray(p.quantized).dtype.kind == "i":
                q, d, b = dev0(p.quantized), dev0(p.diagonal), dev0(p.bucket_size)
                dense = q.astype(np.float32) * b[np.newaxis, :] + np.diag(d)
                sq, sd, sb = dev0(s.quantized), dev0(s.diagonal), dev0(s.bucket_size)
                slots.append({"owner": n, "k": k, "P": [q, d, b], "S": [sq, sd, sb], "err": errs[k], "dense": dense,
                              "Sdense": sq.astype(np.float32) * sb[np.newaxis, :] + np.diag(sd)})
            else:
                pp = dev0(p.quantized) if hasattr(p, "quantized") else dev0(p)
                ss = dev0(s.quantized) if hasattr(s, "quantized") else dev0(s)
                slots.append({"owner": n, "k": k, "P": [pp], "S": [ss], "err": errs[k], "dense": pp, "Sdense": ss})
    return int(dev0(state.count)), slots


def _finite_leaves(leaves):
    import numpy as np
    return all(bool(np.isfinite(np.asarray(l, np.float64)).all()) for l in leaves)


def _run_config(c):
    import contextlib
    import numpy as np
    import jax
    import jax.numpy as jnp
    names = [f"p{i}" for i in range(len(c["shapes"]))]
    shapes = {n: tuple(s) for n, s in zip(names, c["shapes"])}
    params = {n: jnp.full(shapes[n], 0.5, jnp.float32) for n in names}
    opt, mesh = _build(c)
    mode = c["mode"]
    thr32 = np.float32(c["thr"])
    if mode == "pmapq":
        devs = jax.devices()[:c["ndev"]]
        if len(devs) < c["ndev"]:
            raise RuntimeError(f"only {len(devs)} host devices")
        nd = len(devs)
        rep = lambda t: jax.tree.map(lambda x: jnp.broadcast_to(x, (nd,) + x.shape), t)  # noqa: E731
        init = jax.pmap(opt.init, axis_name="batch", devices=devs)
        upd_p = jax.pmap(opt.update, axis_name="batch", devices=devs)
        rparams = rep(params)
        do_init = lambda: init(rparams)  # noqa: E731
        upd = lambda g, s: upd_p(rep(g), s, rparams)  # noqa: E731
        first = lambda u: {n: np.asarray(u[n])[0] for n in names}  # noqa: E731
    elif mode == "sharded":
        do_init = lambda: opt.init(None).init_fn(params)  # noqa: E731
        upd_j = jax.jit(opt.update)
        upd = lambda g, s: upd_j(g, s, params)  # noqa: E731
        first = lambda u: {n: np.asarray(u[n]) for n in names}  # noqa: E731
    else:
        do_init = lambda: opt.init(params)  # noqa: E731
        upd_j = jax.jit(opt.update)
        upd = lambda g, s: upd_j(g, s, params)  # noqa: E731
        first = lambda u: {n: np.asarray(u[n]) for n in names}  # noqa: E731
    cm = mesh if mesh is not None else contextlib.nullcontext()
    out = []
    cfg = {k: v for k, v in c.items() if k != "histories"}
    with cm:
        for h in c["histories"]:
            case = dict(cfg, **h)
            rs = np.random.RandomState(h["gseed"] % (2 ** 31))
            state = do_init()
            cnt0, v0 = _view(c, state, names)
            init_errs = [(_f32hex(s["err"]) if s["err"] is not None else None) for s in v0]
            steps, fails = [], []
            moderate = True
            s_ref = [np.asarray(s["Sdense"], np.float64) for s in v0]   # statistics when the stored value last changed bitwise
            for t, kind in enumerate(h["kinds"][:c["T"]]):
                g = {}
                for n in names:
                    hit = h["target"] == "all" or h["target"] == n
                    g[n] = jnp.asarray(_grad(kind if hit else "ok", shapes[n], rs))
                if kind not in MODERATE and kind != "rank1":
                    moderate = False
                u, state = upd(g, state)
                cnt1, v1 = _view(c, state, names)
                uu = first(u)
                upd_finite = all(bool(np.isfinite(uu[n]).all()) for n in names)
                st = {"count": cnt0, "upd_finite": upd_finite, "moderate": moderate, "slots": []}
                # ---------------- direct oracle (the property, on the real state)
                if cnt1 != cnt0 + 1 or cnt0 != t:
                    fails.append(f"step {t}: count {cnt0} -> {cnt1}")
                refresh = (t % c["pi"] == 0)
                if moderate and not upd_finite:
                    bad = [n for n in names if not np.isfinite(uu[n]).all()]
                    fails.append(f"step {t}: update of {bad} is not finite although every gradient so far was zero or of magnitude 1e-12..1e12")
                for si, (a, b) in enumerate(zip(v0, v1)):
                    same = [_bits(x) == _bits(y) for x, y in zip(a["P"], b["P"])]
                    fin = _finite_leaves([l for l in b["P"] if l.dtype.kind == "f"] + [b["dense"]])
                    err = b["err"]
                    sn = np.asarray(b["Sdense"], np.float64)
                    with np.errstate(all="ignore"):
                        den = np.linalg.norm(sn)
                        srel = float(np.linalg.norm(sn - s_ref[si]) / den) if (np.isfinite(den) and den > 0) else float("nan")
                    if not all(same):
                        s_ref[si] = sn
                    rec = {"owner": b["owner"], "k": b["k"], "same": same, "finite": fin, "srel": srel,
                           "err": _f32hex(err) if err is not None else None,
                           "stats_finite": _finite_leaves([l for l in b["S"] if l.dtype.kind == "f"])}
                    st["slots"].append(rec)
                    tag = f"step {t}: slot {si} ({b['owner']}[{b['k']}])"
                    if not fin:
                        fails.append(f"{tag}: stored preconditioner is not finite")
                    # the "no refresh" sentinel (statistics slice, error = threshold) must never be stored: on a non-refresh step
                    # the slot is not the raw statistics (unless the statistics are their own inverse root: idempotent, e.g. 0 or I)
                    if not refresh and b["owner"] is not None:
                        sent = all(x.shape[0] == y.shape[0] and np.array_equal(x, y[tuple(slice(0, d) for d in x.shape)])
                                   for x, y in zip(b["P"], b["S"]))
                        sd = np.asarray(b["Sdense"], np.float64)
                        with np.errstate(all="ignore"):
                            idem = bool(np.linalg.norm(sd @ sd - sd) <= 1e-3 * np.linalg.norm(sd)) if np.isfinite(sd).all() else False
                        rec["sentinel_equal"] = bool(sent)
                        if sent and not idem:
                            fails.append(f"{tag}: non-refresh step ({t} % {c['pi']} != 0) but the stored preconditioner equals the raw "
                                         "statistics slice (the efficient_cond sentinel was accepted)")
                    if not all(same):
                        if not refresh:
                            fails.append(f"{tag}: preconditioner changed on a non-refresh step ({t} % {c['pi']} != 0)")
                        elif err is not None:
                            e32 = np.float32(err)
                            if not np.isfinite(e32):
                                fails.append(f"{tag}: preconditioner replaced although the reported error is {e32}")
                            elif not (e32 < thr32):
                                fails.append(f"{tag}: preconditioner replaced although the reported error {e32} is not below the threshold {thr32}")
                steps.append(st)
                cnt0, v0 = cnt1, v1
            out.append({"case": case, "steps": steps, "fails": fails, "init_errs": init_errs})
    return out


def _np_checks(task):
    """IEEE semantics of the XF model vs numpy (float64), exact."""
    import numpy as np
    out = []
    with np.errstate(all="ignore"):
        for a, b in task["pairs"]:
            x, y = np.float64(kit.hex_f64(a)), np.float64(kit.hex_f64(b))
            out.append({"a": a, "b": b, "add": kit.f64_hex(x + y), "sub": kit.f64_hex(x - y), "mul": kit.f64_hex(x * y),
                        "ge": bool(x >= y), "lt": bool(x < y), "isnan": bool(np.isnan(x)), "isfinite": bool(np.isfinite(x))})
    bl = []
    import jax.numpy as jnp
    for e, thr, o, n in task["blends"]:
        e32, t32 = kit.hex_f32(e), kit.hex_f32(thr)
        pred = np.float64(bool(jnp.logical_or(jnp.isnan(e32), jnp.asarray(e32) >= jnp.asarray(t32))))
        ov, nv = np.float64(kit.hex_f64(o)), np.float64(kit.hex_f64(n))
        with np.errstate(all="ignore"):
            ar = pred * ov + (1.0 - pred) * nv
        sel = np.where(pred != 0, ov, nv)
        bl.append({"err": e, "thr": thr, "old": o, "new": n, "pred": bool(pred), "arith": kit.f64_hex(ar), "select": kit.f64_hex(sel)})
    return [{"case": {"kind": "ieee"}, "arith": out, "blend": bl, "fails": []}]


def _xla_flags():
    """On a heavily loaded machine a device thread of a CPU pmap can be starved for longer than XLA's default 40 s collective
    rendezvous limit, which aborts the worker process (infrastructure error, exit 2). Raise the limits before jax initialises."""
    fl = os.environ.get("XLA_FLAGS", "")
    if "xla_cpu_collective_call_terminate_timeout_seconds" not in fl:
        os.environ["XLA_FLAGS"] = (fl + " --xla_cpu_collective_call_terminate_timeout_seconds=1800"
                                   " --xla_cpu_collective_call_warn_stuck_timeout_seconds=600"
                                   " --xla_cpu_collective_timeout_seconds=1800").strip()


def worker(task):
    import warnings
    warnings.filterwarnings("ignore")
    _xla_flags()
    try:
        if task["kind"] == "ds":
            return _run_config(task)
        if task["kind"] == "ieee":
            return _np_checks(task)
        raise ValueError(task["kind"])
    except Exception as e:  # noqa: BLE001
        import traceback
        return [{"case": {k: v for k, v in task.items() if k not in ("histories", "pairs", "blends")},
                 "exception": type(e).__name__ + ": " + str(e)[:300], "trace": traceback.format_exc()[-1500:], "fails": []}]
    finally:
        try:
            import jax
            jax.clear_caches()
        except Exception:  # noqa: BLE001
            pass


# ============================================================================ model requests / comparison
def _model_mode(o):
    """selector the model uses: three parallel selects only when the stored value really is a quantized triple
    (compression_rank / frequent_directions disable second-moment quantization: pmap then takes the replicated gate)"""
    c = o["case"]
    if c["mode"] == "pmapq":
        return "quantized" if len(o["steps"][0]["slots"][0]["same"]) == 3 else "replicated"
    return c["mode"]


def _reuse(c):
    return bool((c.get("variant") or {}).get("fd"))


def _reset_freq(c):
    b2 = (c.get("variant") or {}).get("reset")
    return int(round(1 / (1 - b2))) if b2 else 0


def _hex32_fraction(h):
    import math
    v = float(kit.hex_f32(h))
    if math.isnan(v):
        return {"cls": "nan"}
    if math.isinf(v):
        return {"cls": "pinf" if v > 0 else "ninf"}
    return {"cls": "fin", "q": kit.rat_str(Fraction(v))}


def _hex64_xf(h):
    import math
    v = kit.hex_f64(h)
    if math.isnan(v):
        return {"cls": "nan"}
    if math.isinf(v):
        return {"cls": "pinf" if v > 0 else "ninf"}
    return {"cls": "fin", "q": kit.rat_str(Fraction(v))}


def model_requests(o):
    c = o["case"]
    if "exception" in o:
        return []
    if c["kind"] == "ieee":
        reqs = [{"op": "xf_arith", "a": r["a"], "b": r["b"]} for r in o["arith"]]
        reqs += [{"op": "blend", "err": r["err"], "thr": r["thr"], "old": r["old"], "new": r["new"]} for r in o["blend"]]
        reqs += [{"op": "gate", "err": r["err"], "thr": r["thr"]} for r in o["blend"]]
        return reqs
    reqs = []
    thr = kit.f32_hex(c["thr"])
    nslot = len(o["init_errs"])
    owned = [k for k in range(nslot) if o["init_errs"][k] is not None]
    # the whole state at once (`stateRun`: all slots driven by one counter) ...
    reqs.append({"op": "state_trace", "mode": _model_mode(o), "thr": thr, "itv": c["pi"], "reuse": _reuse(c),
                 "init_errs": [o["init_errs"][k] for k in owned],
                 "errs": [[st["slots"][k]["err"] for k in owned] for st in o["steps"]]})
    # ... and slot 0 alone through `slotStep` (the two must agree)
    if owned:
        reqs.append({"op": "slot_trace", "mode": _model_mode(o), "thr": thr, "itv": c["pi"], "reuse": _reuse(c), "reset": _reset_freq(c),
                     "init_err": o["init_errs"][owned[0]], "errs": [st["slots"][owned[0]]["err"] for st in o["steps"]]})
    # decoding of every observed error and of the threshold
    allb = sorted({st["slots"][k]["err"] for st in o["steps"] for k in range(nslot) if st["slots"][k]["err"] is not None} | {thr})
    reqs.append({"op": "xf_decode", "bits32": allb})
    return reqs


def compare(ctx, o, replies):
    c = o["case"]
    if "exception" in o:
        ctx.disagree("runs", c, o["exception"], "no exception", o.get("trace", "")[-600:])
        return
    if c["kind"] == "ieee":
        na = len(o["arith"])
        for r, m in zip(o["arith"], replies[:na]):
            for f in ("add", "sub", "mul"):
                ok = _hex64_xf(r[f]) == m.get(f)
                # XF is exact: only compare where the float result is exact (inputs are small dyadics / specials)
                ctx.corr("xf." + f, ok)
                if not ok:
                    ctx.disagree("xf." + f, {"a": r["a"], "b": r["b"]}, _hex64_xf(r[f]), m.get(f))
            for f in ("ge", "lt", "isnan", "isfinite"):
                ok = r[f] == m.get(f)
                ctx.corr("xf." + f, ok)
                if not ok:
                    ctx.disagree("xf." + f, {"a": r["a"], "b": r["b"]}, r[f], m.get(f))
        nb = len(o["blend"])
        for r, m in zip(o["blend"], replies[na + nb:]):
            # `_skip` as jnp evaluates it (float32) vs the model, and the selectors of the three modes on tokens
            v = 0 if r["pred"] else 1
            import math
            thr_nan = math.isnan(float(kit.hex_f32(r["thr"])))
            want = {"skip": r["pred"], "select": v, "triple": [v, v, v], "where": [v, v],
                    "sharded": [[v, v], [11, 11] if thr_nan else [10, 10]]}
            got = {k2: m.get(k2) for k2 in want}
            ok = got == want
            ctx.corr("gate.skip_and_selectors", ok)
            if not ok:
                ctx.disagree("gate.skip_and_selectors", {"err": r["err"], "thr": r["thr"]}, want, got)
        for r, m in zip(o["blend"], replies[na:na + nb]):
            for f in ("arith", "select"):
                ok = _hex64_xf(r[f]) == m.get(f)
                ctx.corr("blend." + f, ok)
                if not ok:
                    ctx.disagree("blend." + f, r, _hex64_xf(r[f]), m.get(f))
            okf = _hex64_xf(r["arith"]) == _hex64_xf(m.get("arith_float", "0x0"))
            ctx.corr("blend.arith_float", okf)
            if not okf:
                ctx.disagree("blend.arith_float", r, r["arith"], m.get("arith_float"))
            if r["arith"] != r["select"] and _hex64_xf(r["arith"]) != _hex64_xf(r["select"]):
                ctx.dist("blend.arith_differs_from_select")
        return
    mode = c["mode"]
    vkind = "".join(sorted((c.get("variant") or {}).keys()))
    pre = "gate." + mode + ("." + vkind if vkind else "")
    nslot = len(o["init_errs"])
    owned = [k for k in range(nslot) if o["init_errs"][k] is not None]
    dec = replies[-1]
    thr = kit.f32_hex(c["thr"])
    allb = sorted({st["slots"][k]["err"] for st in o["steps"] for k in owned} | {thr})
    for b, m in zip(allb, dec.get("v32", [])):
        ok = _hex32_fraction(b) == m
        ctx.corr("xf.decode32", ok)
        if not ok:
            ctx.disagree("xf.decode32", {"bits": b}, _hex32_fraction(b), m)
    steps_all = replies[0].get("steps")
    if steps_all is None or (owned and replies[1].get("steps") is None):
        ctx.disagree(pre + ".driver", c, None, replies[0])
        return
    if owned:
        ok = [st["slots"][0] for st in steps_all] == [{k2: v for k2, v in st.items() if k2 != "perform"} for st in replies[1]["steps"]]
        ctx.corr("model.stateRun_vs_slotRun", ok)
        if not ok:
            ctx.disagree("model.stateRun_vs_slotRun", c, None, None, "state_trace slot 0 differs from slot_trace")
    for ri, k in enumerate(owned):
        ms = [dict(st["slots"][ri], perform=st["perform"]) for st in steps_all]
        owner = o["steps"][0]["slots"][k]["owner"]
        only_ok = True                        # every gradient of the owner so far was O(1) or zero
        for t, (st, m) in enumerate(zip(o["steps"], ms)):
            s = st["slots"][k]
            kind = c["kinds"][t] if (c["target"] in ("all", owner)) else "ok"
            if kind not in ("ok", "zero"):
                only_ok = False
            same = all(s["same"])
            # stored error: the root's error on refresh steps, the previous one otherwise
            ok = _hex32_fraction(s["err"]) == m["err"]
            ctx.corr(pre + ".stored_error", ok)
            if not ok:
                ctx.disagree(pre + ".stored_error", c, s["err"], m["err"], f"step {t} slot {k}")
            if m["kept"]:
                ctx.corr(pre + ".kept_is_bitwise_equal", same)
                if not same:
                    ctx.disagree(pre + ".kept_is_bitwise_equal", c, {"same": s["same"], "err": s["err"]}, "kept (all leaves bitwise equal)",
                                 f"step {t} slot {k} perform={m['perform']}")
                if m["perform"]:
                    ctx.nontrivial((mode, str(c.get("variant")), c["thr"], c["eps"], c["eigh"], c["pi"], "rejected", s["err"], t, k, tuple(c["kinds"][:t + 1])))
                    ctx.dist(pre + ".rejected." + m["err"]["cls"])
            else:
                if not same:
                    ctx.corr(pre + ".replaced_is_bitwise_different", True)
                    ctx.nontrivial((mode, str(c.get("variant")), c["thr"], c["eps"], c["eigh"], c["pi"], "replaced", s["err"], t, k, tuple(c["kinds"][:t + 1])))
                    if mode == "pmapq" and not all(not x for x in s["same"]):
                        ctx.dist(pre + ".replaced.some_leaf_bit_equal")
                elif only_ok and kind == "ok" and s["stats_finite"] and s["srel"] == s["srel"] and s["srel"] >= 0.05:
                    ctx.disagree(pre + ".replaced_is_bitwise_different", c, "bitwise equal",
                                 "replaced (error below threshold, statistics moved >= 5% under O(1) gradients)",
                                 f"step {t} slot {k} err={s['err']} srel={s['srel']}")
                else:
                    ctx.dist(pre + ".inconclusive_replaced_but_bit_equal")


# ============================================================================ stages
def const_stage(ctx):
    thr = consts.func_default("distributed_shampoo.py", "distributed_shampoo", "inverse_failure_threshold")
    if not isinstance(thr, (int, float)) or thr != thr:
        ctx.const_fail("thr_not_nan", f"inverse_failure_threshold default {thr!r}: gate_spec / nonrefresh_keeps_old assume a non-NaN threshold")
    ctx.cov["constants"] = {"inverse_failure_threshold_default": thr}


def _ieee_task(rng):
    import math
    vals = [0.0, -0.0, 1.0, -1.0, 0.5, 2.0, -3.0, 0.1, 1e30, -1e30, 1e-30, 5e-324, 1.5, float("inf"), float("-inf"), float("nan")]
    dy = [0.0, 1.0, -1.0, 0.5, 2.0, -3.0, 1.5, 0.25, -0.75, 1024.0, float("inf"), float("-inf"), float("nan")]
    pairs = [(kit.f64_hex(a), kit.f64_hex(b)) for a in dy for b in dy]
    # comparisons only need exact decoding: add non-dyadic-friendly magnitudes through ge/lt (arith stays exact: x op 0 / x op inf)
    pairs += [(kit.f64_hex(a), kit.f64_hex(b)) for a in vals for b in (0.0, float("inf"), float("-inf"), float("nan"))]
    e32 = [0.0, 1e-30, 0.1, 0.099999994, 0.10000001, 1e30, 3.4e38, 1e-45, float("inf"), float("-inf"), float("nan"), -1.0, 1e-7]
    blends = []
    for e in e32:
        for thr in THRS + [float("inf")]:
            for o, n in [(1.0, float("nan")), (1.0, float("inf")), (2.0, 3.0), (float("nan"), 1.0), (0.0, float("-inf")), (-1.5, 0.25)]:
                blends.append((kit.f32_hex(e), kit.f32_hex(thr), kit.f64_hex(o), kit.f64_hex(n)))
    assert not math.isnan(0.0)
    return {"kind": "ieee", "pairs": pairs, "blends": blends}


def _task_tag(t):
    return t["kind"] + ("." + t["mode"] if "mode" in t else "")


def _dev_filter(ctx, tasks):
    """Builder aid for mutation experiments: C03_ONLY=ds.sharded,... keeps only those task families, C03_MAXTASKS=n the first n
    of each. Recorded in the evidence so that a filtered run cannot pass for a full one."""
    only, cap = os.environ.get("C03_ONLY"), os.environ.get("C03_MAXTASKS")
    if not only and not cap:
        return tasks
    keep, seen = [], {}
    for t in tasks:
        tag = _task_tag(t)
        if only and tag not in only.split(","):
            continue
        seen[tag] = seen.get(tag, 0) + 1
        if cap and seen[tag] > int(cap):
            continue
        keep.append(t)
    ctx.notes.append(f"DEV FILTER ACTIVE (C03_ONLY={only}, C03_MAXTASKS={cap}): {len(keep)} of {len(tasks)} tasks run")
    ctx.cov["dev_filter"] = {"only": only, "max": cap}
    return keep


def worker_timed(task):
    import time
    t0 = time.time()
    r = worker(task)
    return time.time() - t0, r


def _run_pool(tasks, nproc):
    """kit.parallel_map with hang detection: a worker that is still running long after every other task has finished
    (a LAPACK SVD on garbage input can spin for ever, seen with a mutated gate under frequent directions) is killed and
    reported as `hung` instead of blocking the whole check until the global wall-clock limit (exit 2)."""
    import concurrent.futures as cf
    import multiprocessing as mp
    import time
    envd = {k: v for k, v in kit.worker_env(8).items() if k in ("JAX_PLATFORMS", "OMP_NUM_THREADS", "TF_CPP_MIN_LOG_LEVEL", "XLA_FLAGS")}
    ex = cf.ProcessPoolExecutor(max_workers=nproc, mp_context=mp.get_context("spawn"), initializer=kit._pool_init, initargs=(envd,))
    futs = [ex.submit(worker_timed, t) for t in tasks]
    results = [None] * len(tasks)
    longest, last_done, pending = 1.0, time.time(), set(range(len(tasks)))
    try:
        while pending:
            done, _ = cf.wait([futs[i] for i in pending], timeout=5, return_when=cf.FIRST_COMPLETED)
            for f in done:
                i = futs.index(f)
                el, r = f.result()
                results[i] = r
                longest = max(longest, el)
                pending.discard(i)
                last_done = time.time()
            # only stragglers left (fewer than the pool size, so each has had a process of its own since `last_done`)
            if pending and len(pending) < nproc and time.time() - last_done > max(240.0, 12.0 * longest):
                for i in pending:
                    cfg = {k: v for k, v in tasks[i].items() if k not in ("histories", "pairs", "blends")}
                    results[i] = [{"case": cfg, "hung": round(time.time() - last_done), "fails": []}]
                for pr in list(getattr(ex, "_processes", {}).values()):
                    try:
                        pr.kill()
                    except Exception:  # noqa: BLE001
                        pass
                break
    finally:
        ex.shutdown(wait=False, cancel_futures=True)
    return results


def execute(ctx, tasks):
    # longest first (pmap and thorough subset sweeps), so that the pool drains evenly
    order = sorted(range(len(tasks)), key=lambda i: -(len(tasks[i].get("histories", [])) * (3 if tasks[i].get("mode") == "pmapq" else 1)))
    results = _run_pool([tasks[i] for i in order], nproc=min(14, int(os.environ.get("C03_NPROC", "14"))))
    hung = [o for grp in results for o in grp if "hung" in o]
    obs = [o for grp in results for o in grp if "hung" not in o]
    reqs, spans = [], []
    for o in obs:
        rq = model_requests(o)
        spans.append((len(reqs), len(reqs) + len(rq)))
        reqs.extend(rq)
    replies = ctx.driver(reqs) if reqs else []
    for o, (a, b) in zip(obs, spans):
        c = o["case"]
        if c["kind"] == "ieee":
            n = len(o.get("arith", [])) + len(o.get("blend", []))
        else:
            n = sum(len(st["slots"]) for st in o.get("steps", [])) or 1
        ctx.evaluated(n)
        ctx.cov["search_evaluations"] += n
        ctx.dist("cases." + c["kind"] + ("." + c["mode"] if "mode" in c else "") + (".corpus" if c.get("corpus") else ""))
        if c["kind"] == "ds" and "steps" in o:
            for kd in set(c["kinds"]):
                ctx.dist("fault." + kd)
            ctx.dist(f"thr.{c['thr']}")
            ctx.dist(f"eps.{c['eps']}")
            ctx.dist("root." + ("eigh" if c["eigh"] else "newton"))
            ctx.dist(f"interval.{c['pi']}")
            ctx.dist("variant." + (",".join(f"{k2}={v2}" for k2, v2 in (c.get("variant") or {}).items()) or "plain"))
            ctx.dist("sentinel_checked_steps", sum(1 for st in o["steps"] for sl in st["slots"] if "sentinel_equal" in sl))
            nmod = sum(1 for st in o["steps"] if st["moderate"])
            ctx.dist("update_finite_clause_steps", nmod)
            ctx.dist("unowned_padding_slots", sum(1 for e in o["init_errs"] if e is None))
        compare(ctx, o, replies[a:b])
        for f in o["fails"][:5]:
            ctx.violation(f, c)
    if hung:
        # a hang alone is an infrastructure outcome (exit 2); next to real violations it is reported with them
        if not ctx.violations and not ctx.stage_failures:
            raise kit.InfraError(f"{len(hung)} worker task(s) did not finish: {hung[0]['case']}")
        for o in hung:
            ctx.disagree("runs.terminates", o["case"], f"worker still running {o['hung']} s after every other task had finished", "terminates")
    return obs


def run(ctx):
    ctx.lean_stage(extra_props=("Compose",))   # + PrecondVerif.ComposeProps.C03.* (gate x schedule x Newton root, Props/Compose.lean)
    const_stage(ctx)
    rng = random.Random(ctx.seed)
    tasks = corpus_tasks() + gen_tasks(ctx.tier, ctx.seed) + [_ieee_task(rng)]
    ctx.cov["rule"] = (
        "configurations: quick = every (mode, threshold, Newton/eigh) with two of three matrix_epsilon values, refresh interval, shapes (incl. 1x1 statistics, "
        "rank-1 leaves, several blocks) and graft type rotating with the seed; thorough = full grid mode x threshold x epsilon x root x "
        "interval; per configuration random fault histories (fault kinds nan/+inf/-inf/0/1e30/1e-30/1e12/1e-12/one NaN entry/one Inf entry "
        "on one or all parameters), moderate-only histories, and in thorough all 256 subsets of 8 steps for one fault kind; corpus = the "
        "witnesses of the three repaired C03 defects in all modes. evaluations = (step, slot) pairs whose stored preconditioner was "
        "diffed bitwise and checked by the oracle (+ IEEE/blend cases). A non-trivial case is a distinct (mode, threshold, epsilon, root, "
        "interval, history prefix, step, slot, reported error) at which a refresh was due and the gate either rejected the root "
        "(slot observed bitwise unchanged) or accepted it (slot observed bitwise changed).")
    ctx.assumptions += [
        "comparison policy EXACT: gate decision, stored error (float32 bit pattern decoded exactly to XF), bitwise equality of stored leaves",
        "the threshold is compared in float32 (weak-typed Python scalar against a float32 array; x64 disabled)",
        "a replaced-but-bit-equal slot is inconclusive unless the owner's gradients so far were O(1)/zero, this step's gradient is O(1) and "
        "the statistics moved by >= 5% (relative Frobenius norm) since the stored value last changed (then the candidate must differ: disagreement)",
        "XF arithmetic is exact (no rounding, no signed zero): compared with numpy only on dyadic inputs and specials",
        "the update-finite clause is evaluated on steps up to which every gradient was zero or of magnitude 1e-12..1e12 "
        "(after a non-finite or 1e30 gradient the momentum itself is non-finite; the property does not claim otherwise)",
        "unowned padding slots of the sharded global state (num_devices_for_pjit > 1) report no error: only finiteness and "
        "non-refresh immutability are checked for them",
    ]
    tasks = _dev_filter(ctx, tasks)
    obs = execute(ctx, tasks)
    picked = 0
    for o in obs:
        if "steps" in o and picked < 5 and any(k in ("nan", "nan1", "pinf") for k in o["case"]["kinds"]):
            ctx.sample({"case": o["case"], "steps": [{"slots": [{k: v for k, v in s.items() if k in ("owner", "k", "same", "err", "finite")}
                                                               for s in st["slots"]], "upd_finite": st["upd_finite"]} for st in o["steps"][:4]]})
            picked += 1


def replay(ctx, data):
    cases = [v["case"] for v in data.get("violations", [])]
    cases += [s["detail"]["case"] for s in data.get("stage_failures", [])
              if isinstance(s.get("detail"), dict) and isinstance(s["detail"].get("case"), dict)]
    tasks, seen = [], set()
    for c in cases:
        if c.get("kind") != "ds":
            continue
        key = repr(sorted(c.items(), key=lambda kv: kv[0]))
        if key in seen:
            continue
        seen.add(key)
        t = {k: v for k, v in c.items() if k not in ("kinds", "target", "gseed")}
        t["histories"] = [{"kinds": c["kinds"], "target": c["target"], "gseed": c["gseed"]}]
        tasks.append(t)
    ctx.cov["rule"] = "replay of recorded cases"
    execute(ctx, tasks)
