"""C04 — statistics / preconditioner refresh and warm-up follow the configured schedule.

Correspondence (K): the real optimizers (Distributed Shampoo replicated + sharded, Tearfree Shampoo,
Tearfree Sketchy, all wrapped as the user would use them, under jit) are run over grids of
(statistics interval, preconditioner interval, start step) with random non-zero gradients; successive
states are diffed leaf by leaf BITWISE and the changed/unchanged pattern, the step counters, the gate
outcome, "which statistics the preconditioner reflects", "which preconditioner the update uses" and
the warm-up selection are compared with the token run of the Lean automaton (`Model/Schedule.lean`,
driver ops `ds_trace`, `tf_trace`, `sk_trace`, `schedule`) — policy EXACT. A refreshed-but-bit-equal
leaf is counted as inconclusive, never as agreement.

Search oracle (S), independent of the Lean model: the property text coded directly in the worker
(`t % si != 0` ⇒ statistics bit-identical, `t % interval_t != 0` ⇒ preconditioners and metrics
bit-identical, interval ≥ 1, count + 1, refreshed preconditioner is the root of the CURRENT statistics
and not of the previous ones, updates before the start step equal the graft-only run of the same
optimizer and the stored graft momentum, from the start step on they are the preconditioned momentum).
"""
import math
import random
from fractions import Fraction

from harness import kit, consts

HUGE_START = 1_000_000
GRAFTS = ["SGD", "RMSPROP", "ADAGRAD", "RMSPROP_NORMALIZED"]


# ============================================================================ case generation
def _T(si, pi, start, cap=24):
    l = si * pi // math.gcd(si, pi)
    return int(min(cap, max(2 * l, start + 3, 6)))


def _shapes(rng):
    return rng.choice([[[3, 2]], [[2, 3]], [[2, 2], [3, 2]], [[4, 2]], [[3, 3]], [[2, 4], [2, 2]]])


def _sched_table(rng, T):
    """piecewise-constant dyadic decay factors lr(t)/lr(0); includes warm-up style ratios > 1."""
    levels = rng.choice([
        [1, Fraction(1, 2), Fraction(1, 4), 0],
        [1, Fraction(3, 4), Fraction(1, 2), Fraction(1, 4)],
        [1, 2, 1, Fraction(1, 2)],
        [1, 1, Fraction(1, 2), Fraction(1, 8)],
        [1, Fraction(7, 8), Fraction(5, 8), Fraction(3, 8), Fraction(1, 8)],
    ])
    seg = max(1, T // len(levels))
    return [levels[min(t // seg, len(levels) - 1)] for t in range(T)]


def gen_tasks(tier, seed):
    rng = random.Random(seed * 7919 + 11)
    tasks = []
    n = 4 if tier == "quick" else 8
    all_starts = list(range(1, n + 1)) if tier == "quick" else list(range(0, n + 1))

    def starts_for(a, b):
        # quick: two start steps per (interval, interval) cell laid out as two Latin squares, so that every
        # (statistics interval, start) and (preconditioner interval, start) pair occurs; thorough: the full cube
        if tier != "quick":
            return all_starts
        return sorted({(a + b + seed) % n + 1, (a + 2 * b + seed + 1) % n + 1})
    gid = 0
    # ---- Distributed Shampoo, fixed intervals, replicated and sharded
    for mode in ["replicated", "sharded"]:
        for si in range(1, n + 1):
            for pi in range(1, n + 1):
                gid += 1
                stress = rng.random() < 0.25
                starts = starts_for(si, pi)
                tasks.append({
                    "kind": "ds", "mode": mode, "si": si, "pi": pi, "sched": None, "starts": starts,
                    "T": max(_T(si, pi, s) for s in starts), "shapes": _shapes(rng), "gseed": seed * 100003 + gid,
                    "graft": rng.choice(GRAFTS), "beta1": rng.choice([0.9, 0.5]), "mavg": rng.random() < 0.5,
                    "thr": 2e-7 if stress else 0.1, "lr": rng.choice([0.125, 1.0, 0.5])})
    # ---- Distributed Shampoo, learning-rate scheduled interval
    nsched = 3 if tier == "quick" else 14
    for mode in ["replicated", "sharded"]:
        for k in range(nsched):
            gid += 1
            T = 36 if tier == "quick" else 46
            # for the start-interval-1 case the schedule must actually leave 1: e >= 30 reaches 10 at lr ratio <= 0.7
            e = rng.choice([30, 40, 45]) if k == 0 else rng.choice([10, 20, 30, 40, 45])
            # the configured start interval 1 is a code path of its own (`steps == 1` shortcut of the refresh helper while the
            # schedule may already ask for 10, 20, ...): always covered by the first scheduled case of each mode
            s = 1 if k == 0 else rng.choice([1, 2, 3, 4, 7, 10, 12])
            tab = _sched_table(rng, T)
            tasks.append({
                "kind": "ds", "mode": mode, "si": 1 if k == 0 else rng.choice([1, 1, 2, 3]), "pi": s,
                "sched": {"s": s, "e": e, "decay": [str(x) for x in tab]},
                "starts": [rng.choice([0, 1, 3, 11])], "T": T, "shapes": _shapes(rng), "gseed": seed * 100003 + gid,
                "graft": rng.choice(GRAFTS), "beta1": 0.9, "mavg": False, "thr": 0.1, "lr": 0.125})
    # ---- Tearfree Shampoo
    for sf in range(1, n + 1):
        for pf in range(1, n + 1):
            gid += 1
            starts = starts_for(sf, pf)
            tasks.append({"kind": "tfsh", "sf": sf, "pf": pf, "starts": starts,
                          "T": max(_T(sf, pf, s) for s in starts), "gseed": seed * 100003 + gid,
                          "graft": rng.choice(["SGD", "SGD", "RMSPROP"]),
                          "shape": rng.choice([[4, 2], [2, 2], [4, 4], [2, 6]]), "block": 2,
                          "merge_dims": rng.choice([2, 2, 3])})
    # ---- Tearfree Sketchy (no x64)
    for f in range(1, n + 1):
        gid += 1
        starts = all_starts
        tasks.append({"kind": "sk", "f": f, "starts": starts, "T": max(_T(f, 1, s) for s in starts),
                      "gseed": seed * 100003 + gid, "graft": rng.choice(["SGD", "RMSPROP"]),
                      "shape": rng.choice([[4, 3], [3, 3], [5, 2]]), "rank": rng.choice([1, 2])})
    # ---- the schedule function itself
    sf_cases = []
    for _ in range(60 if tier == "quick" else 400):
        s = rng.choice([0, 1, 2, 5, 9, 10, 11, 19, 20, 25, 100])
        e = rng.choice([0, 1, 9, 10, 16, 20, 40, 64, 100, 1000])
        ds_ = [Fraction(rng.randint(0, 48), rng.choice([1, 2, 4, 8, 16])) for _ in range(6)]
        sf_cases.append({"s": s, "e": e, "decay": [str(x) for x in ds_]})
    tasks.append({"kind": "schedfn", "cases": sf_cases})
    return tasks


# ============================================================================ worker (real code)
def _bits(a):
    import numpy as np
    return np.ascontiguousarray(np.asarray(a)).tobytes()


def _relerr(a, b):
    import numpy as np
    a = np.asarray(a, np.float64)
    b = np.asarray(b, np.float64)
    d = np.linalg.norm(b)
    if not np.isfinite(a).all() or not np.isfinite(b).all():
        return float("inf")
    return float(np.linalg.norm(a - b) / d) if d > 0 else float(np.linalg.norm(a - b))


def _grads(c, shapes, names):
    import numpy as np
    import jax.numpy as jnp
    rs = np.random.RandomState(c["gseed"] % (2 ** 31))
    out = []
    for _ in range(c["T"]):
        out.append({n: jnp.asarray(rs.randn(*s).astype(np.float32)) for n, s in zip(names, shapes)})
    return out


class _DSView:
    """Uniform access to the per-slot / per-parameter pieces of a Distributed Shampoo state."""

    def __init__(self, state, names, sharded):
        import numpy as np
        import jax
        self.count = int(state.count)
        self.S, self.P, self.M, self.mom, self.dmom, self.owner = [], [], [], {}, {}, []
        self.sizes, self.err = [], []
        for n in names:
            if sharded:
                loc = state.stats.local_stats[n]
                g = state.stats.global_stats
                i0 = int(loc.index_start)
                sizes = [int(x) for x in loc.sizes]
                Ss = [np.asarray(g.statistics[i0 + k]) for k in range(len(sizes))]
                Ps = [np.asarray(g.preconditioners[i0 + k]) for k in range(len(sizes))]
            else:
                loc = state.stats[n]
                Ss = [np.asarray(x) for x in loc.statistics]
                Ps = [np.asarray(x) for x in loc.preconditioners]
                sizes = [x.shape[0] for x in Ss]
            self.sizes += sizes
            leaves = [np.asarray(x) for x in jax.tree_util.tree_leaves(loc.training_metrics)]
            for k in range(len(Ss)):
                self.S.append(Ss[k])
                self.P.append(Ps[k])
                self.M.append([(l.reshape(len(Ss), -1)[k] if (l.ndim >= 1 and l.shape[0] == len(Ss)) else l) for l in leaves])
                self.owner.append((n, k))
            self.mom[n] = np.asarray(loc.momentum.to_float())
            self.dmom[n] = np.asarray(loc.diagonal_momentum.to_float())
            errs = np.asarray(loc.training_metrics.inverse_pth_root_errors).reshape(-1)
            self.err += [float(x) for x in errs[:len(Ss)]]


def _ds_build(c, start):
    import numpy as np
    import jax
    import jax.numpy as jnp
    from jax.sharding import Mesh, PartitionSpec as P
    from precondition import distributed_shampoo as ds
    sharded = c["mode"] == "sharded"
    sched = c["sched"]
    if sched:
        tab = jnp.asarray([float(Fraction(x)) * c["lr"] for x in sched["decay"]], jnp.float32)
        nt = len(sched["decay"])
        lr = lambda step: tab[jnp.minimum(step, nt - 1)]  # noqa: E731
    else:
        lr = c["lr"]
    opt = ds.distributed_shampoo(
        lr, block_size=8, beta1=c["beta1"], beta2=1.0, matrix_epsilon=1e-6,
        start_preconditioning_step=start, preconditioning_compute_steps=c["pi"],
        decay_preconditioning_compute_steps=bool(sched),
        end_preconditioning_compute_steps=(sched["e"] if sched else None),
        statistics_compute_steps=c["si"], best_effort_shape_interpretation=False,
        graft_type=getattr(ds.GraftingType, c["graft"]), nesterov=False, batch_axis_name=None,
        inverse_failure_threshold=c["thr"], moving_average_for_momentum=c["mavg"],
        decoupled_learning_rate=False,
        shard_optimizer_states=sharded,
        statistics_partition_spec=P("x", None, None) if sharded else None,
        preconditioner_partition_spec=P("x", None, None) if sharded else None,
        num_devices_for_pjit=1 if sharded else None)
    mesh = Mesh(np.array(jax.devices()[:1]), ("x",)) if sharded else None
    return opt, mesh, lr


def _ds_run(c, start, params, grads):
    """Runs one configuration; returns list of (update, view_before, view_after)."""
    import contextlib
    import jax
    import numpy as np
    opt, mesh, _lr = _ds_build(c, start)
    names = sorted(params)
    sharded = c["mode"] == "sharded"
    cm = mesh if mesh is not None else contextlib.nullcontext()
    rec = []
    with cm:
        state = opt.init(None).init_fn(params) if sharded else opt.init(params)
        upd = jax.jit(opt.update)
        v0 = _DSView(state, names, sharded)
        for g in grads:
            u, state = upd(g, state, params)
            v1 = _DSView(state, names, sharded)
            rec.append(({n: np.asarray(u[n]) for n in names}, v0, v1))
            v0 = v1
    return rec


_ROOT_CACHE = {}


def _ds_root(S, p):
    import jax
    import jax.numpy as jnp
    from precondition import distributed_shampoo as ds
    key = (S.shape[0], p)
    if key not in _ROOT_CACHE:
        _ROOT_CACHE[key] = jax.jit(lambda s: ds.matrix_inverse_pth_root(s, p, ridge_epsilon=1e-6)[0])
    import numpy as np
    return np.asarray(_ROOT_CACHE[key](jnp.asarray(S)))


def _ds_interval(c, lr, t):
    """interval in force at step t, by the implementation's own schedule function (oracle side)."""
    import jax.numpy as jnp
    from precondition import distributed_shampoo as ds
    if not c["sched"]:
        return float(c["pi"])
    v = ds.preconditioning_compute_steps_schedule(lr, c["pi"], c["sched"]["e"], jnp.asarray(t, jnp.int32))
    return float(v)


def _run_ds_group(c):
    import numpy as np
    import jax.numpy as jnp
    names = [f"p{i}" for i in range(len(c["shapes"]))]
    shapes = {n: tuple(s) for n, s in zip(names, c["shapes"])}
    params = {n: jnp.full(shapes[n], 0.5, jnp.float32) for n in names}
    grads = _grads(c, [shapes[n] for n in names], names)
    sharded = c["mode"] == "sharded"
    ref = _ds_run(c, HUGE_START, params, grads)
    _opt, _mesh, lr = _ds_build(c, 0)
    beta1 = np.float64(np.float32(c["beta1"]))
    out = []
    for start in c["starts"]:
        case = {k: v for k, v in c.items() if k != "starts"}
        case["start"] = start
        T = c["T"]
        rec = _ds_run(c, start, params, grads)
        fails, steps = [], []
        last_due_S = {}
        for t, (u, v0, v1) in enumerate(rec):
            st = {"count": v0.count, "count_after": v1.count}
            if v1.count != v0.count + 1:
                fails.append(f"step {t}: count went {v0.count} -> {v1.count}")
            if v0.count != t:
                fails.append(f"step {t}: count before the update is {v0.count}")
            itv = _ds_interval(c, lr, t)
            st["impl_interval"] = itv
            if not (itv >= 1) or itv != int(itv):
                fails.append(f"step {t}: preconditioner interval in force is {itv} (must be an integer >= 1)")
            stats_due = (t % c["si"] == 0)
            prec_due = (itv >= 1 and t % itv == 0)
            nslot = len(v1.S)
            st["stats"], st["precond_same"], st["metrics_same"], st["accept"], st["reflect"] = [], [], [], [], []
            for k in range(nslot):
                n, ax = v1.owner[k]
                same = _bits(v0.S[k]) == _bits(v1.S[k])
                g = np.asarray(grads[t][n], np.float64)
                contrib = g @ g.T if ax == 0 else g.T @ g
                sz = contrib.shape[0]
                d = np.asarray(v1.S[k], np.float64)[:sz, :sz] - np.asarray(v0.S[k], np.float64)[:sz, :sz]
                tol = 1e-5 * (np.linalg.norm(np.asarray(v1.S[k], np.float64)) + 1e-30)
                kind = "same" if same else ("absorbed" if np.linalg.norm(d - contrib) <= tol else "other")
                st["stats"].append(kind)
                if not stats_due and not same:
                    fails.append(f"step {t}: statistics slot {k} changed although {t} % {c['si']} != 0")
                if stats_due and kind == "other":
                    fails.append(f"step {t}: statistics slot {k} changed by something else than this step's gradient")
                psame = _bits(v0.P[k]) == _bits(v1.P[k])
                msame = all(_bits(a) == _bits(b) for a, b in zip(v0.M[k], v1.M[k]))
                st["precond_same"].append(psame)
                st["metrics_same"].append(msame)
                if not prec_due and not psame:
                    fails.append(f"step {t}: preconditioner slot {k} changed although {t} % {itv} != 0")
                if not prec_due and not msame:
                    fails.append(f"step {t}: metrics of slot {k} changed although {t} % {itv} != 0")
                err = v1.err[k]
                acc = not (math.isnan(err) or err >= np.float32(c["thr"]))
                st["accept"].append(bool(acc))
                refl = None
                if prec_due and acc:
                    sz = v1.sizes[k]
                    p = 2 * len(shapes[n])
                    Pn = np.asarray(v1.P[k])[:sz, :sz]
                    e_new = _relerr(_ds_root(np.asarray(v1.S[k])[:sz, :sz], p), Pn)
                    # statistics seen by the previous ACCEPTED refresh of this slot (they may have moved on earlier
                    # steps that were not preconditioner steps, so v0.S is not enough)
                    prev = last_due_S.get(k)
                    if prev is None or _bits(prev) == _bits(v1.S[k]):
                        refl = {"new": e_new, "old": None}
                    else:
                        e_old = _relerr(_ds_root(np.asarray(prev)[:sz, :sz], p), Pn)
                        refl = {"new": e_new, "old": e_old}
                        if e_old < 1e-3 and e_new > 10 * max(e_old, 1e-6):
                            fails.append(f"step {t}: refreshed preconditioner slot {k} is the root of the statistics of the PREVIOUS "
                                         f"refresh (rel. distance {e_old:.2e}) not of the current ones ({e_new:.2e})")
                    last_due_S[k] = v1.S[k]
                st["reflect"].append(refl)
            # ---- selection and warm-up boundary
            sel, used = [], []
            for n in names:
                eq_s = np.array_equal(u[n], -v1.mom[n])
                eq_g = np.array_equal(u[n], -v1.dmom[n])
                sel.append("both" if (eq_s and eq_g) else "shampoo" if eq_s else "graft" if eq_g else "neither")
                ru, rv1 = ref[t][0][n], ref[t][2]
                if t < start:
                    if not eq_g:
                        fails.append(f"step {t} < start {start}: update of {n} is not the stored graft momentum update")
                    if not np.array_equal(u[n], ru):
                        near = np.allclose(u[n], ru, rtol=1e-5, atol=1e-7)
                        if not near:
                            fails.append(f"step {t} < start {start}: update of {n} differs from the graft-only run")
                        else:
                            st.setdefault("near", 0)
                            st["near"] += 1
                else:
                    if not eq_s:
                        fails.append(f"step {t} >= start {start}: update of {n} is not the preconditioned momentum update")
                    if t == start and np.array_equal(u[n], ru):
                        # only meaningful when the preconditioners in use are not the initial identity any more
                        # (sharded mode at step 0, or every root rejected by a stressed gate, legitimately coincide)
                        ksn = [k for k in range(nslot) if v1.owner[k][0] == n]
                        ident = any(np.array_equal(np.asarray(v.P[k])[:v.sizes[k], :v.sizes[k]], np.eye(v.sizes[k], dtype=np.float32))
                                    for v in (v0, v1) for k in ksn)
                        if ident:
                            st["boundary_identity"] = st.get("boundary_identity", 0) + 1
                        else:
                            fails.append(f"step {t} == start {start}: update of {n} still equals the graft-only run")
                if not np.array_equal(v1.dmom[n], rv1.dmom[n]) and not np.allclose(v1.dmom[n], rv1.dmom[n], rtol=1e-5, atol=1e-7):
                    fails.append(f"step {t}: graft momentum of {n} depends on the preconditioning schedule")
                # which preconditioner entered the Shampoo momentum of this step
                ks = [k for k in range(nslot) if v1.owner[k][0] == n]
                g = np.asarray(grads[t][n], np.float64)
                delta = np.asarray(v1.mom[n], np.float64) - beta1 * np.asarray(v0.mom[n], np.float64)

                def cosd(v):
                    szs = [v.sizes[k] for k in ks]
                    d_ = np.asarray(v.P[ks[0]], np.float64)[:szs[0], :szs[0]] @ g @ np.asarray(v.P[ks[1]], np.float64)[:szs[1], :szs[1]]
                    den = np.linalg.norm(d_) * np.linalg.norm(delta)
                    return float(np.sum(d_ * delta) / den) if den > 0 else float("nan")
                if len(ks) == 2 and np.linalg.norm(delta) > 0:
                    ca, cb = cosd(v1), cosd(v0)
                    changed = any(_bits(v0.P[k]) != _bits(v1.P[k]) for k in ks)
                    if not changed:
                        used.append("same" if ca > 1 - 1e-4 else "unclear")
                    elif ca > 1 - 1e-4 and cb < ca - 1e-4:
                        used.append("after")
                    elif cb > 1 - 1e-4 and ca < cb - 1e-4:
                        used.append("before")
                    else:
                        used.append("unclear")
                else:
                    used.append("unclear")
            st["sel"], st["used"] = sel, used
            steps.append(st)
        out.append({"case": case, "steps": steps, "fails": fails, "nslot": len(rec[0][2].S), "names": names})
    return out


# ---------------------------------------------------------------------------- tearfree
def _tf_build(c, start):
    from precondition.tearfree import optimizer as tfo, grafting, second_order, shampoo as tfs, sketchy as tfk, momentum as tfm
    gt = getattr(grafting.GraftingType, c["graft"])
    if c["kind"] == "tfsh":
        so = second_order.Options(
            merge_dims=c["merge_dims"], second_order_type=second_order.SecondOrderType.SHAMPOO,
            shampoo_options=tfs.Options(block_size=c["block"], update_preconditioners_freq=c["pf"],
                                        update_statistics_freq=c["sf"], second_moment_decay=1.0))
    else:
        so = second_order.Options(
            merge_dims=2, second_order_type=second_order.SecondOrderType.SKETCHY, shampoo_options=None,
            sketchy_options=tfk.Options(rank=c["rank"], update_freq=c["f"], second_moment_decay=0.875))
    opts = tfo.TearfreeOptions(
        grafting_options=grafting.Options(grafting_type=gt, second_moment_decay=(0.0 if c["graft"] == "SGD" else 0.75),
                                          start_preconditioning_step=start, skip_preconditioning_rank1=True),
        second_order_options=so,
        momentum_options=tfm.Options(momentum_decay=0.0, weight_decay=0.0, nesterov=False))
    return tfo.tearfree(0.5, opts)


def _tf_view(state):
    import jax
    import numpy as np
    v = {"counts": {}, "stats": {}, "roots": {}, "sketch": {}}
    for path, leaf in jax.tree_util.tree_leaves_with_path(state):
        ks = jax.tree_util.keystr(path)
        a = np.asarray(leaf)
        if ks.endswith(".count") or ks.endswith("['count']"):
            v["counts"][ks] = int(a)
        elif ".stats[" in ks:
            v["stats"][ks] = a
        elif ".roots[" in ks:
            v["roots"][ks] = a
        elif "sketches" in ks:
            grp = ks[:ks.index("]", ks.index("axes[")) + 1] if "axes[" in ks else ks
            v["sketch"].setdefault(grp, {})[ks] = a
    return v


def _tf_run(c, start, params, grads):
    import contextlib
    import io
    import jax
    import numpy as np
    rec = []
    with contextlib.redirect_stdout(io.StringIO()):
        opt = _tf_build(c, start)
        state = opt.init(params)
        upd = jax.jit(opt.update)
        v0 = _tf_view(state)
        for g in grads:
            u, state = upd(g, state, params)
            v1 = _tf_view(state)
            rec.append(({n: np.asarray(u[n]) for n in u}, v0, v1))
            v0 = v1
    return rec


def _np_root(S, p):
    import numpy as np
    S = np.asarray(S, np.float64)
    w, v = np.linalg.eigh(S)
    mx = w.max(axis=-1, keepdims=True)
    mask = w <= 1e-6 * mx
    r = np.where(mask, 0.0, np.where(mask, 1.0, w) ** (-1.0 / p))
    return np.einsum("bik,bk,bjk->bij", v, r, v)


def _run_tf_group(c):
    import numpy as np
    import jax.numpy as jnp
    shape = tuple(c["shape"])
    params = {"w": jnp.full(shape, 0.5, jnp.float32), "b": jnp.full((3,), 0.25, jnp.float32)}
    grads = _grads(c, [(3,), shape], ["b", "w"])
    ref = _tf_run(c, HUGE_START, params, grads)
    lr = np.float32(0.5)
    out = []
    for start in c["starts"]:
        case = {k: v for k, v in c.items() if k != "starts"}
        case["start"] = start
        rec = _tf_run(c, start, params, grads)
        fails, steps = [], []
        last_due_stats = {}
        for t, (u, v0, v1) in enumerate(rec):
            st = {}
            cs0, cs1 = v0["counts"], v1["counts"]
            st["counts"] = [[cs0[k], cs1[k]] for k in sorted(cs1)]
            for k in cs1:
                if cs1[k] != cs0[k] + 1 or cs0[k] != t:
                    fails.append(f"step {t}: counter {k} went {cs0[k]} -> {cs1[k]}")
            if c["kind"] == "tfsh":
                sdue, pdue = t % c["sf"] == 0, t % c["pf"] == 0
                st["stats_same"], st["precond_same"], st["reflect"] = [], [], []
                for k in sorted(v1["stats"]):
                    same = _bits(v0["stats"][k]) == _bits(v1["stats"][k])
                    kr = k.replace(".stats[", ".roots[")
                    psame = _bits(v0["roots"][kr]) == _bits(v1["roots"][kr])
                    st["stats_same"].append(same)
                    st["precond_same"].append(psame)
                    if not sdue and not same:
                        fails.append(f"step {t}: statistics {k} changed although {t} % {c['sf']} != 0")
                    if not pdue and not psame:
                        fails.append(f"step {t}: roots {kr} changed although {t} % {c['pf']} != 0")
                    refl = None
                    if pdue:
                        naxes = sum(1 for kk in v1["stats"] if kk.rsplit(".stats[", 1)[0] == k.rsplit(".stats[", 1)[0])
                        p = 2 * naxes
                        e_new = _relerr(_np_root(v1["stats"][k], p), v1["roots"][kr])
                        # statistics the roots were computed from at the previous due step (not merely the
                        # statistics before this step: they may have moved on an earlier, non-due step)
                        prev = last_due_stats.get(k)
                        if prev is None or _bits(prev) == _bits(v1["stats"][k]):
                            refl = {"new": e_new, "old": None}
                        else:
                            e_old = _relerr(_np_root(prev, p), v1["roots"][kr])
                            refl = {"new": e_new, "old": e_old}
                            if e_old < 1e-3 and e_new > 10 * max(e_old, 1e-6):
                                fails.append(f"step {t}: roots {kr} on a refresh step are the roots of the statistics of the "
                                             f"previous refresh ({e_old:.2e}) not of the current ones ({e_new:.2e})")
                        last_due_stats[k] = v1["stats"][k]
                    st["reflect"].append(refl)
            else:
                due = t % c["f"] == 0
                st["sketch_same"], st["leaf_same_on_refresh"] = [], 0
                for grp in sorted(v1["sketch"]):
                    leafs = [(_bits(v0["sketch"][grp][k]) == _bits(v1["sketch"][grp][k])) for k in sorted(v1["sketch"][grp])]
                    st["sketch_same"].append(all(leafs))
                    if not due and not all(leafs):
                        fails.append(f"step {t}: sketch {grp} changed although {t} % {c['f']} != 0")
                    if due:
                        st["leaf_same_on_refresh"] += sum(leafs)
            # ---- warm-up switch
            g = np.asarray(grads[t]["w"])
            ru = ref[t][0]
            if not np.array_equal(u["b"], ru["b"]):
                fails.append(f"step {t}: update of the rank-1 (graft-only) tensor differs from the graft-only run")
            eq_ref = np.array_equal(u["w"], ru["w"])
            st["eq_graft"] = bool(eq_ref)
            if c["graft"] == "SGD":
                if not np.array_equal(ru["w"], -lr * g):
                    fails.append(f"step {t}: graft-only SGD update is not -lr * gradient")
            if t < start and not eq_ref:
                fails.append(f"step {t} < start {start}: update differs from the graft-only run")
            if t >= start:
                if eq_ref:
                    fails.append(f"step {t} >= start {start}: update still equals the graft-only run")
                nu, nr = float(np.linalg.norm(u["w"])), float(np.linalg.norm(ru["w"]))
                if not (abs(nu - nr) <= 1e-4 * nr):
                    fails.append(f"step {t} >= start {start}: preconditioned update does not carry the graft norm ({nu} vs {nr})")
            steps.append(st)
        out.append({"case": case, "steps": steps, "fails": fails})
    return out


def _run_schedfn(c):
    import jax.numpy as jnp
    from precondition import distributed_shampoo as ds
    out = []
    for cs in c["cases"]:
        dec = [Fraction(x) for x in cs["decay"]]
        base = 0.25
        tab = jnp.asarray([base] + [float(d) * base for d in dec], jnp.float32)
        lr = lambda step: tab[step]  # noqa: E731
        vals, fails = [], []
        for i in range(len(dec)):
            v = float(ds.preconditioning_compute_steps_schedule(lr, cs["s"], cs["e"], jnp.asarray(i + 1, jnp.int32)))
            vals.append(v)
            if not (v >= 1):
                fails.append(f"scheduled interval {v} < 1 for start {cs['s']} end {cs['e']} decay {dec[i]}")
        out.append({"case": {"kind": "schedfn", **cs}, "vals": vals, "fails": fails})
    return out


def worker(task):
    import warnings
    warnings.filterwarnings("ignore")
    try:
        if task["kind"] == "ds":
            return _run_ds_group(task)
        if task["kind"] in ("tfsh", "sk"):
            return _run_tf_group(task)
        if task["kind"] == "schedfn":
            return _run_schedfn(task)
        raise ValueError(task["kind"])
    except Exception as e:  # noqa: BLE001
        import traceback
        return [{"case": {k: v for k, v in task.items() if k != "cases"}, "exception": type(e).__name__ + ": " + str(e)[:300],
                 "trace": traceback.format_exc()[-1500:], "fails": []}]
    finally:
        try:
            import jax
            _ROOT_CACHE.clear()
            jax.clear_caches()
        except Exception:  # noqa: BLE001
            pass


# ============================================================================ model requests / comparison
def model_requests(o):
    c = o["case"]
    if "exception" in o:
        return []
    if c["kind"] == "ds":
        T = len(o["steps"])
        reqs = []
        for k in range(o["nslot"]):
            r = {"op": "ds_trace", "si": c["si"], "start": c["start"], "T": T, "sharded": c["mode"] == "sharded",
                 "accept": [st["accept"][k] for st in o["steps"]]}
            if c["sched"]:
                r["sched"] = {"s": str(c["sched"]["s"]), "e": str(c["sched"]["e"]), "decay": c["sched"]["decay"]}
            else:
                r["pi"] = c["pi"]
            reqs.append(r)
        return reqs
    if c["kind"] == "tfsh":
        return [{"op": "tf_trace", "sf": c["sf"], "pf": c["pf"], "start": c["start"], "T": len(o["steps"]), "masked": False}]
    if c["kind"] == "sk":
        return [{"op": "sk_trace", "f": c["f"], "start": c["start"], "T": len(o["steps"]), "masked": False}]
    if c["kind"] == "schedfn":
        return [{"op": "schedule", "s": str(c["s"]), "e": str(c["e"]), "decay": c["decay"]}]
    raise ValueError(c["kind"])


class _Cmp:
    def __init__(self, ctx, case):
        self.ctx, self.case = ctx, case

    def exact(self, name, impl, model, t=None):
        ok = impl == model
        self.ctx.corr(name, ok)
        if not ok:
            self.ctx.disagree(name, self.case, impl, model, f"step {t}" if t is not None else "")
        return ok

    def changed(self, name, impl_same, model_due, model_tok_changed, t, may_reject=False):
        """Bitwise change pattern vs model. Returns the class."""
        ctx = self.ctx
        if not model_due:
            ok = impl_same
            ctx.corr(name + ".unchanged_off_schedule", ok)
            if not ok:
                ctx.disagree(name + ".unchanged_off_schedule", self.case, "changed", "unchanged", f"step {t}")
            return "off"
        if may_reject:
            ok = impl_same
            ctx.corr(name + ".unchanged_when_rejected", ok)
            if not ok:
                ctx.disagree(name + ".unchanged_when_rejected", self.case, "changed", "unchanged (gate rejected)", f"step {t}")
            return "rejected"
        if model_tok_changed:
            if impl_same:
                ctx.dist(name + ".inconclusive_refreshed_but_bit_equal")
                return "inconclusive"
            ctx.corr(name + ".changed_on_schedule", True)
            return "refreshed"
        ctx.dist(name + (".recomputed_same_input_bit_equal" if impl_same else ".recomputed_same_input_changed"))
        return "recomputed"


def _reflect(ctx, cmp, name, refl, t):
    if refl is None:
        return
    if refl["old"] is None:
        ok = refl["new"] < 1e-2
        ctx.dist(name + (".reflects_current(stats unchanged)" if ok else ".reflect_inconclusive"))
        return
    if refl["new"] < 1e-2 and refl["old"] > 10 * max(refl["new"], 1e-6):
        ctx.corr(name + ".reflects_current_stats", True)
    elif refl["old"] < 1e-3 and refl["new"] > 10 * max(refl["old"], 1e-6):
        ctx.disagree(name + ".reflects_current_stats", cmp.case, refl, "root of the statistics after this step's update", f"step {t}")
    else:
        ctx.dist(name + ".reflect_inconclusive")


def compare(ctx, o, replies):
    c = o["case"]
    cmp = _Cmp(ctx, c)
    if "exception" in o:
        ctx.disagree(c["kind"] + ".runs", c, o["exception"], "no exception", o.get("trace", "")[-400:])
        return
    if c["kind"] == "schedfn":
        cmp.exact("schedule", [int(v) if (v == v and abs(v) < 1e9 and v == int(v)) else repr(v) for v in o["vals"]],
                  replies[0].get("intervals"))
        return
    if c["kind"] == "ds":
        pre = "ds." + c["mode"]
        for k, rep in enumerate(replies):
            ms = rep.get("steps")
            if ms is None:
                ctx.disagree(pre + ".driver", c, None, rep)
                return
            for t, (st, m) in enumerate(zip(o["steps"], ms)):
                if k == 0:
                    cmp.exact(pre + ".count", [st["count"], st["count_after"]], [m["count"], m["count_after"]], t)
                    cmp.exact(pre + ".interval", st["impl_interval"], float(m["interval"]), t)
                # statistics
                kind = st["stats"][k]
                if m["stats_changed"]:
                    if kind == "same":
                        ctx.dist(pre + ".stats.inconclusive_refreshed_but_bit_equal")
                    else:
                        cmp.exact(pre + ".stats.absorbs_this_gradient", kind, "absorbed", t)
                else:
                    cmp.exact(pre + ".stats.unchanged_off_schedule", kind, "same", t)
                # preconditioner
                due = m["perform_precond"]
                rejected = due and not st["accept"][k]
                cls = cmp.changed(pre + ".precond", st["precond_same"][k], due, m["precond_changed"], t, may_reject=rejected)
                if due and not rejected:
                    # model: precond token == stats token after this step
                    if m["precond"] != m["stats"]:
                        ctx.disagree(pre + ".model_self_check", c, m["precond"], m["stats"], f"step {t}")
                    _reflect(ctx, cmp, pre + ".precond", st["reflect"][k], t)
                    if cls in ("refreshed",):
                        ctx.nontrivial((c["kind"], c["mode"], c["si"], c["pi"], str(c["sched"]), c["start"], "refresh", t, k))
                # metrics (refreshed whenever the root ran, accepted or not)
                cmp.changed(pre + ".metrics", st["metrics_same"][k], due, m["metrics_changed"], t)
            # per-parameter observations against slot-0 model trace (selection does not depend on the slot)
        ms = replies[0]["steps"]
        for t, (st, m) in enumerate(zip(o["steps"], ms)):
            want = "shampoo" if m["sel"] == "1" else "graft"
            for s in st["sel"]:
                if s == "both":
                    ctx.dist(pre + ".selection.inconclusive_both_equal")
                else:
                    cmp.exact(pre + ".selection", s, want, t)
            cmp.exact(pre + ".run_shampoo", m["run_shampoo"], t >= c["start"], t)
            want_used = "before" if c["mode"] == "sharded" else "after"
            mu = "after" if m["used"] == m["precond"] else "before"
            for pi_, n in enumerate(o["names"]):
                s = st["used"][pi_]
                if s in ("after", "before"):
                    cmp.exact(pre + ".update_uses_precond_version", s, want_used, t)
                    # model-side consistency of the token the update used
                    slots = [kk for kk in range(o["nslot"])]
                    if mu != want_used and all(replies[kk]["steps"][t]["precond_changed"] for kk in slots):
                        ctx.disagree(pre + ".model_used_token", c, mu, want_used, f"step {t}")
                else:
                    ctx.dist(pre + ".used." + s)
            if t == c["start"]:
                ctx.nontrivial((c["kind"], c["mode"], c["si"], c["pi"], str(c["sched"]), c["start"], "boundary"))
        return
    ms = replies[0].get("steps")
    if ms is None:
        ctx.disagree(c["kind"] + ".driver", c, None, replies[0])
        return
    if c["kind"] == "tfsh":
        for t, (st, m) in enumerate(zip(o["steps"], ms)):
            cmp.exact("tfsh.counts", st["counts"], [[m["count"], m["count_after"]], [m["count"], m["inner_count_after"]]], t)
            for k in range(len(st["stats_same"])):
                cmp.changed("tfsh.stats", st["stats_same"][k], m["perform_stats"], m["stats_changed"], t)
                cls = cmp.changed("tfsh.roots", st["precond_same"][k], m["perform_precond"], m["precond_changed"], t)
                if m["perform_precond"]:
                    _reflect(ctx, cmp, "tfsh.roots", st["reflect"][k], t)
                    if cls == "refreshed":
                        ctx.nontrivial(("tfsh", c["sf"], c["pf"], c["start"], "refresh", t, k))
            cmp.exact("tfsh.graft_switch", not st["eq_graft"], m["preconditioned"], t)
            if t == c["start"]:
                ctx.nontrivial(("tfsh", c["sf"], c["pf"], c["start"], "boundary"))
    else:
        for t, (st, m) in enumerate(zip(o["steps"], ms)):
            cmp.exact("sketchy.counts", st["counts"], [[m["count"], m["count_after"]], [m["count"], m["inner_count_after"]]], t)
            for k in range(len(st["sketch_same"])):
                cls = cmp.changed("sketchy.sketch", st["sketch_same"][k], m["perform"], m["sketch_changed"], t)
                if cls == "refreshed":
                    ctx.nontrivial(("sk", c["f"], c["start"], "refresh", t, k))
            if st["leaf_same_on_refresh"]:
                ctx.dist("sketchy.leaf.inconclusive_refreshed_but_bit_equal", st["leaf_same_on_refresh"])
            cmp.exact("sketchy.graft_switch", not st["eq_graft"], m["preconditioned"], t)
            if t == c["start"]:
                ctx.nontrivial(("sk", c["f"], c["start"], "boundary"))


# ============================================================================ stages
def const_stage(ctx):
    thr = consts.func_default("distributed_shampoo.py", "distributed_shampoo", "inverse_failure_threshold")
    if not isinstance(thr, (int, float)) or thr != thr:
        ctx.const_fail("bad_failMetrics", f"inverse_failure_threshold default {thr!r}: the initial error of efficient_cond "
                       "must be rejected by the gate (threshold >= threshold)")
    for arg in ["statistics_compute_steps", "preconditioning_compute_steps"]:
        v = consts.func_default("distributed_shampoo.py", "distributed_shampoo", arg)
        if not (isinstance(v, int) and v >= 1):
            ctx.const_fail("interval_ge_one", f"default {arg} = {v!r} is not an integer >= 1")
    for rel, cls, fld in [("tearfree/shampoo.py", "Options", "update_preconditioners_freq"),
                          ("tearfree/shampoo.py", "Options", "update_statistics_freq"),
                          ("tearfree/sketchy.py", "Options", "update_freq")]:
        v = consts.class_field_default(rel, cls, fld)
        if not (isinstance(v, int) and v >= 1):
            ctx.const_fail("interval_ge_one", f"default {rel}:{cls}.{fld} = {v!r} is not an integer >= 1")
    lits = sorted(consts.func_literals("distributed_shampoo.py", "preconditioning_compute_steps_schedule"))
    if lits.count(10) != 2 or 1 not in lits:
        ctx.const_fail("schedule_literals", f"literals of preconditioning_compute_steps_schedule are {lits}; the model rounds down "
                       "to a multiple of 10 and floors at 1")
    ctx.cov["constants"] = {"inverse_failure_threshold": thr, "schedule_literals": lits}


def _task_tag(t):
    return t["kind"] + ("." + t["mode"] if "mode" in t else "") + (".sched" if t.get("sched") else "")


def _dev_filter(ctx, tasks):
    """Builder aid for mutation experiments: C04_ONLY=ds.replicated,tfsh,... keeps only those task families,
    C04_MAXTASKS=n keeps the first n of each. Recorded in the evidence so that a filtered run cannot pass for a full one."""
    import os
    only = os.environ.get("C04_ONLY")
    cap = os.environ.get("C04_MAXTASKS")
    if not only and not cap:
        return tasks
    keep, seen = [], {}
    for t in tasks:
        tag = _task_tag(t)
        if only and tag not in only.split(","):
            continue
        seen[tag] = seen.get(tag, 0) + 1
        if cap and seen[tag] > int(cap):
            continue
        keep.append(t)
    ctx.notes.append(f"DEV FILTER ACTIVE (C04_ONLY={only}, C04_MAXTASKS={cap}): {len(keep)} of {len(tasks)} tasks run")
    ctx.cov["dev_filter"] = {"only": only, "max": cap}
    return keep


def execute(ctx, tasks):
    # no max_tasks_per_child: ProcessPoolExecutor(max_tasks_per_child=...) can deadlock on CPython 3.12.1;
    # the workers bound their XLA caches themselves (jax.clear_caches() after every task)
    import os
    results = kit.parallel_map(worker, tasks, nproc=min(14, int(os.environ.get("C04_NPROC", "14"))))
    obs = [o for grp in results for o in grp]
    reqs, spans = [], []
    for o in obs:
        rq = model_requests(o)
        spans.append((len(reqs), len(reqs) + len(rq)))
        reqs.extend(rq)
    replies = ctx.driver(reqs) if reqs else []
    for o, (a, b) in zip(obs, spans):
        c = o["case"]
        n = len(o.get("steps", [])) or len(o.get("vals", [])) or 1
        ctx.evaluated(n)
        ctx.cov["search_evaluations"] += n
        ctx.dist("cases." + c["kind"] + ("." + c["mode"] if "mode" in c else "") + (".scheduled" if c.get("sched") else ""))
        if c["kind"] == "schedfn" and "vals" in o and any(v > 1 for v in o["vals"]):
            ctx.nontrivial(("schedfn", c["s"], c["e"], tuple(c["decay"])))
        compare(ctx, o, replies[a:b])
        for f in o["fails"][:5]:
            ctx.violation(f, c)
        near = sum(st.get("near", 0) for st in o.get("steps", []) if isinstance(st, dict))
        if near:
            ctx.dist("ds.warmup.graft_only_run_near_not_bitwise", near)
        bi = sum(st.get("boundary_identity", 0) for st in o.get("steps", []) if isinstance(st, dict))
        if bi:
            ctx.dist("ds.warmup.boundary_inconclusive_identity_preconditioner", bi)
    return obs


def run(ctx):
    ctx.lean_stage()
    const_stage(ctx)
    tasks = gen_tasks(ctx.tier, ctx.seed)
    ctx.cov["rule"] = (
        "grid (statistics interval, preconditioner interval, start step): quick = all of [1..4]^2 with two start steps of [1..4] per cell "
        "(two Latin squares: every (interval, start) pair occurs), thorough = the full [1..8]^2 x [0..8], for "
        "Distributed Shampoo replicated and sharded (Mesh of 1 device + jit) and Tearfree Shampoo, update_freq x start for Tearfree "
        "Sketchy (no x64), plus learning-rate scheduled intervals with dyadic lr ratios; T = 2*lcm steps (cap 24; 36/46 scheduled); "
        "random N(0,1) float32 gradients on one or two small matrices. evaluations = optimizer steps whose successive states were "
        "diffed bitwise. A non-trivial case is a distinct (optimizer, mode, intervals, start, step, slot) at which a refresh was due, "
        "accepted and the leaf really changed bitwise, or the warm-up boundary step of a distinct configuration, or a schedule-function "
        "input whose interval exceeds 1.")
    ctx.assumptions += [
        "comparison policy EXACT: bitwise equality of successive state leaves off schedule; counters, intervals, selection as integers/booleans",
        "refreshed-but-bit-equal leaves and re-computations from unchanged statistics are counted separately (distribution), never as agreement",
        "'reflects current statistics' is decided by recomputing the root of the statistics after / before the step with the optimizer's own "
        "root routine (DS: matrix_inverse_pth_root; Tearfree: float64 eigh) and requiring a 10x separation; otherwise inconclusive",
        "gate hypothesis of precond_change_only_on_multiples: inverse_failure_threshold >= inverse_failure_threshold (checked on the source default)",
        "warm-up theorems are exact over rings; over floats 0 * x = 0 needs a finite Shampoo branch — observed bitwise on every warm-up step",
        "scheduled interval modelled on Rat assuming lr(0) != 0 and lr ratios exactly representable (dyadic tables used)",
    ]
    tasks = _dev_filter(ctx, tasks)
    obs = execute(ctx, tasks)
    picked = 0
    for o in obs:
        if "steps" in o and picked < 5 and o["case"].get("start", 0) == 2:
            c = o["case"]
            ctx.sample({"case": c, "first_steps": o["steps"][:4]})
            picked += 1


def replay(ctx, data):
    cases = [v["case"] for v in data.get("violations", [])]
    cases += [s["detail"]["case"] for s in data.get("stage_failures", [])
              if isinstance(s.get("detail"), dict) and isinstance(s["detail"].get("case"), dict)]
    tasks, seen = [], set()
    for c in cases:
        key = repr(sorted(c.items(), key=lambda kv: kv[0]))
        if key in seen:
            continue
        seen.add(key)
        if c.get("kind") == "schedfn":
            tasks.append({"kind": "schedfn", "cases": [{k: c[k] for k in ("s", "e", "decay")}]})
        else:
            t = dict(c)
            t["starts"] = [t.pop("start")]
            tasks.append(t)
    ctx.cov["rule"] = "replay of recorded cases"
    execute(ctx, tasks)
