"""C14 — training resumes bit-identically from serialized optimizer state at any step.

Implementation runner / direct oracle (no reference to the Lean model):
  for every generated configuration (Distributed Shampoo full / int8+int16-quantized under a one-device pmap /
  int8-quantized momentum replicated / compression_rank / lobpcg_topk_precondition / frequent_directions(+reuse_preconditioner)(+average_grad) /
  sharded under a one-device Mesh, SM3, Tearfree Shampoo / Sketchy through `tearfree(...)` and through the bare
  `shampoo.apply` / `sketchy.apply` transformations) the optimizer is run for T steps on a seeded gradient history
  (eagerly AND under jit; pmap / sharded variants in their own compiled mode), the state and the parameters are
  written with `flax.serialization.to_bytes` after every step k in 0..T, and for EVERY k the bytes are restored with
  `from_bytes` into the `init` of a FRESHLY constructed optimizer object (thorough tier: at every k in a fresh Python
  process; quick tier: in-process at every k plus one k per case in a fresh process; the child interpreter gets an
  explicit PYTHONHASHSEED different from the worker's and, for odd k, traces a throw-away optimizer first), leaves are turned into
  `jax.Array`s (`jnp.asarray`, what a training loop's device_put does — DESIGN §5 C14) and all later updates, the final
  state and the final parameters are compared BITWISE (msgpack bytes: dtype, shape, raw buffer) with the
  uninterrupted run.  Also: bytes(restore(bytes(s))) == bytes(s); input purity (update on writable numpy copies of the
  state leaves must leave them unchanged; update on the read-only numpy leaves `from_bytes` returns must not raise).
  An update fed the RAW numpy leaves of from_bytes must also reproduce the uninterrupted run bitwise (update and new
  state) wherever the unchanged tree does (SM3, pmap, sharded: everything; eager DS / Tearfree: every leaf that does
  not depend on the second-moment statistics, see `numpy_fed_policy`); 1-ulp XLA constant-folding differences in the
  statistics-dependent leaves are counted per variant and graft type as information only.

Correspondence with `Model/PyTree.lean` (EXACT): the real state of every case (leaves replaced by integer ids) is
described as a tree (node kinds, class names, keys, static `pytree_node=False` fields) and
  * real `to_state_dict` key structure            vs  model `toStateDict`,
  * real `from_bytes(template, to_bytes(state))`   vs  model `fromStateDict` (template leaves all -1),
  * real `from_state_dict` on MUTATED state dicts (key dropped / added / renamed, subtree replaced by a leaf)
    — success or exception, and the restored tree   vs  model `fromStateDict`,
  * a toy training loop (`jax.tree.map(lambda a: 3a+g)`) interrupted at k through real to_bytes / from_bytes
                                                   vs  model `run` / `resume` / `runCheckpointed`;
  the same on synthetic random trees built from real Python / flax node types.
"""
import contextlib
import io
import json
import os
import pickle
import random
import subprocess
import sys
import tempfile

from harness import kit

DS_GRAFTS = ["SGD", "ADAGRAD", "RMSPROP", "RMSPROP_NORMALIZED", "SQRT_N", "ADAGRAD_NORMALIZED", "NONE"]
DS_VARIANTS = ["full", "quant_pmap", "quant_repl", "compress", "fd", "fd_avg", "sharded", "lobpcg"]


# ============================================================================ case generation
def _shapes(rng, n, ranks, dims, min_big=None):
    out = []
    for _ in range(n):
        r = rng.choice(ranks)
        out.append([rng.choice(dims) for _ in range(r)])
    if min_big is not None and not any(len(s) >= 2 and min(s) >= min_big for s in out):
        out[0] = [min_big + rng.choice([0, 1, 2]), min_big + rng.choice([0, 1])]
    return out


def _scales(rng, T):
    sc = []
    for _ in range(T):
        x = rng.random()
        sc.append(1.0 if x < 0.7 else (0.0 if x < 0.8 else (1e-3 if x < 0.9 else 30.0)))
    return sc


def gen_ds(rng, variant, tier):
    c = {"block_size": rng.choice([2, 3, 4, 4, 8, 16])}

    def maybe(k, vals, p):
        if rng.random() < p:
            c[k] = rng.choice(vals)
    maybe("beta1", [0.0, 0.5], 0.3)
    maybe("beta2", [1.0, 0.5, 0.9], 0.5)
    maybe("weight_decay", [0.01], 0.3)
    c["start_preconditioning_step"] = rng.choice([0, 1, 1, 2, 3])
    c["preconditioning_compute_steps"] = rng.choice([1, 1, 2, 3])
    c["statistics_compute_steps"] = rng.choice([1, 1, 2])
    maybe("decay_preconditioning_compute_steps", [True], 0.1)
    maybe("end_preconditioning_compute_steps", [3], 0.1)
    maybe("lr_schedule", [True], 0.3)
    maybe("best_effort_shape_interpretation", [False], 0.3)
    maybe("merge_small_dims_block_size", [4, 8], 0.3)
    c["graft_type"] = rng.choice(DS_GRAFTS)
    maybe("nesterov", [False], 0.4)
    maybe("exponent_override", [2], 0.1)
    maybe("moving_average_for_momentum", [True], 0.3)
    maybe("clip_by_scaled_gradient_norm", [1.0], 0.2)
    maybe("relative_matrix_epsilon", [False], 0.2)
    maybe("precondtioner_type", ["INPUT", "OUTPUT"], 0.25)
    maybe("generate_training_metrics", [False], 0.35)
    maybe("skip_preconditioning_rank_lt", [2], 0.3)
    maybe("decoupled_learning_rate", [False], 0.3)
    maybe("decoupled_weight_decay", [True], 0.3)
    maybe("eigh", [True], 0.35)
    min_big = None
    if variant == "quant_pmap":
        c["batch_axis_name"] = "batch"
        c["best_effort_memory_usage_reduction"] = True
    elif variant == "quant_repl":
        c["best_effort_memory_usage_reduction"] = True
    elif variant == "compress":
        c["compression_rank"] = rng.choice([1, 2, 2])
        maybe("reuse_preconditioner", [True], 0.3)
        c["block_size"] = rng.choice([8, 8, 16])
        min_big = c["compression_rank"] + 3
    elif variant in ("fd", "fd_avg"):
        c["frequent_directions"] = True
        c["compression_rank"] = rng.choice([1, 2, 2, 3])
        c["reuse_preconditioner"] = True
        c["statistics_compute_steps"] = c["preconditioning_compute_steps"]
        if variant == "fd_avg":
            c["average_grad"] = True
        maybe("reset_preconditioner", [True], 0.25)
        maybe("generate_fd_metrics", [True], 0.4)
        c["block_size"] = rng.choice([8, 8, 16])
        min_big = c["compression_rank"] + 3
    elif variant == "sharded":
        c["shard_optimizer_states"] = True
        c["num_devices_for_pjit"] = rng.choice([1, 2])
    elif variant == "lobpcg":
        # LOBPCG-deflated Newton root (non-default): every statistic must have size n > 5k; full-rank statistics
        # (random gradients, a ridge that is not tiny) keep jax's lobpcg_standard away from its breakdown (known finding K6)
        c["lobpcg_topk_precondition"] = 1
        maybe("lobpcg_max_iter", [5], 0.3)
        c["block_size"] = 16
        c["matrix_epsilon"] = rng.choice([1e-3, 1e-4])
        c["eigh"] = False
        c["start_preconditioning_step"] = rng.choice([0, 1])
        c["preconditioning_compute_steps"] = rng.choice([1, 1, 2])
        c["statistics_compute_steps"] = 1
        for k in ("best_effort_shape_interpretation", "merge_small_dims_block_size", "skip_preconditioning_rank_lt", "exponent_override",
                  "decay_preconditioning_compute_steps", "end_preconditioning_compute_steps", "precondtioner_type"):
            c.pop(k, None)
        shapes = rng.choice([[[8, 8]], [[12, 6]], [[8, 8], [7, 9]], [[6, 10]], [[9, 7], [8]]])
        return c, shapes
    else:
        maybe("reuse_preconditioner", [True], 0.2)
        maybe("lobpcg_topk_precondition", [1], 0.1)
    ranks = [1, 2, 2, 2, 3] if variant == "sharded" else [0, 1, 2, 2, 2, 3]
    shapes = _shapes(rng, rng.choice([1, 2, 3]), ranks, [1, 2, 3, 4, 5, 6, 7, 8], min_big)
    return c, shapes


def gen_tf(rng, so, tier):
    c = {"so_type": so}
    c["graft"] = rng.choice(["NONE", "SGD", "RMSPROP", "RMSPROP", "ADAFACTOR"])
    c["graft_decay"] = {"NONE": 0.0, "SGD": 0.0, "RMSPROP": rng.choice([0.9, 1.0, 0.999]), "ADAFACTOR": 0.9}[c["graft"]]
    c["start"] = rng.choice([0, 1, 2])
    c["skip_rank1"] = rng.random() < 0.6
    c["min_dim_size_to_factor"] = rng.choice([128, 2])
    c["merge_dims"] = rng.choice([4, 8, 16, 1024])
    if so == "SHAMPOO":
        c["sh"] = {"block_size": rng.choice([2, 3, 4, 4, 8, 1024]), "pf": rng.choice([1, 1, 2, 3]), "sf": rng.choice([1, 1, 2]),
                   "decay": rng.choice([1.0, 0.999, 0.5])}
    else:
        c["sk"] = {"rank": rng.choice([1, 2, 2, 3]), "update_freq": rng.choice([1, 1, 2]), "decay": rng.choice([1.0, 0.999, 0.5]),
                   "add_ggt": rng.random() < 0.3, "ekfac": rng.random() < 0.25, "lin_tail": rng.random() < 0.25,
                   "relative_epsilon": rng.random() < 0.7, "epsilon": rng.choice([1e-7, 1e-3])}
    c["mom_decay"] = rng.choice([0.9, 0.9, 0.0, 0.5])
    c["ema"] = rng.random() < 0.4
    c["nesterov"] = rng.random() < 0.6
    c["wd"] = rng.choice([0.0, 0.0, 0.1])
    c["wd_after"] = rng.random() < 0.6
    c["lr_schedule"] = rng.random() < 0.3
    if so == "SHAMPOO":
        b = c["sh"]["block_size"]
        dims = [d for d in [2, 3, 4, 5, 6, 8] if d < b or d % b == 0] or [b]
        shapes = _shapes(rng, rng.choice([1, 2, 3]), [1, 2, 2, 2], dims)
    else:
        shapes = _shapes(rng, rng.choice([1, 2, 3]), [1, 2, 2, 2, 3], [2, 3, 4, 5, 6])
    return c, shapes


def gen_cases(tier, seed):
    rng = random.Random(1000003 * seed + (17 if tier == "thorough" else 5))
    mult = 1 if tier == "quick" else 3
    plan = [("ds", "full", 4), ("ds", "quant_pmap", 3), ("ds", "quant_repl", 2), ("ds", "compress", 3), ("ds", "fd", 3),
            ("ds", "fd_avg", 3), ("ds", "sharded", 2), ("ds", "lobpcg", 2), ("sm3", "sm3", 3), ("tf", "SHAMPOO", 5), ("tf", "SKETCHY", 5),
            ("tfraw", "SHAMPOO", 1), ("tfraw", "SKETCHY", 2)]
    cases = []
    forced = 0   # DS: diagonal-statistics grafts with a beta2 that is not exactly representable, in every tier and seed
    for kind, variant, n in plan:
        for j in range(n * mult):
            T = rng.choice([3, 4, 4, 5]) if tier == "quick" else rng.choice([4, 5, 5, 6])
            if kind == "ds":
                cfg, shapes = gen_ds(rng, variant, tier)
                if j == 0 or (j == 1 and variant in ("full", "compress", "fd")):
                    cfg["graft_type"] = ["RMSPROP", "ADAGRAD", "RMSPROP_NORMALIZED"][forced % 3]
                    cfg["beta2"] = [0.999, 0.9][(forced // 3) % 2]
                    if cfg.get("reset_preconditioner"):
                        cfg.pop("reset_preconditioner")
                    forced += 1
                # (frequent_directions under jax_enable_x64 fails a lax.cond dtype check inside the package: C07's subject)
                x64 = rng.random() < 0.3 and variant in ("full", "quant_repl", "sharded", "quant_pmap")
            elif kind == "sm3":
                cfg = {"beta1": rng.choice([0.9, 0.0]), "beta2": rng.choice([0.999, 1.0, 0.9]),
                       "weight_decay": rng.choice([0.0, 0.01]), "normalize_grads": rng.random() < 0.3}
                shapes = _shapes(rng, rng.choice([1, 2, 3]), [1, 2, 2, 3], [1, 2, 3, 4, 5, 7])
                x64 = rng.random() < 0.3
            elif kind == "tf":
                cfg, shapes = gen_tf(rng, variant, tier)
                x64 = (variant == "SHAMPOO") and rng.random() < 0.3
            else:
                if variant == "SHAMPOO":
                    cfg = {"so_type": "SHAMPOO", "sh": {"block_size": rng.choice([2, 4]), "pf": rng.choice([1, 2]), "sf": 1,
                                                        "decay": rng.choice([1.0, 0.999])}}
                    shapes = _shapes(rng, 2, [1, 2, 2], [2, 3, 4, 8] if cfg["sh"]["block_size"] == 4 else [2, 4, 6])
                else:
                    cfg = {"so_type": "SKETCHY", "sk": {"rank": rng.choice([1, 2, 3]), "update_freq": rng.choice([1, 2]),
                                                        "decay": rng.choice([1.0, 0.999]), "add_ggt": rng.random() < 0.3,
                                                        "ekfac": False, "lin_tail": False, "relative_epsilon": True, "epsilon": 1e-7}}
                    shapes = _shapes(rng, 2, [2, 2, 3], [2, 3, 4, 5])
                x64 = False
            cases.append({"kind": kind, "variant": variant, "cfg": cfg, "shapes": shapes,
                          "tree": rng.choice(["dict", "dict", "nested", "list"]), "T": T, "gseed": rng.randrange(1 << 30),
                          "scales": _scales(rng, T), "x64": bool(x64), "child_k": rng.randrange(T + 1)})
            if kind == "ds" and variant == "lobpcg":
                # the fresh-process resume must be followed by a preconditioner recomputation: 1 <= k <= T-2
                cases[-1]["scales"] = [1.0] * T
                cases[-1]["child_k"] = 1 + cases[-1]["gseed"] % max(1, T - 2)
    return cases


def corpus_cases():
    """Witnesses of the repaired defects D3 and D13 (corpus/reproducers/d3.py, d13.py) and minimised past failures:
    every `cases` entry of corpus/C14/*.json. They run first and must pass."""
    d = os.path.join(kit.ROOT, "corpus", "C14")
    out = []
    if os.path.isdir(d):
        for fn in sorted(os.listdir(d)):
            if fn.endswith(".json"):
                out.extend(json.load(open(os.path.join(d, fn))).get("cases", []))
    return out


# ============================================================================ worker side: the real optimizers
def _setup(x64):
    import logging
    import warnings
    warnings.filterwarnings("ignore")
    logging.disable(logging.CRITICAL)
    import jax
    jax.config.update("jax_enable_x64", bool(x64))


@contextlib.contextmanager
def _quiet():
    with contextlib.redirect_stdout(io.StringIO()):
        yield


def build_params(case):
    import numpy as np
    import jax.numpy as jnp
    rs = np.random.RandomState(case["gseed"] % (2 ** 31))
    arrs = [jnp.asarray(np.asarray(rs.uniform(-1, 1, size=tuple(s)), np.float32)) for s in case["shapes"]]
    kind = case.get("tree", "dict")
    if kind == "list":
        return list(arrs)
    if kind == "nested" and arrs:
        return {"a": {"w": arrs[0]}, "rest": list(arrs[1:])}
    return {f"p{i}": a for i, a in enumerate(arrs)}


def grads_for(case, params, t):
    import numpy as np
    import jax
    import jax.numpy as jnp
    leaves, td = jax.tree_util.tree_flatten(params)
    rs = np.random.RandomState((case["gseed"] * 1009 + t * 7919 + 13) % (2 ** 31))
    sc = case["scales"][t]
    return td.unflatten([jnp.asarray(np.asarray(rs.randn(*l.shape) * sc, np.float32)) for l in leaves])


def _make_optimizer(case):
    """A freshly constructed optimizer object (GradientTransformation-like) for the case."""
    import jax.numpy as jnp
    kind, cfg = case["kind"], case["cfg"]
    if kind == "ds":
        from precondition import distributed_shampoo as ds
        from jax.sharding import PartitionSpec as P
        kw = {k: v for k, v in cfg.items() if k not in ("lr_schedule", "graft_type", "precondtioner_type", "block_size")}
        kw.setdefault("batch_axis_name", None)
        kw["graft_type"] = getattr(ds.GraftingType, cfg.get("graft_type", "SGD"))
        kw["precondtioner_type"] = getattr(ds.PreconditionerType, cfg.get("precondtioner_type", "ALL"))
        if cfg.get("shard_optimizer_states"):
            spec = P("x", None, None) if cfg.get("num_devices_for_pjit") == 1 else P(None)
            kw["statistics_partition_spec"] = spec
            kw["preconditioner_partition_spec"] = spec
        lr = (lambda step: 0.1 / (1.0 + jnp.asarray(step, jnp.float32))) if cfg.get("lr_schedule") else 0.1
        return ds.distributed_shampoo(lr, cfg["block_size"], **kw)
    if kind == "sm3":
        from precondition import sm3
        return sm3.sm3(0.1, **cfg)
    from precondition.tearfree import shampoo as tfs, sketchy
    sh = sk = None
    if cfg.get("sh"):
        s = cfg["sh"]
        sh = tfs.Options(block_size=s["block_size"], update_preconditioners_freq=s["pf"], update_statistics_freq=s["sf"],
                         second_moment_decay=s["decay"])
    if cfg.get("sk"):
        s = cfg["sk"]
        sk = sketchy.Options(epsilon=s["epsilon"], rank=s["rank"], relative_epsilon=s["relative_epsilon"],
                             second_moment_decay=s["decay"], update_freq=s["update_freq"], add_ggt=s["add_ggt"],
                             ekfac_svd=s["ekfac"], linear_approx_tail=s["lin_tail"])
    if kind == "tfraw":
        return tfs.apply(sh) if cfg["so_type"] == "SHAMPOO" else sketchy.apply(sk)
    from precondition.tearfree import optimizer as tfo, second_order, grafting, momentum
    go = grafting.Options(grafting_type=getattr(grafting.GraftingType, cfg["graft"]), second_moment_decay=cfg["graft_decay"],
                          start_preconditioning_step=cfg["start"], skip_preconditioning_rank1=cfg["skip_rank1"],
                          min_dim_size_to_factor=cfg["min_dim_size_to_factor"])
    so = second_order.Options(merge_dims=cfg["merge_dims"], second_order_type=getattr(second_order.SecondOrderType, cfg["so_type"]),
                              shampoo_options=sh, sketchy_options=sk)
    mo = momentum.Options(ema=cfg["ema"], nesterov=cfg["nesterov"], momentum_decay=cfg["mom_decay"], weight_decay=cfg["wd"],
                          weight_decay_after_momentum=cfg["wd_after"])
    lr = (lambda step: 0.1 / (1.0 + jnp.asarray(step, jnp.float32))) if cfg.get("lr_schedule") else 0.1
    return tfo.tearfree(lr, tfo.TearfreeOptions(grafting_options=go, second_order_options=so, momentum_options=mo))


def modes_of(case):
    if case["kind"] == "ds" and case["variant"] == "quant_pmap":
        return ["pmap"]
    if case["kind"] == "ds" and case["variant"] == "sharded":
        return ["jit"]
    return ["eager", "jit"]


class Runner:
    """One freshly constructed optimizer object with its init / update callables (un-replicated trees in and out)."""

    def __init__(self, case):
        import numpy as np
        import jax
        self.case = case
        with _quiet():
            self.opt = _make_optimizer(case)
        self.pmap = case["kind"] == "ds" and case["variant"] == "quant_pmap"
        self.sharded = case["kind"] == "ds" and case["variant"] == "sharded"
        self.mesh = None
        if self.sharded:
            from jax.sharding import Mesh
            self.mesh = Mesh(np.array(jax.devices()[:1]), ("x",))
        self._fn = {}

    def _ctx(self):
        return self.mesh if self.mesh is not None else contextlib.nullcontext()

    @staticmethod
    def _rep(t):
        import jax
        import jax.numpy as jnp
        return jax.tree.map(lambda x: jnp.asarray(x)[None], t)

    def init(self, params):
        import jax
        with _quiet(), self._ctx():
            if self.pmap:
                return jax.pmap(self.opt.init, axis_name="batch")(self._rep(params))
            if self.sharded:
                return self.opt.init(params).init_fn(params)
            return self.opt.init(params)

    def update(self, mode, g, s, p):
        import jax
        if mode not in self._fn:
            if mode == "pmap":
                self._fn[mode] = jax.pmap(self.opt.update, axis_name="batch")
            elif mode == "jit":
                self._fn[mode] = jax.jit(self.opt.update)
            else:
                self._fn[mode] = self.opt.update
        f = self._fn[mode]
        with _quiet(), self._ctx():
            if self.pmap:
                u, s2 = f(self._rep(g), s, self._rep(p))
                return jax.tree.map(lambda x: x[0], u), s2
            return f(g, s, p)


def _asjax(t):
    import jax
    import jax.numpy as jnp
    return jax.tree.map(jnp.asarray, t)


def _apply(p, u):
    import jax
    return jax.tree.map(lambda a, b: (a + b).astype(a.dtype), p, u)


def run_uninterrupted(case, mode):
    """-> dict(sb=[bytes]*(T+1), pb=[bytes]*(T+1), ub=[bytes]*T, states=[...], params=[...])"""
    from flax import serialization as ser
    R = Runner(case)
    params = build_params(case)
    s = _asjax(R.init(params))
    sb, pb, ub, states, plist = [ser.to_bytes(s)], [ser.to_bytes(params)], [], [s], [params]
    for t in range(case["T"]):
        g = grads_for(case, params, t)
        u, s = R.update(mode, g, s, params)
        params = _apply(params, u)
        ub.append(ser.to_bytes(u))
        sb.append(ser.to_bytes(s))
        pb.append(ser.to_bytes(params))
        states.append(s)
        plist.append(params)
    return {"sb": sb, "pb": pb, "ub": ub, "states": states, "params": plist, "runner": R}


def resume_from(case, mode, k, sblob, pblob):
    """Restore into the init of a FRESH optimizer object and continue. -> dict(rt, ub, final, pfinal)"""
    from flax import serialization as ser
    R2 = Runner(case)
    params0 = build_params(case)
    tmpl = R2.init(params0)
    restored = ser.from_bytes(tmpl, sblob)
    rt = ser.to_bytes(restored)
    s = _asjax(restored)
    params = _asjax(ser.from_bytes(params0, pblob))
    ub = []
    for t in range(k, case["T"]):
        g = grads_for(case, params, t)
        u, s = R2.update(mode, g, s, params)
        params = _apply(params, u)
        ub.append(ser.to_bytes(u))
    return {"rt": rt, "ub": ub, "final": ser.to_bytes(s), "pfinal": ser.to_bytes(params)}


def _first_diff(a_bytes, b_bytes):
    """first differing leaf of two msgpack-serialized trees -> short text"""
    import numpy as np
    from flax import serialization as ser
    try:
        a, b = ser.msgpack_restore(a_bytes), ser.msgpack_restore(b_bytes)
    except Exception as e:  # noqa: BLE001
        return f"undecodable ({type(e).__name__})"

    def walk(x, y, path):
        if isinstance(x, dict) and isinstance(y, dict):
            if set(x) != set(y):
                return f"{path}: keys {sorted(set(x) ^ set(y))[:4]} differ"
            for k in x:
                r = walk(x[k], y[k], path + "/" + str(k))
                if r:
                    return r
            return None
        if isinstance(x, dict) or isinstance(y, dict):
            return f"{path}: dict vs leaf"
        xa, ya = np.asarray(x), np.asarray(y)
        if xa.dtype != ya.dtype or xa.shape != ya.shape:
            return f"{path}: {xa.dtype}{list(xa.shape)} vs {ya.dtype}{list(ya.shape)}"
        if xa.tobytes() != ya.tobytes():
            try:
                d = np.abs(xa.astype(np.float64) - ya.astype(np.float64))
                n = int((xa != ya).sum())
                return f"{path}: {n}/{xa.size} entries differ, max |diff| {np.nanmax(d):.3e} (|ref| max {np.nanmax(np.abs(ya.astype(np.float64))):.3e})"
            except Exception:  # noqa: BLE001
                return f"{path}: bytes differ"
        return None
    return walk(a, b, "") or "byte streams differ but no leaf differs (encoding)"


def _leafwise_diff(a_bytes, b_bytes):
    """None when two msgpack-serialized trees have the same keys and every leaf has the same dtype, shape and bytes
    (a 0-d array and a numpy scalar of the same dtype count as equal); else a short text naming the first difference."""
    if a_bytes == b_bytes:
        return None
    d = _first_diff(a_bytes, b_bytes)
    return None if d.startswith("byte streams differ but no leaf differs") else d


def _leaf_class(path):
    """leaf path of a serialized tree -> class: list indices and parameter keys dropped
    ('/stats/p0/diagonal_statistics/quantized' -> 'stats/diagonal_statistics/quantized')"""
    import re
    keep = [c for c in path.split("/") if c and not re.fullmatch(r"\d+|p\d+|a|w|rest", c)]
    return "/".join(keep)


def _diff_classes(a_bytes, b_bytes):
    """-> (sorted list of leaf classes with a differing leaf, first detail) of two serialized trees with equal structure;
    a structural difference is reported as class '<structure>'"""
    import numpy as np
    from flax import serialization as ser
    if a_bytes == b_bytes:
        return [], None
    a, b = ser.msgpack_restore(a_bytes), ser.msgpack_restore(b_bytes)
    classes, first = set(), [None]

    def note(path, cls, text):
        classes.add(cls)
        if first[0] is None:
            first[0] = f"{path}: {text}"

    def walk(x, y, path):
        if isinstance(x, dict) and isinstance(y, dict):
            if set(x) != set(y):
                note(path, "<structure>", f"keys {sorted(set(x) ^ set(y))[:4]} differ")
                return
            for k in x:
                walk(x[k], y[k], path + "/" + str(k))
            return
        if isinstance(x, dict) or isinstance(y, dict):
            note(path, "<structure>", "dict vs leaf")
            return
        if x is None or y is None:
            if x is not y:
                note(path, "<structure>", "None vs leaf")
            return
        xa, ya = np.asarray(x), np.asarray(y)
        if xa.dtype != ya.dtype or xa.shape != ya.shape:
            note(path, _leaf_class(path), f"{xa.dtype}{list(xa.shape)} vs {ya.dtype}{list(ya.shape)}")
        elif xa.tobytes() != ya.tobytes():
            try:
                d = float(np.nanmax(np.abs(xa.astype(np.float64) - ya.astype(np.float64))))
                note(path, _leaf_class(path), f"{int((xa != ya).sum())}/{xa.size} entries differ, max |diff| {d:.3e}")
            except Exception:  # noqa: BLE001
                note(path, _leaf_class(path), "bytes differ")
    walk(a, b, "")
    return sorted(classes), first[0]


def _diff_classes_only(a_bytes, b_bytes, wanted):
    """first difference among the leaves of the given classes"""
    import numpy as np
    from flax import serialization as ser
    a, b = ser.msgpack_restore(a_bytes), ser.msgpack_restore(b_bytes)
    found = [None]

    def walk(x, y, path):
        if found[0]:
            return
        if isinstance(x, dict) and isinstance(y, dict):
            for k in x:
                if k in y:
                    walk(x[k], y[k], path + "/" + str(k))
            return
        if isinstance(x, dict) or isinstance(y, dict) or x is None or y is None or _leaf_class(path) not in wanted:
            return
        xa, ya = np.asarray(x), np.asarray(y)
        if xa.dtype != ya.dtype or xa.shape != ya.shape:
            found[0] = f"{path}: {xa.dtype}{list(xa.shape)} vs {ya.dtype}{list(ya.shape)}"
        elif xa.tobytes() != ya.tobytes():
            d = float(np.nanmax(np.abs(xa.astype(np.float64) - ya.astype(np.float64))))
            found[0] = f"{path}: {int((xa != ya).sum())}/{xa.size} entries differ, max |diff| {d:.3e} (|ref| max {float(np.nanmax(np.abs(ya.astype(np.float64)))):.3e})"
    walk(a, b, "")
    return wanted, found[0]


def _all_classes(a_bytes):
    """leaf classes present in a serialized tree"""
    from flax import serialization as ser
    out = set()

    def walk(x, path):
        if isinstance(x, dict):
            for k in x:
                walk(x[k], path + "/" + str(k))
        elif x is not None:
            out.add(_leaf_class(path))
    walk(ser.msgpack_restore(a_bytes), "")
    return sorted(out)


def numpy_fed_policy(case, mode):
    """Which leaves of the NEW STATE (and whether the UPDATE) of an update fed the raw numpy leaves of from_bytes may
    differ from the uninterrupted run without it being a violation.

    Measured on the unchanged tree (quick seeds 0-3 + thorough seed 0, ~1100 numpy-fed steps, .work/scratch_c14/measure.py):
    SM3 (eager), DS under pmap and DS sharded under jit are bit-identical in EVERY leaf and in the update -> all hard.
    In EAGER Distributed Shampoo (full / int8-momentum / compression_rank / frequent_directions) the Kronecker statistics
    are accumulated inside lax.cond / efficient_cond branches that close over the numpy leaves, XLA folds
    `old*w1` as a constant and fuses differently (DESIGN section 5 C14): `statistics` differ by 1 ulp in 5-20 % of the steps on
    the unchanged tree, and with them everything computed FROM them (preconditioners, training_metrics, the Shampoo
    momentum, the update). The same holds for Tearfree Shampoo (blocks stats / roots), Sketchy (sketches) and the
    momentum trace fed by their update. Those leaves stay informational. Everything that does not depend on the
    second-moment statistics — step counters, the grafting accumulators (`diagonal_statistics`, tearfree `norm/*`),
    the grafting momentum (`diagonal_momentum`), `avg_grad` — was bit-identical in every measured step and is HARD."""
    if mode != "eager" or case["kind"] == "sm3":
        return (lambda cls: False), False
    if case["kind"] == "ds":
        soft = ("stats/statistics", "stats/preconditioners", "stats/momentum", "stats/training_metrics")
        return (lambda cls: cls.startswith(soft)), True
    return (lambda cls: cls == "trace" or cls.endswith("/trace") or "blocks/" in cls or "sketches/" in cls), True


def graft_of(case):
    cfg = case["cfg"]
    if case["kind"] == "ds":
        return cfg.get("graft_type", "SGD")
    if case["kind"] == "tf":
        return cfg.get("graft", "-")
    return "-"


def compare_resume(case, mode, k, res, ref, where):
    """-> list of failure dicts (the direct oracle)"""
    fails = []
    T = case["T"]

    def fail(what, detail):
        fails.append({"what": what, "k": k, "mode": mode, "where": where, "detail": detail})
    if res.get("error"):
        fail("resumed run raised (the uninterrupted run did not)", res["error"])
        return fails
    if res["rt"] != ref["sb"][k]:
        fail("state restored by from_bytes re-serializes to different bytes (a leaf was lost or altered by save/restore)",
             _first_diff(res["rt"], ref["sb"][k]))
    for i, ub in enumerate(res["ub"]):
        if ub != ref["ub"][k + i]:
            fail(f"update at step {k + i} after resuming at k={k} is not bit-identical to the uninterrupted run",
                 _first_diff(ub, ref["ub"][k + i]))
            break
    if res["final"] != ref["sb"][T]:
        fail(f"final state after resuming at k={k} is not bit-identical to the uninterrupted run", _first_diff(res["final"], ref["sb"][T]))
    if res["pfinal"] != ref["pb"][T]:
        fail(f"final parameters after resuming at k={k} are not bit-identical", _first_diff(res["pfinal"], ref["pb"][T]))
    return fails


def run_child(case, ks, refs):
    """Resume at every k in `ks`, each in a FRESH Python process. refs: {mode: ref}. -> {(mode,k): result}"""
    out = {}
    with tempfile.TemporaryDirectory(prefix="c14_") as d:
        procs = []
        for k in ks:
            job = {"case": case, "k": k, "blobs": {m: (refs[m]["sb"][k], refs[m]["pb"][k]) for m in refs}}
            jp, rp = os.path.join(d, f"job{k}.pkl"), os.path.join(d, f"res{k}.pkl")
            with open(jp, "wb") as f:
                pickle.dump(job, f)
            # a genuinely different interpreter environment: the string-hash salt of the child differs from this worker's
            # (whatever the worker's is — fixed, inherited or random), and differs between interruption points
            env = dict(os.environ)
            mine = os.environ.get("PYTHONHASHSEED", "")
            seed = 202 + 7 * k
            env["PYTHONHASHSEED"] = str(seed if str(seed) != mine else seed + 1)
            p = subprocess.run([sys.executable, "-m", "harness.props.c14", "--child", jp, rp], cwd=kit.ROOT, env=env,
                               capture_output=True, text=True, timeout=1500)
            if p.returncode != 0 or not os.path.exists(rp):
                raise kit.InfraError(f"C14 child process failed rc={p.returncode}: {p.stderr[-800:]}")
            with open(rp, "rb") as f:
                r = pickle.load(f)
            for m in refs:
                out[(m, k)] = r[m]
                if isinstance(out[(m, k)], dict):
                    out[(m, k)]["hashseed"] = r.get("hashseed")
            procs.append(k)
    return out


def child_main(job_path, res_path):
    with open(job_path, "rb") as f:
        job = pickle.load(f)
    case = job["case"]
    _setup(case["x64"])
    res = {"hashseed": os.environ.get("PYTHONHASHSEED"), "warmup": 0}
    # a different number of prior traces / calls than the reference worker had: for odd k a throw-away optimizer of the
    # same configuration is traced and run on other parameters first (per-process streams, caches keyed by call order)
    if job["k"] % 2 == 1:
        try:
            w = dict(case, shapes=[[d + 1 for d in sh] for sh in case["shapes"]], gseed=case["gseed"] + 1)
            m0 = list(job["blobs"])[0]
            Rw = Runner(w)
            pw = build_params(w)
            Rw.update(m0, grads_for(dict(w, scales=[1.0]), pw, 0), _asjax(Rw.init(pw)), pw)
            res["warmup"] = 1
        except Exception:  # noqa: BLE001
            pass
    for m, (sblob, pblob) in job["blobs"].items():
        try:
            res[m] = resume_from(case, m, job["k"], sblob, pblob)
        except Exception as e:  # noqa: BLE001
            res[m] = {"error": _exc(e)}
    res["pid"] = os.getpid()
    with open(res_path, "wb") as f:
        pickle.dump(res, f)


def _exc(e):
    import traceback
    tb = traceback.extract_tb(e.__traceback__)
    inside = [fr for fr in tb if "precondition" in fr.filename]
    fr = inside[-1] if inside else (tb[-1] if tb else None)
    where = f"{os.path.basename(fr.filename)}:{fr.lineno}" if fr else "?"
    return f"{type(e).__name__}: {str(e)[:200]} @ {where}"


# ---------------------------------------------------------------------------- input purity
def purity_check(case, mode, k, ref):
    """update on writable numpy copies must not change them; update on read-only from_bytes leaves must not raise"""
    import numpy as np
    import jax
    from flax import serialization as ser
    fails, info = [], {}
    R = Runner(case)   # a fresh object: no state may be needed from the one that produced the checkpoint
    params = ref["params"][k]
    g = grads_for(case, params, k)

    def fail(what, detail):
        fails.append({"what": what, "k": k, "mode": mode, "where": "purity", "detail": detail})
    w = jax.tree.map(lambda x: np.array(x), ref["states"][k])
    before = [(jax.tree_util.keystr(p), np.array(x).tobytes()) for p, x in jax.tree_util.tree_leaves_with_path(w)]
    try:
        R.update(mode, g, w, params)
    except Exception as e:  # noqa: BLE001
        fail("update raised on a state whose leaves are writable numpy copies", _exc(e))
    after = [(jax.tree_util.keystr(p), np.asarray(x).tobytes()) for p, x in jax.tree_util.tree_leaves_with_path(w)]
    for (pa, a), (_pb, b) in zip(before, after):
        if a != b:
            fail("update mutated a leaf of its INPUT state in place (writable numpy copy changed)", pa)
            break
    tmpl = R.init(build_params(case))
    ro = ser.from_bytes(tmpl, ref["sb"][k])
    info["readonly_leaves"] = sum(1 for x in jax.tree_util.tree_leaves(ro) if isinstance(x, np.ndarray) and not x.flags.writeable)
    try:
        u, s2 = R.update(mode, g, ro, params)
        ucls, du = _diff_classes(ser.to_bytes(u), ref["ub"][k])
        scls, dsn = _diff_classes(ser.to_bytes(s2), ref["sb"][k + 1])
        info["numpy_fed_bit_equal"] = not ucls and not scls
        info["numpy_fed_update_differs"] = bool(ucls)
        info["numpy_fed_state_classes"] = scls
        info["numpy_fed_diff"] = (("update " + du) if du else None) or (("new state " + dsn) if dsn else None)
        info["numpy_fed_state_detail"] = dsn
        soft_cls, soft_update = numpy_fed_policy(case, mode)
        hard = [c for c in scls if not soft_cls(c)]
        info["numpy_fed_soft_classes"] = [c for c in scls if soft_cls(c)]
        if hard:
            _c, d = _diff_classes_only(ser.to_bytes(s2), ref["sb"][k + 1], hard)
            fail("the state after an eager update fed the raw numpy leaves returned by from_bytes is not bit-identical to the "
                 f"uninterrupted run in leaves that are bit-identical on the unchanged tree ({', '.join(hard)})", d)
        if ucls and not soft_update:
            fail("the update computed from the raw numpy leaves returned by from_bytes is not bit-identical to the uninterrupted run", du)
    except Exception as e:  # noqa: BLE001
        fail("update raised on the read-only numpy leaves returned by flax from_bytes", _exc(e))
    if ser.to_bytes(ro) != ref["sb"][k]:
        fail("update changed the restored (read-only) input state", _first_diff(ser.to_bytes(ro), ref["sb"][k]))
    return fails, info


# ---------------------------------------------------------------------------- tree description (model correspondence)
def _sv(x):
    import numpy as np
    if isinstance(x, (bool, np.bool_)):
        return repr(bool(x))
    if isinstance(x, (int, np.integer)):
        return repr(int(x))
    if isinstance(x, (list, tuple)):
        return "[" + ", ".join(_sv(y) for y in x) + "]"
    if x is None or isinstance(x, (str, float)):
        return repr(x)
    try:
        return np.dtype(x).name
    except Exception:  # noqa: BLE001
        return repr(x)[:60]


class Unsupported(Exception):
    pass


def _is_nt(x):
    return isinstance(x, tuple) and hasattr(x, "_fields")


def _is_flax_dc(x):
    import dataclasses
    return dataclasses.is_dataclass(x) and not isinstance(x, type) and getattr(type(x), "_flax_dataclass", False)


def _dc_fields(x):
    import dataclasses
    data, static = [], []
    for f in dataclasses.fields(x):
        (data if f.metadata.get("pytree_node", True) else static).append(f.name)
    return data, static


def map_leaves(f, x):
    """rebuild x with f applied to every flax-leaf, containers in their own (not jax-sorted) order"""
    from flax import serialization as ser
    if x is None:
        return None
    if _is_nt(x):
        return type(x)(**{k: map_leaves(f, getattr(x, k)) for k in x._fields})
    if _is_flax_dc(x):
        data, _ = _dc_fields(x)
        return x.replace(**{k: map_leaves(f, getattr(x, k)) for k in data})
    if type(x) is dict:
        return {k: map_leaves(f, v) for k, v in x.items()}
    if type(x) is list:
        return [map_leaves(f, v) for v in x]
    if type(x) is tuple:
        return tuple(map_leaves(f, v) for v in x)
    if type(x) in ser._STATE_DICT_REGISTRY:  # noqa: SLF001
        raise Unsupported(type(x).__name__)
    return f(x)


def describe(x):
    """tree JSON of the wire format of Drv/C14.lean; leaves must be Python ints"""
    if x is None:
        return None
    if _is_nt(x):
        if set(x._fields) == {"name", "fields", "values"}:
            raise Unsupported("NamedTuple with the legacy field names name/fields/values")
        return {"k": "nt", "n": type(x).__name__, "c": [[k, describe(getattr(x, k))] for k in x._fields]}
    if _is_flax_dc(x):
        data, static = _dc_fields(x)
        return {"k": "dc", "n": type(x).__name__, "s": [[k, _sv(getattr(x, k))] for k in static],
                "c": [[k, describe(getattr(x, k))] for k in data]}
    if type(x) is dict:
        return {"k": "dict", "c": [[str(k), describe(v)] for k, v in x.items()]}
    if type(x) is list:
        return {"k": "list", "e": [describe(v) for v in x]}
    if type(x) is tuple:
        return {"k": "tuple", "e": [describe(v) for v in x]}
    if isinstance(x, (dict, list, tuple)):
        raise Unsupported(type(x).__name__)
    if isinstance(x, bool) or not isinstance(x, int):
        raise Unsupported("leaf " + type(x).__name__)
    return {"l": int(x)}


def sd_json(sd):
    if sd is None:
        return None
    if isinstance(sd, dict):
        return {"d": [[str(k), sd_json(v)] for k, v in sd.items()]}
    if isinstance(sd, bool) or not isinstance(sd, int):
        raise Unsupported("state-dict leaf " + type(sd).__name__)
    return {"l": int(sd)}


def _sd_paths(sd, path=()):
    """paths of all dict nodes in a state dict"""
    out = []
    if isinstance(sd, dict):
        out.append(path)
        for k, v in sd.items():
            out.extend(_sd_paths(v, path + (k,)))
    return out


def _sd_get(sd, path):
    for k in path:
        sd = sd[k]
    return sd


def _mutations(sd, rng, n):
    """(label, mutated state dict) — key dropped / added / renamed, subtree replaced by a leaf, leaf replaced by a dict"""
    import copy
    out = []
    dict_paths = _sd_paths(sd)
    for _ in range(n):
        m = copy.deepcopy(sd)
        if not isinstance(m, dict):
            break
        path = rng.choice(dict_paths)
        node = _sd_get(m, path)
        kind = rng.choice(["drop", "drop", "add", "rename", "leaf", "todict"])
        keys = list(node.keys())
        if kind in ("drop", "rename", "leaf", "todict") and not keys:
            kind = "add"
        if kind == "drop":
            del node[rng.choice(keys)]
        elif kind == "add":
            node[rng.choice(["zz_extra", "7", "99"])] = 123456
        elif kind == "rename":
            k = rng.choice(keys)
            node[k + "_x"] = node.pop(k)
        elif kind == "leaf":
            k = rng.choice(keys)
            node[k] = 424242 if rng.random() < 0.7 else None
        else:
            k = rng.choice(keys)
            node[k] = {"0": node[k]}
        out.append((kind + "@" + "/".join(path), m))
    return out


def model_probe(tree, rng, n_mut, tag):
    """Real flax behaviour on `tree` (any real state / synthetic tree) + the driver requests that must reproduce it.
    -> list of {"req": driver request, "real": {...}, "tag": ...}"""
    from flax import serialization as ser
    counter = [0]

    def nxt(_):
        counter[0] += 1
        return counter[0]
    ids = map_leaves(nxt, tree)
    tmpl = map_leaves(lambda _: -1, ids)
    tj, tmj = describe(ids), describe(tmpl)
    probes = []
    sd = ser.to_state_dict(ids)
    probes.append({"tag": tag, "what": "state_dict", "req": {"op": "state_dict", "tree": tj}, "real": {"sd": sd_json(sd)}})
    back = ser.from_bytes(tmpl, ser.to_bytes(ids))
    probes.append({"tag": tag, "what": "roundtrip", "req": {"op": "roundtrip", "tree": tj},
                   "real": {"restored": describe(back), "same": describe(back) == tj}})
    for label, m in _mutations(sd, rng, n_mut):
        try:
            r = ser.from_state_dict(tmpl, m)
            try:
                real = {"ok": describe(r)}
            except Unsupported as e:
                real = {"ok_undescribable": str(e)}
        except Exception as e:  # noqa: BLE001
            real = {"err": type(e).__name__}
        probes.append({"tag": tag, "what": "restore:" + label.split("@")[0], "label": label,
                       "req": {"op": "restore", "template": tmj, "sd": sd_json(m)}, "real": real})
    # toy loop through real bytes
    import jax
    gs = [rng.randint(-3, 3) for _ in range(rng.randint(1, 5))]
    k = rng.randint(0, len(gs))

    def step(s, g):
        s2 = map_leaves(lambda a: 3 * a + g, s)
        return sum(jax.tree_util.tree_leaves(s2)), s2
    s, ups = ids, []
    for g in gs:
        u, s = step(s, g)
        ups.append(int(u))
    s2, ups2 = ids, []
    for i, g in enumerate(gs + [None]):
        if i == k:
            s2 = ser.from_bytes(tmpl, ser.to_bytes(s2))
        if g is None:
            break
        u, s2 = step(s2, g)
        ups2.append(int(u))
    probes.append({"tag": tag, "what": "resume", "req": {"op": "resume", "tree": tj, "template": tmj, "grads": gs, "k": k},
                   "real": {"run": {"updates": ups, "final": describe(s)}, "resumed": {"updates": ups2, "final": describe(s2)}}})
    return probes


def synthetic_trees(rng, n):
    """random trees of real Python / flax node types (incl. empty containers, None, nested static fields)"""
    import collections
    from flax import struct
    from typing import Any
    NT0 = collections.namedtuple("EmptyNT", [])
    NT2 = collections.namedtuple("PairNT", ["count", "stats"])
    NT3 = collections.namedtuple("TripleNT", ["mu", "nu", "extra"])
    global _SynQ, _SynL  # flax dataclasses must be defined once per process
    if "_SynQ" not in globals():
        @struct.dataclass
        class _SynQ:  # noqa: N801
            quantized: Any
            diagonal: Any
            dtype: Any = struct.field(pytree_node=False)
            shape: Any = struct.field(pytree_node=False)

        @struct.dataclass
        class _SynL:  # noqa: N801
            momentum: Any
            index_start: Any = struct.field(pytree_node=False)
        globals()["_SynQ"], globals()["_SynL"] = _SynQ, _SynL
    SynQ, SynL = globals()["_SynQ"], globals()["_SynL"]

    def gen(depth):
        x = rng.random()
        if depth <= 0 or x < 0.25:
            return None if rng.random() < 0.15 else 0
        kids = lambda m: [gen(depth - 1) for _ in range(m)]  # noqa: E731
        if x < 0.37:
            return kids(rng.randint(0, 3))
        if x < 0.47:
            return tuple(kids(rng.randint(0, 3)))
        if x < 0.62:
            return {rng.choice(["w", "b", "p0", "p1", "0", "1", "a"]) + str(i): v for i, v in enumerate(kids(rng.randint(0, 3)))}
        if x < 0.70:
            return NT0()
        if x < 0.80:
            return NT2(*kids(2))
        if x < 0.86:
            return NT3(*kids(3))
        if x < 0.95:
            return SynQ(gen(depth - 1), gen(depth - 1), rng.choice(["int8", "int16", "float32"]), [rng.randint(1, 4), rng.randint(1, 4)])
        return SynL(gen(depth - 1), rng.randint(0, 9))
    return [gen(rng.randint(1, 4)) for _ in range(n)]


# ---------------------------------------------------------------------------- the worker task
def run_case(task):
    """One case: uninterrupted runs, resumes at every k (in-process and / or fresh process), purity, model probes."""
    case, tier = task["case"], task["tier"]
    _setup(case["x64"])
    import jax
    out = {"fails": [], "evals": [], "info": {}, "probes": [], "rejected": None, "notes": []}
    rng = random.Random(case["gseed"])
    T = case["T"]
    refs = {}
    try:
        rej = {}
        for m in modes_of(case):
            try:
                refs[m] = run_uninterrupted(case, m)
            except Exception as e:  # noqa: BLE001
                rej[m] = {"mode": m, "error": _exc(e), "cls": type(e).__name__}
        if not refs:
            out["rejected"] = next(iter(rej.values()))
            return out
        for m, r in rej.items():   # runs in one mode but not in another: the surviving modes are still checked
            out["notes"].append(f"uninterrupted run raised in mode {m} only: {r['error']}")
            out["mode_rejected"] = out.get("mode_rejected", []) + [m]
        # ---- resume at every k, in-process, fresh optimizer object
        for m, ref in refs.items():
            for k in range(T + 1):
                try:
                    res = resume_from(case, m, k, ref["sb"][k], ref["pb"][k])
                except Exception as e:  # noqa: BLE001
                    res = {"error": _exc(e)}
                f = compare_resume(case, m, k, res, ref, "fresh-object")
                out["fails"].extend(f)
                out["evals"].append({"mode": m, "k": k, "where": "fresh-object", "ok": not f})
        # ---- fresh process
        ks = list(range(T + 1)) if tier == "thorough" else [case.get("child_k", T // 2) % (T + 1)]
        if task.get("no_child"):
            ks = []
        slim = {m: {"sb": r["sb"], "pb": r["pb"]} for m, r in refs.items()}
        child = run_child(case, ks, slim) if ks else {}
        for (m, k), res in child.items():
            f = compare_resume(case, m, k, res, refs[m], "fresh-process")
            out["fails"].extend(f)
            out["evals"].append({"mode": m, "k": k, "where": "fresh-process", "ok": not f})
        # ---- purity (eager where it exists: that is where numpy leaves reach the implementation un-copied)
        pm = "eager" if "eager" in refs else next(iter(refs))
        pks = list(range(T + 1)) if tier == "thorough" else sorted({0, 1 + rng.randrange(T), T})
        nbe = nne = 0
        for k in pks:
            if k >= T:
                continue
            f, info = purity_check(case, pm, k, refs[pm])
            out["fails"].extend(f)
            out["evals"].append({"mode": pm, "k": k, "where": "purity", "ok": not f})
            if "numpy_fed_bit_equal" in info:
                nbe += info["numpy_fed_bit_equal"]
                nne += not info["numpy_fed_bit_equal"]
                for cl in info.get("numpy_fed_soft_classes", []):
                    sc = out["info"].setdefault("numpy_fed_soft_classes", {})
                    sc[cl] = sc.get(cl, 0) + 1
            out["info"]["readonly_leaves"] = max(out["info"].get("readonly_leaves", 0), info.get("readonly_leaves", 0))
        out["info"]["numpy_fed_bit_equal"] = nbe
        out["info"]["numpy_fed_ulp_diff"] = nne
        # ---- hypothesis of the theorems on the real run: skeleton (kinds, keys, static fields) of every state == init's
        anyref = refs[next(iter(refs))]
        try:
            sk0 = describe(map_leaves(lambda _: 0, anyref["states"][0]))
            tm = describe(map_leaves(lambda _: 0, Runner(case).init(build_params(case))))
            out["info"]["static_same_as_fresh_init"] = all(
                describe(map_leaves(lambda _: 0, s)) == tm for s in anyref["states"])
            out["info"]["skeleton_nodes"] = json.dumps(sk0).count('"k"')
            out["info"]["static_fields"] = json.dumps(sk0).count('"dc"')
            # ---- model probes on the real state (after the last step) and on the init state
            out["probes"] = model_probe(anyref["states"][T], rng, 4 if tier == "quick" else 8, "real") + \
                model_probe(anyref["states"][0], rng, 2, "real")
        except Unsupported as e:
            out["notes"].append(f"state not describable for the model: {e}")
        # has the state actually moved? (non-trivial resume)
        out["info"]["state_changes"] = sum(1 for i in range(T) if anyref["sb"][i] != anyref["sb"][i + 1])
        out["info"]["state_bytes"] = len(anyref["sb"][T])
    finally:
        try:
            jax.clear_caches()
        except Exception:  # noqa: BLE001
            pass
    return out


def run_synthetic(task):
    _setup(False)
    rng = random.Random(task["seed"])
    probes = []
    for t in synthetic_trees(rng, task["n"]):
        try:
            probes.extend(model_probe(t, rng, 4, "synthetic"))
        except Unsupported:
            pass
    return probes


# ============================================================================ parent side
def _cost(case):
    base = {"ds": 10, "sm3": 1, "tf": 3, "tfraw": 2}[case["kind"]]
    return base * (case["T"] + 1) ** 2


def compare_probes(ctx, probes):
    if not probes:
        return
    replies = ctx.driver([p["req"] for p in probes])
    for p, rep in zip(probes, replies):
        real, what = p["real"], p["what"]
        op = what.split(":")[0]
        case = {"tag": p["tag"], "what": what, "label": p.get("label"), "req": p["req"]}
        if "error" in rep:
            ctx.disagree(op, case, real, rep, "driver error")
            continue
        if op == "state_dict":
            ok = rep.get("sd") == real["sd"] and rep.get("wf") is True
        elif op == "roundtrip":
            ok = rep.get("restored", {}).get("ok") == real["restored"] and rep.get("same") == real["same"] and real["same"] is True
        elif op == "restore":
            if "ok_undescribable" in real:
                ctx.dist("restore_probe_undescribable")
                continue
            if "err" in real:
                ok = "err" in rep
            else:
                ok = rep.get("ok") == real["ok"] and "ok" in rep
            ctx.dist("restore_probe_" + ("raises" if "err" in real else "succeeds"))
        else:
            ok = (rep.get("run") == real["run"] and rep.get("resumed", {}).get("ok") == real["resumed"]
                  and rep.get("checkpointed", {}).get("ok") == real["run"] and real["run"] == real["resumed"])
        ctx.corr(op + ("." + p["tag"]), ok)
        if not ok:
            ctx.disagree(op, case, real, rep, "flax behaviour differs from the pytree model")


def execute(ctx, cases, no_child=False):
    tasks = [{"case": c, "tier": ctx.tier, "no_child": no_child} for c in cases]
    order = sorted(range(len(tasks)), key=lambda i: -_cost(cases[i]))
    results = kit.parallel_map(run_case, [tasks[i] for i in order], nproc=14, timeout=3000)
    res = [None] * len(tasks)
    for i, r in zip(order, results):
        res[i] = r
    probes = []
    runnable = 0
    for c, r in zip(cases, res):
        label = f"{c['kind']}.{c['variant']}"
        if r["rejected"]:
            ctx.dist("rejected_by_uninterrupted_run." + label)
            ctx.notes.append(f"configuration not runnable (uninterrupted run raised; not C14's subject): {label} {r['rejected']['error']}")
            if c.get("corpus"):
                ctx.violation(f"corpus case {c['corpus']} (repaired defect) no longer runs: {r['rejected']['error']}", {"case": c})
            continue
        runnable += 1
        ctx.dist("cases." + label)
        for e in r["evals"]:
            ctx.evaluated()
            ctx.cov["search_evaluations"] += 1
            ctx.dist(f"{e['where']}.{e['mode']}")
            if e["where"] != "purity" and 0 < e["k"] and r["info"].get("state_changes", 0) > 0:
                ctx.nontrivial((label, json.dumps(c["cfg"], sort_keys=True), json.dumps(c["shapes"]), c["gseed"], e["mode"], e["k"], e["where"]))
        for k in ("numpy_fed_bit_equal", "numpy_fed_ulp_diff"):
            ctx.dist(k, r["info"].get(k, 0))
            nf = ctx.cov.setdefault("numpy_fed", {}).setdefault(f"{label}|graft={graft_of(c)}|{'eager' if 'eager' in modes_of(c) else modes_of(c)[0]}",
                                                                {"numpy_fed_bit_equal": 0, "numpy_fed_ulp_diff": 0, "soft_classes_that_differed": {}})
            nf[k] += r["info"].get(k, 0)
        for cl, n in r["info"].get("numpy_fed_soft_classes", {}).items():
            nf["soft_classes_that_differed"][cl] = nf["soft_classes_that_differed"].get(cl, 0) + n
        if r["info"].get("static_same_as_fresh_init") is False:
            ctx.dist("static_part_differs_from_fresh_init")
            ctx.notes.append(f"hypothesis sameStatic(state_k, fresh init) does not hold on a real run ({label}); "
                             "the bitwise oracle decides whether that matters")
        for n in r["notes"]:
            ctx.notes.append(f"{label}: {n}")
        for m in r.get("mode_rejected", []):
            ctx.dist(f"mode_not_runnable.{m}.{label}")
        seen = set()
        for f in r["fails"]:
            key = (f["what"], f["mode"], f["where"])
            if key in seen:
                continue
            seen.add(key)
            ctx.violation(f"{label} [{f['mode']}, {f['where']}, k={f['k']}]: {f['what']}: {f['detail']}",
                          {"case": c, "k": f["k"], "mode": f["mode"], "where": f["where"]})
        probes.extend(r["probes"])
        if len(ctx.cov["samples"]) < 6 and r["evals"]:
            ctx.sample({"case": c, "modes": modes_of(c), "resumes_checked": len(r["evals"]), "all_bit_identical": not r["fails"],
                        "info": r["info"]})
    compare_probes(ctx, probes)
    return runnable


def check_constants(ctx):
    """the state classes the property is anchored in still keep their non-array metadata in pytree_node=False fields
    and flax still serializes data fields only (the model's `toStateDict` rule)"""
    import dataclasses
    from flax import serialization as ser
    from precondition import quantization_utils as qu
    static = [f.name for f in dataclasses.fields(qu.QuantizedValue) if not f.metadata.get("pytree_node", True)]
    ctx.cov["constants"] = {"QuantizedValue.static_fields": static,
                            "flax_registry_has": [t.__name__ for t in (dict, list, tuple) if t in ser._STATE_DICT_REGISTRY]}  # noqa: SLF001
    for t in (dict, list, tuple):
        if t not in ser._STATE_DICT_REGISTRY:  # noqa: SLF001
            ctx.const_fail("flax registry", f"{t.__name__} not registered for state dicts: the model's node kinds no longer apply")


def run(ctx):
    ctx.lean_stage(extra_props=("Compose",))   # + PrecondVerif.ComposeProps.C14.* (sharded resume = C14 x C07, Props/Compose.lean)
    check_constants(ctx)
    cases = corpus_cases() + gen_cases(ctx.tier, ctx.seed)
    only = os.environ.get("VERIF_C14_ONLY")   # development aid (mutation self-tests): e.g. "sm3,tf.SKETCHY"
    if only:
        keep = set(only.split(","))
        cases = [c for c in cases if c["kind"] in keep or f"{c['kind']}.{c['variant']}" in keep]
        ctx.notes.append(f"VERIF_C14_ONLY={only}: restricted run, not a full check")
    ctx.cov["rule"] = (
        "one evaluation = one (configuration, history, interruption point k, execution mode, fresh object | fresh process) resume "
        "compared bitwise with the uninterrupted run, or one input-purity probe; non-trivial = k >= 1 and the serialized state "
        "changed during the run (so a stale or lost leaf is visible); distinct by (variant, options, shapes, history seed, mode, k, where)")
    ctx.assumptions += [
        "restored leaves are fed back as jax.Array (jnp.asarray), uninterrupted and resumed alike; eager AND jit (pmap / sharded "
        "variants in their compiled mode only)",
        "bitwise = equality of flax msgpack bytes (dtype, shape, buffer) of every update, the final state and the final parameters",
        "parameters are part of the checkpoint (restored with from_bytes as well); gradients are a function of (seed, step)",
        "model correspondence EXACT on tree descriptions (kinds, class names, keys, static field values, integer leaf ids)",
        "XLA determinism across processes on this machine (same flags, single-threaded Eigen) is assumed by the fresh-process comparison",
    ]
    runnable = execute(ctx, cases)
    if runnable < 0.6 * len(cases):
        raise kit.InfraError(f"only {runnable}/{len(cases)} generated configurations ran at all; the generator no longer fits the package")
    syn = kit.parallel_map(run_synthetic, [{"seed": ctx.seed * 7919 + i, "n": 30 if ctx.tier == "quick" else 120} for i in range(4)], nproc=4)
    compare_probes(ctx, [p for ch in syn for p in ch])
    ctx.cov["policies"] = {"resume": "BITWISE", "model": "EXACT"}
    d = ctx.cov["distribution"]
    ctx.notes.append(f"updates fed the raw read-only numpy leaves that from_bytes returns: {d.get('numpy_fed_bit_equal', 0)} bit-identical (update and "
                     f"new state) to the uninterrupted run, {d.get('numpy_fed_ulp_diff', 0)} differed ONLY in leaves that differ on the unchanged tree too "
                     "(second-moment statistics accumulated inside lax.cond branches closing over numpy leaves, and what is computed from them: "
                     "XLA constant folding, DESIGN §5 C14; per variant / graft type in coverage.numpy_fed). HARD clause: SM3, DS under pmap, DS sharded "
                     "entirely; eager DS / Tearfree in step counters, grafting accumulators, grafting momentum, avg_grad (see numpy_fed_policy)")


def replay(ctx, data):
    cases, seen = [], set()
    for v in data.get("violations", []):
        c = v.get("case", {}).get("case")
        if c is not None and json.dumps(c, sort_keys=True) not in seen:
            seen.add(json.dumps(c, sort_keys=True))
            cases.append(c)
    ctx.cov["rule"] = "replay of recorded failing configurations (all interruption points, all modes, fresh object and fresh process)"
    if cases:
        execute(ctx, cases)
    probes = [s["detail"]["case"] for s in data.get("stage_failures", [])
              if isinstance(s.get("detail"), dict) and isinstance(s["detail"].get("case"), dict) and "req" in s["detail"]["case"]]
    if probes:
        ctx.notes.append(f"{len(probes)} recorded model-correspondence probes: re-run the check to re-derive the real side")


if __name__ == "__main__":
    if len(sys.argv) == 4 and sys.argv[1] == "--child":
        os.environ.setdefault("JAX_PLATFORMS", "cpu")
        child_main(sys.argv[2], sys.argv[3])
        sys.exit(0)
