"""C15 — the Tearfree optimizer equals its documented composition.

    update(t) = -lr(t) * momentum( weight_decay( graft( second_order( merge_and_pad(g) ) ) ) )

Implementation runner: the PUBLIC `precondition.tearfree.optimizer.tearfree(lr, options)` (init / update, jit or eager) on small
parameter trees over gradient histories; Shampoo under `jax_enable_x64` (float64), Sketchy in float32 WITHOUT x64.

Direct oracle (S; no reference to the Lean model) — an independent float64 numpy reference written from the documentation
(`ref_*` below): merge small dimensions, split every merged dimension >= block_size into blocks (the reference does NOT pad: the
edge blocks are simply smaller, so agreement also shows that zero-padding never changes the values delivered for real entries),
per-block decayed covariances, exact inverse (2 x rank)-th roots by `numpy.linalg.eigh` with eigenvalues <= cut x (largest of that
block) treated as zero, resp. the frequent-directions root for Sketchy; graft (SGD / RMSProp closed form / AdaFactor from the optax
documentation) with the skip mask evaluated on the ORIGINAL shape; weight decay before or after momentum; ema pre-scale; trace with
or without Nesterov; -lr(t). Further oracle clauses on the implementation alone:
  * linear_in_lr: update(2*lr) == 2*update(lr) BITWISE (dyadic lr, constant and scheduled), state identical;
  * merging / zero-padding invisible: a leaf with a padding-inducing block size against the per-block reference (above) and
    against the implementation itself run on the separately extracted blocks.
Correspondence (K): the executable Lean composition (`Model/Tearfree.lean`, op `tf_run` of `drv_c15`, binary64, eigh/SVD kernel =
cyclic Jacobi in the driver whose outputs are re-checked against the eigh specification at run time) folded over the same history.
Policies: TOL(1e-9 * kappa) Shampoo/x64, TOL(1e-4 * kappa) Sketchy/float32 (kappa from the reference's spectra), EXACT for shapes and
masks, bitwise for linear_in_lr.
"""
import math
import os
import random

from harness import kit, consts

HUGE = 1_000_000


# ============================================================================ independent numpy reference (float64)
def ref_merge_shape(shape, merge_dims):
    """documented: collapse dimensions left to right while the running product stays <= merge_dims; unit dims vanish;
    an all-ones (or empty) shape is a scalar."""
    shape = list(shape)
    if all(s == 1 for s in shape):
        return []
    out, p = [], 1
    for d in shape:
        if p * d <= merge_dims:
            p *= d
        else:
            if p > 1:
                out.append(p)
            p = d
    if p > 1:
        out.append(p)
    return out


def ref_mask(g, shape):
    """graft skip rule on the ORIGINAL shape (never for GraftingType.NONE)"""
    if g["type"] == "NONE":
        return False
    return (g["rank1"] and len(shape) <= 1) or any(s > g["dim_gt"] for s in shape)


def _unfold(np, x, a):
    return np.moveaxis(x, a, 0).reshape(x.shape[a], -1)


def _apply_axis(np, x, M, a):
    """y[.., i, ..] = sum_c M[i, c] x[.., c, ..] along axis a"""
    return np.moveaxis(np.tensordot(M, x, axes=([1], [a])), 0, a)


class RefShampoo:
    """blocked Shampoo on one merged (unpadded) tensor"""

    def __init__(self, np, ms, c):
        self.np, self.ms, self.c = np, list(ms), c
        B = c["block"]
        self.ranges = [[(i, min(i + B, d)) for i in range(0, d, B)] if d >= B else [(0, d)] for d in ms]
        import itertools
        self.keys = list(itertools.product(*[range(len(r)) for r in self.ranges]))
        self.stats = {k: [np.zeros((r[i][1] - r[i][0],) * 2) for r, i in zip(self.ranges, k)] for k in self.keys}
        self.roots = {k: [np.eye(r[i][1] - r[i][0]) for r, i in zip(self.ranges, k)] for k in self.keys}
        self.p = 2 * len(ms)
        self.kappa = 1.0
        self.near_cut = False
        self.nroots = 0
        self.cancel = 1.0      # largest ||P|| ||g|| / ||P g|| seen: how much of the preconditioned gradient is rounding noise

    def root(self, C):
        np = self.np
        w, v = np.linalg.eigh((C + C.T) / 2)
        wmax = w.max()
        cut = self.c["cut"] * wmax
        keep = w > cut
        if wmax > 0:
            r = w / wmax
            if np.any((r > self.c["cut"] / 8) & (r < self.c["cut"] * 8)):
                self.near_cut = True
            if keep.any():
                self.kappa = max(self.kappa, float(wmax / w[keep].min()))
        self.nroots += 1
        h = np.where(keep, np.where(keep, w, 1.0) ** (-1.0 / self.p), 0.0)
        return (v * h) @ v.T

    def step(self, t, G):
        np, c = self.np, self.c
        out = np.zeros_like(G)
        bound2 = 0.0
        for k in self.keys:
            sl = tuple(slice(*r[i]) for r, i in zip(self.ranges, k))
            gb = G[sl]
            if t % c["sf"] == 0:
                for a in range(len(self.ms)):
                    u = _unfold(np, gb, a)
                    new = u @ u.T
                    d = c["so_decay"]
                    self.stats[k][a] = self.stats[k][a] + new if d == 1.0 else self.stats[k][a] * d + new * (1 - d)
            if t % c["pf"] == 0:
                self.roots[k] = [self.root(C) for C in self.stats[k]]
            y = gb
            amp = 1.0
            for a in range(len(self.ms)):
                y = _apply_axis(np, y, self.roots[k][a], a)
                amp *= float(np.linalg.norm(self.roots[k][a], 2))
            out[sl] = y
            bound2 += (amp * float(np.linalg.norm(gb))) ** 2
        nb = float(np.linalg.norm(out))
        if bound2 > 0:
            self.cancel = max(self.cancel, math.sqrt(bound2) / nb if nb > 0 else float("inf"))
        return out


class RefSketchy:
    """frequent-directions preconditioning of one merged tensor (covariance units: lam = eigenvalues of the sketch, rho = escaped mass)"""

    def __init__(self, np, ms, c, ranks=None):
        self.np, self.ms, self.c = np, list(ms), c
        sk = c["sk"]
        ranks = ranks if ranks is not None else [sk["rank"]] * len(ms)     # `memory_alloc`: a rank per axis of this tensor
        self.k = [min(d, r) for d, r in zip(ms, ranks)]
        self.V = [np.zeros((d, k)) for d, k in zip(ms, self.k)]
        self.lam = [np.zeros(k) for k in self.k]
        self.rho = [0.0 for _ in ms]
        self.inv = [np.zeros(k) for k in self.k]
        self.inv_rho = [0.0 for _ in ms]
        self.kappa = 1.0
        self.near_cut = False
        self.cancel = 1.0
        self.alpha = -1.0 / (2 * max(len(ms), 1))

    def fd(self, a, G):
        np, sk = self.np, self.c["sk"]
        d, k, beta = self.ms[a], self.k[a], sk["decay"]
        B = np.concatenate([self.V[a] * np.sqrt(beta * self.lam[a])[None, :], _unfold(np, G, a)], axis=1)
        U, s, _ = np.linalg.svd(B, full_matrices=False)
        smax = s.max() if len(s) else 0.0
        cth = s[k] if k < len(s) else 0.0
        top = s[:k]
        lam = np.maximum(top - cth, 0.0) * (top + cth)
        keep = lam > 0
        rho = beta * self.rho[a] + cth * cth
        und = top * top + beta * self.rho[a]             # = lam + rho on the kept directions
        eps = (und.max() if len(und) else 0.0) * sk["eps"] if (sk["rel"] and sk["eps"] > 0) else sk["eps"]
        if smax > 0:
            # float32 conditioning of the inverse roots: |alpha| * d(s^2) / (s^2 + eps)
            dens = [und[i] + eps for i in range(k) if keep[i]] + ([rho + eps] if rho > 0 else [])
            if dens:
                self.kappa = max(self.kappa, float(smax * smax / min(dens)))
            gaps = (top - cth) / smax
            if np.any((gaps < 1e-3) & (gaps > -1)) and k < len(s):
                # a direction that is only marginally above the cut-off singular value (or a rank-deficient factor)
                self.near_cut = True
            if k >= len(s) and np.any(top / smax < 1e-3):
                self.near_cut = True
        self.V[a] = U[:, :k] * keep[None, :]
        self.lam[a] = np.where(keep, lam, 0.0)
        self.rho[a] = rho
        self.inv[a] = np.where(keep, (und + eps) ** self.alpha, 0.0)
        self.inv_rho[a] = (rho + eps) ** self.alpha if rho > 0 else 0.0

    def step(self, t, G):
        np = self.np
        if t % self.c["sk"]["freq"] == 0:
            for a in range(len(self.ms)):
                self.fd(a, G)
        y = G
        amp = 1.0
        for a in range(len(self.ms)):
            V = self.V[a]
            P = (V * self.inv[a][None, :]) @ V.T + self.inv_rho[a] * (np.eye(self.ms[a]) - V @ V.T)
            y = _apply_axis(np, y, P, a)
            amp *= float(np.linalg.norm(P, 2))
        ng, ny = float(np.linalg.norm(G)), float(np.linalg.norm(y))
        if amp * ng > 0:
            self.cancel = max(self.cancel, amp * ng / ny if ny > 0 else float("inf"))
        return y


class RefAdafactor:
    """optax.adafactor(learning_rate=None, momentum=None, weight_decay_rate=None) from its documentation, followed by the sign flip"""

    def __init__(self, np, shape, g):
        self.np, self.g, self.shape = np, g, tuple(shape)
        self.fd = None
        if len(shape) >= 2:
            order = np.argsort(shape)
            if shape[order[-2]] >= g["min_dim_factor"]:
                self.fd = (int(order[-2]), int(order[-1]))
        if self.fd:
            d1, d0 = self.fd
            self.vr = np.zeros(tuple(s for i, s in enumerate(shape) if i != d0))
            self.vc = np.zeros(tuple(s for i, s in enumerate(shape) if i != d1))
        else:
            self.v = np.zeros(self.shape)

    def step(self, t, grad, x):
        np, g = self.np, self.g
        # the decay schedule is evaluated in float32 by optax
        beta = float(np.float32(1.0) - np.power(np.float32(t + 1), np.float32(-g["decay"])))
        sq = grad * grad + g["eps"]
        if self.fd:
            d1, d0 = self.fd
            self.vr = beta * self.vr + (1 - beta) * sq.mean(axis=d0)
            self.vc = beta * self.vc + (1 - beta) * sq.mean(axis=d1)
            rd1 = d1 - 1 if d1 > d0 else d1
            rf = (self.vr / self.vr.mean(axis=rd1, keepdims=True)) ** -0.5
            cf = self.vc ** -0.5
            u = grad * np.expand_dims(rf, d0) * np.expand_dims(cf, d1)
        else:
            self.v = beta * self.v + (1 - beta) * sq
            u = grad * self.v ** -0.5
        if g["clip"] is not None:
            u = u / max(1.0, math.sqrt(float((u * u).mean())) / g["clip"])
        if g["param_scale"]:
            u = u * max(math.sqrt(float((x * x).mean())), 1e-3)
        return u    # adafactor's own -1 and tearfree's -1 cancel


def sk_ranks(c, name):
    """`sketchy.Options.memory_alloc`: requested rank per axis of the (merged) tensor `name`, or None (global rank)"""
    alloc = c.get("sk", {}).get("alloc")
    return list(alloc[name]) if alloc and name in alloc else None


def ref_lr(c, t):
    return c["lr"]["table"][t] if c["lr"]["kind"] == "sched" else c["lr"]["v"]


def ref_leaf(np, c, name, grads, xs, lr_scale=1.0):
    """reference updates of one leaf over a history; returns dict(upd, so, kappa, near_cut, masked, merged)"""
    shape = list(c["shapes"][name])
    g, m = c["graft"], c["mom"]
    masked = ref_mask(g, shape)
    ms = ref_merge_shape(shape, c["merge"])
    so = None
    if not masked:
        so = RefSketchy(np, ms, c, sk_ranks(c, name)) if c["so"] == "sketchy" else RefShampoo(np, ms, c)
    acc = np.zeros(shape)
    ada = RefAdafactor(np, shape, g) if g["type"] == "ADAFACTOR" else None
    vel = np.zeros(shape)
    outs, sos, grafts = [], [], []
    for t, (gr, x) in enumerate(zip(grads, xs)):
        gr = np.asarray(gr, np.float64)
        x = np.asarray(x, np.float64)
        b = None
        if so is not None:
            b = so.step(t, gr.reshape(ms)).reshape(shape)
        if g["type"] in ("NONE", "SGD"):
            gs = gr
        elif g["type"] == "RMSPROP":
            acc = gr * gr + acc if g["decay"] == 1.0 else gr * gr * (1 - g["decay"]) + g["decay"] * acc
            gs = gr / np.sqrt(acc + g["eps"])
        else:
            gs = ada.step(t, gr, x)
        if g["type"] == "NONE":
            u = b
        elif masked:
            u = gs
        elif t >= g["start"]:
            bn = np.linalg.norm(b)
            u = b * (np.linalg.norm(gs) / bn) if bn > 0 else np.zeros_like(b)
        else:
            u = gs
        wd = m["wd"]
        if wd > 0 and not m["after"]:
            u = u + wd * x
        if m["decay"]:
            if m["ema"]:
                u = (1 - m["decay"]) * u
            vel = m["decay"] * vel + u
            u = u + m["decay"] * vel if m["nesterov"] else vel
        if wd > 0 and m["after"]:
            u = u + wd * x
        outs.append(-(ref_lr(c, t) * lr_scale) * u)
        sos.append(b)
        grafts.append(gs)
    return {"upd": outs, "so": sos, "graft": grafts, "masked": masked, "merged": ms,
            "kappa": (so.kappa * min(so.cancel, 1e30)) if so is not None else 1.0,
            "near_cut": bool(so.near_cut) if so is not None else False}


# ============================================================================ histories
def make_history(np, c):
    """gradients and parameters per step: dict name -> list of arrays (dtype of the run)"""
    gc = c["grad"]
    rs = np.random.RandomState(gc["seed"] % (2 ** 31))
    dt = np.float64 if c["x64"] else np.float32
    names = sorted(c["shapes"])
    grads = {n: [] for n in names}
    xs = {n: [] for n in names}
    for n in names:
        shp = tuple(c["shapes"][n])
        x = rs.randn(*shp) * 0.5 + 0.25
        for t in range(c["T"]):
            kind = gc["kind"]
            if kind == "randn":
                g = rs.randn(*shp) * gc["scale"]
            elif kind == "ints":
                g = rs.randint(-4, 5, size=shp).astype(np.float64) * gc["scale"]
            elif kind == "blockscale":
                # blocks of very different magnitude inside one tensor (per-block eigenvalue cut)
                g = rs.randn(*shp)
                w = np.ones(shp)
                if len(shp) >= 1 and shp[0] >= 2:
                    idx = [slice(None)] * len(shp)
                    idx[0] = slice(shp[0] // 2, None)
                    w[tuple(idx)] = gc["ratio"]
                g = g * w * gc["scale"]
            elif kind == "lowrank":
                if len(shp) == 2:
                    g = np.outer(rs.randn(shp[0]), rs.randn(shp[1])) * gc["scale"]
                else:
                    g = rs.randn(*shp) * gc["scale"]
            else:
                raise ValueError(kind)
            if [t, n] in gc.get("zero", []):
                g = np.zeros(shp)
            grads[n].append(np.asarray(g, dt))
            xs[n].append(np.asarray(x, dt))
            x = x + rs.randn(*shp) * 0.05
    return grads, xs


# ============================================================================ implementation runner
def build_options(c, lr_scale=1.0):
    import jax.numpy as jnp
    from precondition.tearfree import optimizer as tfo, grafting, momentum as tfm, second_order, shampoo as tfs, sketchy as tfk
    g, m = c["graft"], c["mom"]
    gopts = grafting.Options(
        grafting_type=getattr(grafting.GraftingType, g["type"]),
        second_moment_decay=(g["decay"] if g["type"] in ("RMSPROP", "ADAFACTOR") else 0.0),
        start_preconditioning_step=g["start"], epsilon=g["eps"],
        skip_preconditioning_any_dim_gt=g["dim_gt"], skip_preconditioning_rank1=g["rank1"],
        min_dim_size_to_factor=g["min_dim_factor"], multiply_by_parameter_scale=g["param_scale"],
        clipping_threshold=(g["clip"] if g["clip"] is not None else 1.0))
    if c["so"] == "sketchy":
        sk = c["sk"]
        so = second_order.Options(
            merge_dims=c["merge"], second_order_type=second_order.SecondOrderType.SKETCHY, shampoo_options=None,
            sketchy_options=tfk.Options(epsilon=sk["eps"], rank=sk["rank"], relative_epsilon=sk["rel"],
                                        second_moment_decay=sk["decay"], update_freq=sk["freq"],
                                        add_ggt=bool(sk.get("add_ggt", False)),
                                        memory_alloc=({k: list(v) for k, v in sk["alloc"].items()} if sk.get("alloc") else None)))
    else:
        so = second_order.Options(
            merge_dims=c["merge"], second_order_type=second_order.SecondOrderType.SHAMPOO,
            shampoo_options=tfs.Options(block_size=c["block"], update_preconditioners_freq=c["pf"],
                                        update_statistics_freq=c["sf"], second_moment_decay=c["so_decay"]))
    mopts = tfm.Options(ema=m["ema"], nesterov=m["nesterov"], momentum_decay=m["decay"], weight_decay=m["wd"],
                        weight_decay_after_momentum=m["after"])
    opts = tfo.TearfreeOptions(grafting_options=gopts, second_order_options=so, momentum_options=mopts)
    if c["lr"]["kind"] == "sched":
        dt = jnp.float64 if c["x64"] else jnp.float32
        table = jnp.asarray([v * lr_scale for v in c["lr"]["table"]], dt)
        lr = lambda count: table[count]   # noqa: E731
    else:
        lr = c["lr"]["v"] * lr_scale
    return tfo.tearfree(lr, opts)


def impl_run(c, shapes=None, grads=None, xs=None, lr_scale=1.0, want_state=False):
    """updates of the real optimizer: dict name -> list of numpy arrays"""
    import contextlib
    import io
    import numpy as np
    import jax
    import jax.numpy as jnp
    names = sorted(shapes if shapes is not None else c["shapes"])
    tx = build_options(c, lr_scale)
    buf = io.StringIO()
    with contextlib.redirect_stdout(buf):
        params0 = {n: jnp.asarray(xs[n][0]) for n in names}
        state = tx.init(params0)
        upd = jax.jit(tx.update) if c.get("jit", True) else tx.update
        out = {n: [] for n in names}
        for t in range(len(grads[names[0]])):
            u, state = upd({n: jnp.asarray(grads[n][t]) for n in names}, state, {n: jnp.asarray(xs[n][t]) for n in names})
            for n in names:
                out[n].append(np.asarray(u[n]))
    if want_state:
        leaves = [np.asarray(l) for l in jax.tree_util.tree_leaves(state)]
        return out, leaves
    return out


# ============================================================================ generation
SH_TREES = [
    {"w": [4, 6], "b": [5]},
    {"w": [5, 3], "v": [6, 2]},
    {"w": [4, 4], "t": [2, 3, 4]},
    {"w": [7, 3], "s": []},
    {"w": [6, 4], "u": [3, 1, 4]},
    {"w": [8, 4], "b": [6]},
    {"w": [3, 5], "t": [2, 2, 3], "b": [4]},
    {"w": [9, 2]},
]
SK_TREES = [
    {"w": [4, 6], "b": [5]},
    {"w": [5, 3], "v": [3, 3]},
    {"w": [4, 4], "t": [2, 3, 2]},
    {"w": [6, 4], "b": [3]},
    {"w": [3, 5], "s": []},
]
GRAD_SCALES = [1.0, 1.0, 1.0, 0.03, 30.0, 1e-5]


def _valid_shampoo(c):
    for shp in c["shapes"].values():
        if ref_mask(c["graft"], shp):
            continue
        ms = ref_merge_shape(shp, c["merge"])
        if sum(1 for d in ms if d >= c["block"]) > 2:
            return False
    return True


def _sketchy_robust(c):
    """every factor handed to the SVD has full rank from the first step on (see the module docstring of the reference)"""
    for name, shp in c["shapes"].items():
        if ref_mask(c["graft"], shp):
            continue
        ms = ref_merge_shape(shp, c["merge"])
        n = 1
        for d in ms:
            n *= d
        ranks = sk_ranks(c, name) or [c["sk"]["rank"]] * len(ms)
        if len(ranks) != len(ms):
            return False
        for d, r in zip(ms, ranks):
            k = min(d, r)
            if n // d < min(d, k + 1):
                return False
    return True


def gen_case(rng, cid, so, seed, focus=None):
    for _ in range(200):
        gtype = rng.choice(["NONE", "SGD", "RMSPROP", "RMSPROP", "ADAFACTOR"])
        c = {
            "id": cid, "so": so, "x64": so == "shampoo", "jit": rng.random() < 0.85,
            "shapes": dict(rng.choice(SH_TREES if so == "shampoo" else SK_TREES)),
            "merge": rng.choice([2, 2, 1024, 1024, 6, 12]), "block": rng.choice([2, 3, 4, 1024, 1024]),
            "sf": rng.choice([1, 1, 2, 3]), "pf": rng.choice([1, 1, 2, 3]),
            "so_decay": rng.choice([1.0, 0.9, 0.5, 0.999]), "cut": 1e-6,
            "sk": {"rank": rng.choice([1, 2, 3, 8]), "decay": rng.choice([1.0, 0.9, 0.5]), "freq": rng.choice([1, 1, 2]),
                   **rng.choice([{"eps": 1e-7, "rel": True}, {"eps": 1e-3, "rel": True}, {"eps": 1e-4, "rel": False}])},
            "graft": {"type": gtype, "decay": rng.choice([1.0, 0.9, 0.99, 0.75]), "eps": rng.choice([1e-23, 1e-23, 1e-8]),
                      "start": rng.choice([0, 0, 1, 2, 3, HUGE]), "rank1": rng.random() < 0.6,
                      "dim_gt": rng.choice([4096, 4096, 5]), "min_dim_factor": rng.choice([2, 4, 128]),
                      "param_scale": rng.random() < 0.5, "clip": rng.choice([1.0, 2.0])},
            "mom": {"ema": rng.random() < 0.5, "nesterov": rng.random() < 0.5, "decay": rng.choice([0.0, 0.9, 0.9, 0.5]),
                    "wd": rng.choice([0.0, 0.1, 0.1, 0.01]), "after": rng.random() < 0.5},
            "T": rng.choice([5, 6]),
            "grad": {"kind": rng.choice(["randn", "randn", "randn", "ints", "blockscale", "lowrank"]),
                     "scale": rng.choice(GRAD_SCALES), "ratio": rng.choice([1e-4, 1e-5, 1e4]), "seed": seed * 1000003 + cid * 7919},
        }
        if gtype == "ADAFACTOR":
            c["graft"]["decay"] = rng.choice([0.8, 0.75, 0.9])
        if rng.random() < 0.45:
            base = rng.choice([0.5, 0.125, 0.03125])
            kind = rng.choice(["halving", "warmup", "table"])
            if kind == "halving":
                table = [base * 0.5 ** t for t in range(c["T"])]
            elif kind == "warmup":
                table = [base * (t + 1) for t in range(c["T"])]
            else:
                table = [round(rng.uniform(0.01, 1.0), 3) for _ in range(c["T"])]
            c["lr"] = {"kind": "sched", "table": table}
        else:
            c["lr"] = {"kind": "const", "v": rng.choice([0.5, 0.125, 0.1, 0.03, 1.0])}
        if not c["x64"]:
            import numpy as np
            if c["lr"]["kind"] == "sched":
                c["lr"]["table"] = [float(np.float32(v)) for v in c["lr"]["table"]]
        names = sorted(c["shapes"])
        c["grad"]["zero"] = [[rng.randrange(c["T"]), rng.choice(names)]] if rng.random() < 0.25 else []
        if focus:
            focus(c, rng)
        if so == "shampoo" and not _valid_shampoo(c):
            continue
        if so == "sketchy":
            c["sk"]["add_ggt"] = rng.random() < 0.3
            if rng.random() < 0.35:
                # memory_alloc: an own rank for every axis of every (merged) tensor
                c["sk"]["alloc"] = {n: [rng.choice([1, 2, 3, 8]) for _ in ref_merge_shape(shp, c["merge"])]
                                    for n, shp in c["shapes"].items()}
            if c["grad"]["kind"] in ("lowrank", "blockscale"):
                c["grad"]["kind"] = "randn"
            if c["grad"]["zero"]:
                c["grad"]["zero"] = []
            if not _sketchy_robust(c):
                if c["graft"]["type"] != "NONE":
                    c["graft"]["rank1"] = True
                if not _sketchy_robust(c):
                    c["sk"].pop("alloc", None)
                if not _sketchy_robust(c):
                    continue
        return c
    raise kit.InfraError("could not generate a valid configuration")


# ============================================================================ driver requests
def _hx(a):
    import numpy as np
    return [kit.f64_hex(float(v)) for v in np.asarray(a, np.float64).reshape(-1)]


def _unhx(l):
    import numpy as np
    return np.array([kit.hex_f64(s) for s in l], np.float64)


def leaf_request(c, name, grads, xs, ext=None):
    """op `tf_run` for one leaf; `ext` = externally supplied graft steps (ADAFACTOR is opaque to the model)"""
    g, m = c["graft"], c["mom"]
    if c["so"] == "sketchy":
        sk = c["sk"]
        so = {"kind": "sketchy", "merge": c["merge"], "rank": sk["rank"], "freq": sk["freq"], "eps": kit.f64_hex(sk["eps"]),
              "rel": sk["rel"], "decay": kit.f64_hex(sk["decay"])}
        if sk_ranks(c, name) is not None:
            so["ranks"] = sk_ranks(c, name)
    else:
        so = {"kind": "shampoo", "merge": c["merge"], "block": c["block"], "sf": c["sf"], "pf": c["pf"],
              "decay": kit.f64_hex(c["so_decay"]), "cut": kit.f64_hex(c["cut"])}
    gtype = "OPAQUE" if g["type"] == "ADAFACTOR" else g["type"]
    lr = ({"kind": "sched", "table": [kit.f64_hex(v) for v in c["lr"]["table"]]} if c["lr"]["kind"] == "sched"
          else {"kind": "const", "v": kit.f64_hex(c["lr"]["v"])})
    steps = []
    for t in range(len(grads)):
        s = {"g": _hx(grads[t]), "x": _hx(xs[t])}
        if gtype == "OPAQUE":
            s["ext"] = _hx(ext[t])
        steps.append(s)
    return {"op": "tf_run", "shape": list(c["shapes"][name]), "so": so,
            "graft": {"type": gtype, "decay": kit.f64_hex(g["decay"]), "eps": kit.f64_hex(g["eps"]), "start": g["start"],
                      "rank1": g["rank1"], "dim_gt": g["dim_gt"]},
            "mom": {"ema": m["ema"], "nesterov": m["nesterov"], "decay": kit.f64_hex(m["decay"]), "wd": kit.f64_hex(m["wd"]),
                    "after": m["after"]},
            "lr": lr, "steps": steps}


# ============================================================================ worker side
def _rel_err(np, u, ref):
    u = np.asarray(u, np.float64).reshape(-1)
    ref = np.asarray(ref, np.float64).reshape(-1)
    if not np.all(np.isfinite(u)):
        return float("inf")
    den = float(np.abs(ref).max()) if ref.size else 0.0
    if den == 0.0:
        return 0.0 if not np.any(u) else float("inf")
    return float(np.abs(u - ref).max() / den)


def oracle_tol(c, ref):
    """tolerance of the comparison with the float64 reference (relative to the largest entry of the leaf's update)"""
    if c["so"] == "shampoo":
        tol = 1e-12 + 1e-11 * ref["kappa"]
    else:
        tol = 2e-5 + 2e-7 * ref["kappa"]
    if c["graft"]["type"] == "ADAFACTOR":
        tol += 1e-5      # optax evaluates the AdaFactor decay schedule in float32
    return tol


def ill_conditioned(c, ref):
    """the specification is discontinuous or its conditioning leaves no meaningful tolerance: an eigenvalue next to the cut, or a
    preconditioned gradient that is (almost) entirely rounding noise (kappa includes the cancellation factor ||P|| ||g|| / ||P g||)"""
    return bool(ref["near_cut"]) or ref["kappa"] > (1e6 if c["so"] == "shampoo" else 1e4)


def _impl_shapes(c, name):
    """shape bookkeeping observed on the real code (private helpers of the anchored modules; None if unavailable)"""
    try:
        import numpy as np
        from precondition.tearfree import reshaper, grafting, shampoo as tfs
        shp = tuple(c["shapes"][name])
        bs = c["block"] if c["so"] == "shampoo" else 0
        s = reshaper._derive_shapes(reshaper.Options(c["merge"], bs), np.zeros(shp, np.float32))
        g = c["graft"]
        gopts = grafting.Options(skip_preconditioning_any_dim_gt=g["dim_gt"], skip_preconditioning_rank1=g["rank1"])
        masked = bool(grafting._masked(grafting._mask_skipped(gopts, {"x": np.zeros(shp, np.float32)})["x"]))
        out = {"merged": list(s.merged_shape), "padded": list(s.padded_shape), "masked": masked}
        if c["so"] == "shampoo":
            m = tfs._blocks_metadata(tfs.Options(block_size=c["block"]), s.padded_shape, "x")
            out.update({"block_sizes": list(m.block_sizes), "num_blocks": int(m.num_blocks), "blocks_axis": int(m.blocks_axis)})
        return out
    except (AttributeError, ImportError, TypeError):
        return None


def run_full(c):
    """one configuration through the real optimizer, the reference and (requests for) the model"""
    import numpy as np
    grads, xs = make_history(np, c)
    out = impl_run(c, grads=grads, xs=xs)
    res = {"case": c, "kind": "full", "leaves": {}, "fails": [], "reqs": []}
    for name in sorted(c["shapes"]):
        ref = ref_leaf(np, c, name, grads[name], xs[name])
        tol = oracle_tol(c, ref)
        errs = [_rel_err(np, out[name][t], ref["upd"][t]) for t in range(c["T"])]
        L = {"tol": tol, "kappa": ref["kappa"], "near_cut": ill_conditioned(c, ref), "masked": ref["masked"], "merged": ref["merged"],
             "errs": errs, "upd": [_hx(out[name][t]) for t in range(c["T"])], "shapes": _impl_shapes(c, name),
             "nontrivial": [], "dtype_ok": all(str(out[name][t].dtype) == ("float64" if c["x64"] else "float32")
                                               for t in range(c["T"]))}
        for t in range(c["T"]):
            b = ref["so"][t]
            if b is not None and ref["graft"][t] is not None and np.any(b):
                gs = ref["graft"][t].reshape(-1)
                bb = b.reshape(-1)
                cos = abs(float(gs @ bb)) / max(float(np.linalg.norm(gs) * np.linalg.norm(bb)), 1e-300)
                if cos < 0.999:
                    L["nontrivial"].append(t)
        if not L["near_cut"]:
            for t in range(c["T"]):
                if not (errs[t] <= tol):
                    res["fails"].append({"what": "tearfree update differs from the documented composition (float64 reference): "
                                                 f"relative error {errs[t]:.3g} > {tol:.3g}", "leaf": name, "t": t,
                                         "impl": [float(v) for v in np.asarray(out[name][t]).reshape(-1)[:8]],
                                         "ref": [float(v) for v in ref["upd"][t].reshape(-1)[:8]]})
                    break
        res["leaves"][name] = L
        res["reqs"].append({"leaf": name, "req": leaf_request(c, name, grads[name], xs[name], ext=ref["graft"])})
    if c.get("lin"):
        _oracle_linear(np, c, grads, xs, out, res)
    return res


def _oracle_linear(np, c, grads, xs, out, res):
    """update(2 lr) == 2 update(lr) bitwise, state independent of lr.

    The learning rates are 3*2^-k or 5*2^-k so that neither lr nor 2*lr is a constant the compiler treats specially (+-1, 2): then
    the two compiled programs have the same structure and doubling commutes with every rounding. Should a jitted pair still differ
    (XLA may fuse / contract differently around a changed constant), the pair is re-run op by op (eager), where no cross-op
    contraction exists: a violation needs a bitwise difference there, or a jitted difference far above the last bit."""
    import jax

    def compare(o1, o2):
        worst, first = 0.0, None
        for name in sorted(c["shapes"]):
            for t in range(c["T"]):
                a = 2.0 * np.asarray(o1[name][t])
                b = np.asarray(o2[name][t])
                if not np.array_equal(a, b):
                    den = float(np.abs(a).max()) or 1.0
                    e = float(np.abs(a - b).max() / den) if np.all(np.isfinite(b)) else float("inf")
                    if first is None:
                        first = (name, t, a, b)
                    worst = max(worst, e)
        return worst, first

    _o1, st1 = impl_run(c, grads=grads, xs=xs, want_state=True)
    out2, st2 = impl_run(c, grads=grads, xs=xs, lr_scale=2.0, want_state=True)
    res["lin"] = {"steps": sum(c["T"] for _ in c["shapes"]), "state_leaves": len(st1), "mode": "jit" if c.get("jit", True) else "eager"}
    worst, first = compare(out, out2)
    if first is not None and c.get("jit", True) and worst <= (1e-13 if c["x64"] else 1e-5):
        ce = dict(c, jit=False)
        e1 = impl_run(ce, grads=grads, xs=xs)
        e2 = impl_run(ce, grads=grads, xs=xs, lr_scale=2.0)
        worst, first = compare(e1, e2)
        res["lin"]["mode"] = "eager (jitted pair differed in the last bits)"
    if first is not None:
        name, t, a, b = first
        bad = np.argwhere(a != b)
        res["fails"].append({"what": "update(2*lr) != 2*update(lr) bitwise (update not exactly linear in the learning rate; "
                                     f"largest relative difference {worst:.3g})",
                             "leaf": name, "t": t, "impl": [float(v) for v in a.reshape(-1)[:6]],
                             "ref": [float(v) for v in b.reshape(-1)[:6]], "first_bad": [int(i) for i in bad[0]]})
        return
    # everything in the state (the schedule's own counter included) must not depend on lr
    if len(st1) != len(st2) or any(a.shape != b.shape or not np.array_equal(a, b) for a, b in zip(st1, st2)):
        res["fails"].append({"what": "optimizer state depends on the learning rate", "leaf": "*", "t": c["T"] - 1,
                             "impl": [], "ref": []})
    jax.clear_caches()


def run_pad(c):
    """metamorphic, implementation only: the second-order stage on a leaf whose merged dims are padded to the block size,
    against the same stage on the separately extracted (unpadded) blocks, each as a leaf of its own"""
    import contextlib
    import io
    import numpy as np
    import jax
    import jax.numpy as jnp
    from precondition.tearfree import second_order, shampoo as tfs
    shp = tuple(c["shape"])
    B = c["block"]
    rs = np.random.RandomState(c["seed"] % (2 ** 31))
    grads = [rs.randn(*shp) * c["scale"] for _ in range(c["T"])]
    ranges = [[(i, min(i + B, d)) for i in range(0, d, B)] if d >= B else [(0, d)] for d in shp]
    import itertools
    keys = list(itertools.product(*[range(len(r)) for r in ranges]))

    def so_tx(block):
        return second_order.apply(second_order.Options(
            merge_dims=2, second_order_type=second_order.SecondOrderType.SHAMPOO,
            shampoo_options=tfs.Options(block_size=block, update_preconditioners_freq=c["pf"], update_statistics_freq=c["sf"],
                                        second_moment_decay=c["so_decay"])))

    def run(tx, tree_grads):
        names = sorted(tree_grads[0])
        params = {n: jnp.zeros(tree_grads[0][n].shape, jnp.float64) for n in names}
        st = tx.init(params)
        outs = []
        with contextlib.redirect_stdout(io.StringIO()):
            for g in tree_grads:
                u, st = tx.update({n: jnp.asarray(g[n]) for n in names}, st, params)
                outs.append({n: np.asarray(u[n]) for n in names})
        return outs

    full = run(so_tx(B), [{"w": g} for g in grads])
    sl = {k: tuple(slice(*r[i]) for r, i in zip(ranges, k)) for k in keys}
    blocks = run(so_tx(1024), [{"b%d" % i: g[sl[k]] for i, k in enumerate(keys)} for g in grads])
    res = {"case": c, "kind": "pad", "fails": [], "checked": 0, "worst": 0.0}
    # conditioning from the reference spectra of the blocks
    cc = {"block": 1024, "sf": c["sf"], "pf": c["pf"], "so_decay": c["so_decay"], "cut": 1e-6}
    kap, near = 1.0, False
    for i, k in enumerate(keys):
        r = RefShampoo(np, list(grads[0][sl[k]].shape), cc)
        for t, g in enumerate(grads):
            r.step(t, g[sl[k]])
        kap, near = max(kap, r.kappa), near or r.near_cut
    res["near_cut"] = near
    if near:
        return res
    tol = 1e-12 + 1e-11 * kap
    for t in range(c["T"]):
        for i, k in enumerate(keys):
            e = _rel_err(np, full[t]["w"][sl[k]], blocks[t]["b%d" % i])
            res["checked"] += 1
            res["worst"] = max(res["worst"], e)
            if not (e <= tol):
                res["fails"].append({"what": "zero-padding changed the values delivered for real entries: block of the padded leaf vs the "
                                             f"same block as a leaf of its own, relative difference {e:.3g} > {tol:.3g}",
                                     "leaf": "block%d" % i, "t": t, "impl": [float(v) for v in full[t]["w"][sl[k]].reshape(-1)[:6]],
                                     "ref": [float(v) for v in blocks[t]["b%d" % i].reshape(-1)[:6]]})
                return res
    jax.clear_caches()
    return res


def run_merge(c):
    """metamorphic, implementation only: second-order stage on shape S with merging == on the merged shape with the same flat data"""
    import contextlib
    import io
    import numpy as np
    import jax.numpy as jnp
    from precondition.tearfree import second_order, shampoo as tfs, sketchy as tfk
    shp = tuple(c["shape"])
    ms = ref_merge_shape(shp, c["merge"])
    rs = np.random.RandomState(c["seed"] % (2 ** 31))
    dt = np.float64 if c["x64"] else np.float32
    grads = [np.asarray(rs.randn(*shp), dt) for _ in range(c["T"])]

    def tx():
        if c["so"] == "shampoo":
            return second_order.apply(second_order.Options(merge_dims=c["merge"], shampoo_options=tfs.Options(
                block_size=c["block"], second_moment_decay=c["so_decay"])))
        return second_order.apply(second_order.Options(
            merge_dims=c["merge"], second_order_type=second_order.SecondOrderType.SKETCHY, shampoo_options=None,
            sketchy_options=tfk.Options(rank=c["rank"], second_moment_decay=c["so_decay"])))

    def run(shape):
        t = tx()
        params = {"w": jnp.zeros(shape, dt)}
        st = t.init(params)
        outs = []
        with contextlib.redirect_stdout(io.StringIO()):
            for g in grads:
                u, st = t.update({"w": jnp.asarray(g.reshape(shape))}, st, params)
                outs.append(np.asarray(u["w"]).reshape(-1))
        return outs

    a, b = run(shp), run(tuple(ms))
    res = {"case": c, "kind": "merge", "fails": [], "checked": 0, "merged": ms}
    for t in range(c["T"]):
        res["checked"] += 1
        if not np.array_equal(a[t], b[t]):
            e = _rel_err(np, a[t], b[t])
            if not (e <= (1e-12 if c["x64"] else 1e-5)):
                res["fails"].append({"what": f"merging changed the values delivered for real entries: leaf {list(shp)} vs the merged leaf "
                                             f"{ms} with the same flat data, relative difference {e:.3g}", "leaf": "w", "t": t,
                                     "impl": [float(v) for v in a[t][:6]], "ref": [float(v) for v in b[t][:6]]})
                break
    return res


def run_root(c):
    """`_pth_inv_root` on a batch of PSD blocks given by spectrum: X symmetric PSD and X^p C = projector on the retained
    eigenspace, the cut relative to the largest eigenvalue OF THAT BLOCK"""
    import contextlib
    import io
    import numpy as np
    import jax.numpy as jnp
    res = {"case": c, "kind": "root", "fails": [], "reqs": [], "roots": [], "checked": 0}
    try:
        from precondition.tearfree import shampoo as tfs
        fn = tfs._pth_inv_root
    except (ImportError, AttributeError):
        res["skipped"] = "tearfree.shampoo._pth_inv_root not found"
        return res
    rs = np.random.RandomState(c["seed"] % (2 ** 31))
    n, p = c["n"], c["p"]
    covs, specs = [], []
    for spec in c["spectra"]:
        q, _ = np.linalg.qr(rs.randn(n, n))
        w = np.array(spec, np.float64)
        covs.append((q * w) @ q.T)
        specs.append((q, w))
    with contextlib.redirect_stdout(io.StringIO()):
        X = np.asarray(fn(p, jnp.asarray(np.stack(covs))))
    for b, (C, (q, w)) in enumerate(zip(covs, specs)):
        Xb = X[b]
        keep = w > c["cut"] * w.max()
        proj = (q * keep) @ q.T
        want = (q * np.where(keep, np.where(keep, w, 1.0) ** (-1.0 / p), 0.0)) @ q.T
        kap = float(w.max() / w[keep].min()) if keep.any() else 1.0
        tol = 1e-12 + 1e-11 * kap
        res["checked"] += 1
        e_sym = float(np.abs(Xb - Xb.T).max() / max(np.abs(Xb).max(), 1e-300))
        ev = np.linalg.eigvalsh((Xb + Xb.T) / 2)
        e_psd = float(max(0.0, -ev.min()) / max(ev.max(), 1e-300))
        e_proj = float(np.abs(np.linalg.matrix_power(Xb, p) @ C - proj).max())
        e_val = _rel_err(np, Xb, want) if keep.any() else float(np.abs(Xb).max())
        case = {"b": b, "spectrum": [float(v) for v in w]}
        if e_sym > 1e-12 or e_psd > 1e-12:
            res["fails"].append({"what": f"inverse root not symmetric PSD (asym {e_sym:.2g}, negative part {e_psd:.2g})", **case})
        elif e_proj > 1e3 * tol * max(1.0, kap ** (1.0 / p)) and e_proj > 1e-8:
            res["fails"].append({"what": f"X^p C is not the projector on the retained eigenspace of that block (error {e_proj:.3g})", **case})
        elif not (e_val <= tol):
            res["fails"].append({"what": f"block inverse root differs from the exact inverse {p}-th root with the per-block cut "
                                         f"(relative error {e_val:.3g} > {tol:.3g})", **case})
        res["roots"].append({"root": _hx(Xb), "tol": tol})
        res["reqs"].append({"leaf": "b%d" % b, "req": {"op": "eigh", "n": n, "p": p, "cut": kit.f64_hex(c["cut"]), "C": _hx(C)}})
    return res


def run_mom(c):
    """`momentum.apply(options)` chained with the learning-rate stage on dyadic inputs (float32, every intermediate exact)"""
    import numpy as np
    import jax.numpy as jnp
    import optax
    from fractions import Fraction
    from precondition.tearfree import momentum as tfm, praxis_shim
    m = c["mom"]
    mtx = tfm.apply(tfm.Options(ema=m["ema"], nesterov=m["nesterov"], momentum_decay=m["decay"], weight_decay=m["wd"],
                                weight_decay_after_momentum=m["after"]))
    if c["lr"]["kind"] == "sched":
        table = jnp.asarray(c["lr"]["table"], jnp.float32)
        ltx = optax.scale_by_schedule(lambda count: -1.0 * table[count])
    else:
        ltx = optax.scale(-1.0 * c["lr"]["v"])
    tx = praxis_shim.sharded_chain(mtx, ltx)
    rs = np.random.RandomState(c["seed"] % (2 ** 31))
    n = c["n"]
    us = [rs.randint(-8, 9, size=n).astype(np.float32) * c["uscale"] for _ in range(c["T"])]
    xs = [rs.randint(-8, 9, size=n).astype(np.float32) / 4 for _ in range(c["T"])]
    params = {"w": jnp.asarray(xs[0])}
    st = tx.init(params)
    outs = []
    for u, x in zip(us, xs):
        o, st = tx.update({"w": jnp.asarray(u)}, st, {"w": jnp.asarray(x)})
        outs.append(np.asarray(o["w"]))
    rat = lambda v: kit.rat_str(Fraction(float(v)))   # noqa: E731
    lr = ({"kind": "sched", "table": [rat(v) for v in c["lr"]["table"]]} if c["lr"]["kind"] == "sched"
          else {"kind": "const", "v": rat(c["lr"]["v"])})
    req = {"op": "mom_run", "mom": {"ema": m["ema"], "nesterov": m["nesterov"], "decay": rat(m["decay"]), "wd": rat(m["wd"]),
                                    "after": m["after"]},
           "lr": lr, "steps": [{"u": [rat(v) for v in u], "x": [rat(v) for v in x]} for u, x in zip(us, xs)]}
    return {"case": c, "kind": "mom", "fails": [], "reqs": [{"leaf": "w", "req": req}],
            "upd": [[kit.f32_hex(v) for v in o] for o in outs], "state_len": len(st[0])}


RUNNERS = {"full": run_full, "pad": run_pad, "merge": run_merge, "root": run_root, "mom": run_mom}


def worker(chunk):
    import warnings
    warnings.filterwarnings("ignore")
    import jax
    out = []
    for task in chunk:
        jax.config.update("jax_enable_x64", bool(task.get("x64", True)))
        try:
            out.append(RUNNERS[task.get("kind", "full")](task))
        except Exception as e:  # noqa: BLE001
            import traceback
            out.append({"case": task, "kind": task.get("kind", "full"), "exception": type(e).__name__ + ": " + str(e)[:300],
                        "trace": traceback.format_exc()[-1500:], "fails": [], "reqs": []})
    try:
        jax.clear_caches()
    except Exception:  # noqa: BLE001
        pass
    return out


# ============================================================================ task generation
def _focus_padding(c, rng):
    """a Shampoo leaf whose merged dims are not multiples of the block size (zero-padding in play)"""
    c["shapes"] = dict(rng.choice([{"w": [5, 3], "v": [7, 2]}, {"w": [7, 3], "b": [5]}, {"w": [9, 2], "u": [5, 5]},
                                   {"w": [3, 5], "t": [2, 5, 3]}, {"w": [5, 7]}]))
    c["merge"] = rng.choice([2, 2, 6])
    c["block"] = rng.choice([2, 3, 4])


def _focus_blockscale(c, rng):
    """blocks of one tensor with very different magnitudes (the eigenvalue cut must be per block)"""
    c["shapes"] = dict(rng.choice([{"w": [4, 2]}, {"w": [8, 4], "b": [6]}, {"w": [6, 4]}]))
    c["merge"] = 2
    c["block"] = 2
    c["grad"]["kind"] = "blockscale"
    c["grad"]["scale"] = 1.0
    c["grad"]["ratio"] = rng.choice([1e-4, 1e-5])
    c["grad"]["zero"] = []
    c["graft"]["type"] = rng.choice(["NONE", "SGD", "RMSPROP"])
    c["graft"]["start"] = 0


def _focus_merged(c, rng):
    """default merge limit: small matrices become vectors (one preconditioner, exponent 2); the mask uses the original shape"""
    c["merge"] = 1024
    c["block"] = rng.choice([1024, 1024, 4])
    c["graft"]["rank1"] = True


def _focus_momentum(c, rng):
    c["mom"]["decay"] = rng.choice([0.9, 0.5, 0.75])
    c["mom"]["wd"] = rng.choice([0.1, 0.25])
    c["graft"]["start"] = rng.choice([0, 1])


def _focus_split_axes(c, rng):
    """two blocked (large) axes SEPARATED by small axes that the merge limit cannot merge away, >= 2 blocks along each large
    axis, ragged (zero-padded) ones included: the two-large-axes branch of _blockify / _deblockify with a non-trivial middle
    segment (reshape, transpose, reshape with the right blocks axis moved across the small axes)"""
    pick = rng.choice([
        # (tree, merge_dims, block_size): merged shape == original shape in every case
        ({"w": [7, 3, 6], "v": [8, 3, 2, 8]}, 5, 4),          # large-small-large (padded 8,3,8) and large-small-small-large
        ({"w": [8, 3, 8], "v": [3, 8, 2, 7]}, 5, 4),          # exact multiples; small-large-small-large (padded 3,8,2,8)
        ({"w": [5, 2, 9], "v": [6, 2, 2, 7]}, 3, 3),          # ragged: padded (6,2,9) 2x3 blocks; (6,2,2,9) 2x3 blocks
        ({"w": [6, 2, 6], "v": [2, 6, 2, 5], "b": [4]}, 3, 3),  # padded (2,6,2,6)
        ({"w": [9, 2, 5], "v": [7, 3, 3, 6]}, 8, 4),          # padded (12,2,8) 3x2 blocks; (8,3,3,8)
    ])
    c["shapes"], c["merge"], c["block"] = dict(pick[0]), pick[1], pick[2]
    c["graft"]["dim_gt"] = 4096
    c["graft"]["type"] = rng.choice(["NONE", "NONE", "SGD", "RMSPROP"])
    c["graft"]["start"] = rng.choice([0, 0, 1])
    c["grad"]["kind"] = rng.choice(["randn", "randn", "ints"])
    c["grad"]["zero"] = []
    c["T"] = 4


def gen_tasks(tier, seed):
    rng = random.Random(seed * 7919 + 15)
    scale = 1 if tier == "quick" else 8
    tasks = []
    cid = 0

    def add_full(so, n, focus=None, lin_p=0.3):
        nonlocal cid
        for _ in range(n):
            c = gen_case(rng, cid, so, seed, focus)
            c["kind"] = "full"
            c["lin"] = rng.random() < lin_p
            if c["lin"]:
                # dyadic learning rates so that doubling is exact
                if c["lr"]["kind"] == "sched":
                    c["lr"]["table"] = [2.0 ** -rng.randrange(0, 6) * rng.choice([1, 3, 5]) for _ in range(c["T"])]
                else:
                    c["lr"]["v"] = 2.0 ** -rng.randrange(1, 7) * rng.choice([3, 5])
            tasks.append(c)
            cid += 1

    add_full("shampoo", 36 * scale)
    add_full("shampoo", 18 * scale, _focus_padding)
    add_full("shampoo", 8 * scale, _focus_blockscale, lin_p=0.0)
    add_full("shampoo", 12 * scale, _focus_merged)
    add_full("shampoo", 12 * scale, _focus_momentum, lin_p=0.6)
    add_full("shampoo", 6 * scale, _focus_split_axes, lin_p=0.0)
    add_full("sketchy", 30 * scale)
    add_full("sketchy", 8 * scale, _focus_momentum, lin_p=0.6)
    for _ in range(10 * scale):
        shp = rng.choice([[5, 3], [7, 3], [8, 5], [5, 5], [7, 2], [3, 8], [2, 5, 3]])
        B = rng.choice([b for b in (2, 3, 4) if all((d < b) or (d % b != 1) for d in shp)] or [1024])
        if B == 1024 or sum(1 for d in shp if d >= B) > 2:
            continue
        tasks.append({"kind": "pad", "x64": True, "shape": shp, "block": B, "T": 4, "sf": rng.choice([1, 2]), "pf": rng.choice([1, 2]),
                      "so_decay": rng.choice([1.0, 0.9, 0.5]), "scale": rng.choice([1.0, 0.03, 30.0]), "seed": seed * 1009 + cid})
        cid += 1
    for _ in range(8 * scale):
        so = rng.choice(["shampoo", "shampoo", "sketchy"])
        shp = rng.choice([[4, 6], [2, 3, 4], [3, 1, 4], [2, 2, 3], [6, 2], [1, 5]] if so == "shampoo" else [[2, 3, 4], [2, 2, 6], [3, 1, 4]])
        tasks.append({"kind": "merge", "x64": so == "shampoo", "so": so, "shape": shp, "merge": rng.choice([1024, 6, 12, 4]),
                      "block": 1024, "rank": rng.choice([2, 3]), "so_decay": rng.choice([1.0, 0.9]), "T": 3, "seed": seed * 1013 + cid})
        cid += 1
    for _ in range(6 * scale):
        n = rng.choice([2, 3, 4, 6])
        p = rng.choice([2, 4, 6])
        spectra = []
        for _b in range(rng.choice([1, 2, 3])):
            top = 10.0 ** rng.choice([-8, -4, 0, 0, 3])
            w = [top] + [top * 10.0 ** rng.choice([0, -1, -2, -3, -5, -7.5, -9, -30]) for _ in range(n - 1)]
            if rng.random() < 0.2:
                w = [0.0] * n
            elif rng.random() < 0.3:
                w[-1] = 0.0
            spectra.append(sorted(w))
        tasks.append({"kind": "root", "x64": True, "n": n, "p": p, "cut": 1e-6, "spectra": spectra, "seed": seed * 1019 + cid})
        cid += 1
    for _ in range(24 * scale):
        T = 4
        lr = ({"kind": "sched", "table": [2.0 ** -rng.randrange(0, 4) for _ in range(T)]} if rng.random() < 0.5
              else {"kind": "const", "v": 2.0 ** -rng.randrange(0, 4)})
        tasks.append({"kind": "mom", "x64": False, "n": 6, "T": T, "seed": seed * 1021 + cid, "uscale": rng.choice([1.0, 0.5, 4.0]),
                      "mom": {"ema": rng.random() < 0.5, "nesterov": rng.random() < 0.5, "decay": rng.choice([0.0, 0.5, 0.25, 0.75]),
                              "wd": rng.choice([0.0, 0.5, 0.25]), "after": rng.random() < 0.5}, "lr": lr})
        cid += 1
    return tasks


def corpus_tasks():
    import json
    d = os.path.join(kit.ROOT, "corpus", "C15")
    out = []
    if os.path.isdir(d):
        for f in sorted(os.listdir(d)):
            if f.endswith(".json"):
                data = json.load(open(os.path.join(d, f)))
                out.extend(data.get("tasks", []))
    return out


# ============================================================================ parent side: comparison with the model
def _slim(c):
    return {k: v for k, v in c.items() if k not in ("id",)}


def _tag(c):
    k = c.get("kind", "full")
    if k != "full":
        return k
    return f"full.{c['so']}.{c['graft']['type']}"


def compare_full(ctx, o, replies):
    import numpy as np
    c = o["case"]
    for rq, rep in zip(o["reqs"], replies):
        name = rq["leaf"]
        L = o["leaves"][name]
        case = {"task": _slim(c), "leaf": name}
        if "error" in rep:
            ctx.disagree("tf_run", case, "ran", rep["error"], "the model rejects an input the implementation accepts")
            continue
        # EXACT observables
        sh = L.get("shapes")
        if sh is not None:
            ok = rep["merged"] == sh["merged"] and rep["padded"] == sh["padded"] and (c["graft"]["type"] == "NONE" or rep["masked"] == sh["masked"])
            ctx.corr("shapes(merged,padded,mask)", ok)
            if not ok:
                ctx.disagree("shapes(merged,padded,mask)", case, sh, {k: rep[k] for k in ("merged", "padded", "masked")}, "EXACT")
        ok = rep["merged"] == L["merged"] and rep["masked"] == L["masked"]
        if not ok:
            ctx.disagree("shapes_vs_reference", case, {"merged": L["merged"], "masked": L["masked"]},
                         {"merged": rep["merged"], "masked": rep["masked"]}, "EXACT (model vs the reference's own shape rules)")
        if L["near_cut"]:
            ctx.dist("leaves.near_cut_not_compared")
            continue
        tol = L["tol"]
        for t in range(c["T"]):
            impl = _unhx(L["upd"][t])
            mod = _unhx(rep["upd"][t])
            if not np.all(np.isfinite(mod)) and np.all(np.isfinite(impl)):
                ctx.disagree("driver_kernel_spec", {**case, "t": t}, "finite", "NaN",
                             "the driver's Jacobi eigh/svd failed its run-time specification check (or the model produced a non-finite value)")
                break
            e = _rel_err(np, impl, mod)
            ok = e <= tol
            ctx.corr("tf_run.update[TOL]", ok)
            if not ok:
                ctx.disagree("tf_run.update[TOL]", {**case, "t": t}, [float(v) for v in impl[:8]], [float(v) for v in mod[:8]],
                             f"relative error {e:.3g} > {tol:.3g} (kappa {L['kappa']:.3g})")
                break


def compare_root(ctx, o, replies):
    import numpy as np
    for rq, rep, R in zip(o["reqs"], replies, o["roots"]):
        case = {"task": o["case"], "block": rq["leaf"]}
        if "error" in rep:
            ctx.disagree("eigh", case, "ran", rep["error"])
            continue
        resid = kit.hex_f64(rep["resid"])
        ctx.corr("jacobi_eigh_spec_residual<=1e-9", resid <= 1e-9)
        if not resid <= 1e-9:
            ctx.disagree("jacobi_eigh_spec_residual<=1e-9", case, None, resid, "driver kernel does not meet the eigh specification")
            continue
        e = _rel_err(np, _unhx(R["root"]), _unhx(rep["root"]))
        den = float(np.abs(_unhx(rep["root"])).max())
        ok = e <= R["tol"] or (den == 0.0 and not np.any(_unhx(R["root"])))
        ctx.corr("pth_inv_root[TOL]", ok)
        if not ok:
            ctx.disagree("pth_inv_root[TOL]", case, [float(v) for v in _unhx(R["root"])[:8]], [float(v) for v in _unhx(rep["root"])[:8]],
                         f"relative error {e:.3g} > {R['tol']:.3g}")


def compare_mom(ctx, o, replies):
    from fractions import Fraction
    rep = replies[0]
    case = {"task": o["case"]}
    if "error" in rep:
        ctx.disagree("mom_run", case, "ran", rep["error"])
        return
    ok = rep["state_len"] == o["state_len"] == rep["state0_len"] == rep["spec_state_len"]
    ctx.corr("momentum_state_tuple_length[EXACT]", ok)
    if not ok:
        ctx.disagree("momentum_state_tuple_length[EXACT]", case, o["state_len"], [rep["state_len"], rep["spec_state_len"]], "")
    for t, (iu, mu) in enumerate(zip(o["upd"], rep["upd"])):
        want = [kit.f32_hex(float(Fraction(s))) if float(Fraction(s)) != 0.0 else None for s in mu]
        exact = all(Fraction(float(kit.hex_f32(kit.f32_hex(float(Fraction(s)))))) == Fraction(s) for s in mu)
        if not exact:
            ctx.dist("mom.not_representable_skipped")
            continue
        same = all((w is None and float(kit.hex_f32(i)) == 0.0) or w == i for w, i in zip(want, iu))
        ctx.corr("momentum+lr chain[EXACT-DYADIC]", same)
        if not same:
            ctx.disagree("momentum+lr chain[EXACT-DYADIC]", {**case, "t": t}, [float(kit.hex_f32(i)) for i in iu],
                         [float(Fraction(s)) for s in mu], "bitwise")
            break


# ============================================================================ stages
def const_stage(ctx):
    """literals the model / theorems depend on, parsed from the current source"""
    try:
        cut = consts.func_local("tearfree/shampoo.py", "_pth_inv_root", "eps")
    except kit.InfraError:
        cut = None
    ctx.cov["constants"] = {"tearfree.shampoo._pth_inv_root.eps": cut}
    if cut is None:
        ctx.const_fail("eigenvalue_cut", "literal `eps` of tearfree/shampoo.py::_pth_inv_root not found")
        return 1e-6
    if not (0 < cut < 1):
        ctx.const_fail("eigenvalue_cut in (0,1)", f"eps = {cut}: hypothesis 0 < cut < 1 of shampoo_block_root_spec no longer holds")
    if cut != 1e-6:
        ctx.const_fail("eigenvalue_cut == 1e-6", f"eps = {cut}: the property states a relative cut of 1e-6")
    lits = consts.func_literals("tearfree/shampoo.py", "_update_block_precond")
    ctx.cov["constants"]["tearfree.shampoo._update_block_precond.literals"] = lits
    if 2 not in lits:
        ctx.const_fail("exponent = 2 * rank", f"_update_block_precond literals {lits}: the factor 2 of p = 2*rank is gone")
    return cut


def execute(ctx, tasks):
    nproc = min(14, int(os.environ.get("C15_NPROC", "14")))
    heavy = [t for t in tasks if t.get("kind", "full") != "mom"]
    light = [t for t in tasks if t.get("kind", "full") == "mom"]
    # homogeneous chunks (x64 on/off is switched per task anyway); interleave so that every worker gets a similar load
    a = [t for t in heavy if t.get("x64", True)]
    b = [t for t in heavy if not t.get("x64", True)]
    per = max(1, min(5, math.ceil(len(heavy) / (nproc * 3))))
    chunks = kit.chunked(a, per) + kit.chunked(b, per) + kit.chunked(light, 12)
    results = kit.parallel_map(worker, chunks, nproc=nproc)
    obs = [o for grp in results for o in grp]
    reqs, spans = [], []
    for o in obs:
        rq = [r["req"] for r in o.get("reqs", [])]
        spans.append((len(reqs), len(reqs) + len(rq)))
        reqs.extend(rq)
    replies = []
    for i in range(0, len(reqs), 400):
        replies.extend(ctx.driver(reqs[i:i + 400]))
    worst = {"shampoo": 0.0, "sketchy": 0.0}
    for o, (i0, i1) in zip(obs, spans):
        c = o["case"]
        kind = o["kind"]
        ctx.dist("tasks." + _tag(c))
        if "exception" in o:
            ctx.violation("the implementation raised on an accepted configuration: " + o["exception"], {"task": _slim(c), "trace": o.get("trace", "")[-600:]})
            continue
        if o.get("skipped"):
            ctx.notes.append(o["skipped"])
            continue
        for f in o["fails"][:4]:
            ctx.violation(f["what"], {"task": _slim(c), **{k: v for k, v in f.items() if k != "what"}})
        if kind == "full":
            compare_full(ctx, o, replies[i0:i1])
            for name, L in o["leaves"].items():
                ctx.evaluated(c["T"])
                ctx.cov["search_evaluations"] += c["T"]
                if L["near_cut"]:
                    continue
                worst[c["so"]] = max(worst[c["so"]], max(e / L["tol"] for e in L["errs"]))
                if not L["dtype_ok"]:
                    ctx.violation("update dtype differs from the parameter dtype", {"task": _slim(c), "leaf": name})
                ctx.dist("leaves." + c["so"] + (".masked" if L["masked"] else ".preconditioned"))
                if L["shapes"] and L["shapes"]["padded"] != L["shapes"]["merged"]:
                    ctx.dist("leaves.zero_padded")
                if L["merged"] != [d for d in c["shapes"][name]]:
                    ctx.dist("leaves.merged_shape_differs_from_original")
                if c["so"] == "shampoo" and not L["masked"]:
                    big = [i for i, d in enumerate(L["merged"]) if d >= c["block"]]
                    if len(big) == 2 and big[1] - big[0] > 1:
                        ctx.dist("leaves.two_blocked_axes_separated_by_small_axes")
                for t in L["nontrivial"]:
                    if t >= c["graft"]["start"] or c["graft"]["type"] == "NONE":
                        ctx.nontrivial((c["so"], c["graft"]["type"], str(c["shapes"]), c["merge"], c["block"], c["grad"]["seed"], name, t))
            if "lin" in o:
                ctx.dist("linear_in_lr.steps_bitwise_equal", o["lin"]["steps"])
                ctx.dist("linear_in_lr.mode." + o["lin"]["mode"])
                ctx.cov["search_evaluations"] += o["lin"]["steps"]
            for k in ("ema", "nesterov", "after"):
                ctx.dist(f"momentum.{k}={c['mom'][k]}")
            ctx.dist(f"momentum.decay={c['mom']['decay']}.wd={c['mom']['wd']}")
            ctx.dist("lr." + c["lr"]["kind"])
            if c["so"] == "sketchy":
                ctx.dist("sketchy.add_ggt=%s.memory_alloc=%s" % (bool(c["sk"].get("add_ggt")), bool(c["sk"].get("alloc"))))
        elif kind in ("pad", "merge"):
            ctx.evaluated(o.get("checked", 0))
            ctx.cov["search_evaluations"] += o.get("checked", 0)
            if o.get("near_cut"):
                ctx.dist("pad.near_cut_not_compared")
        elif kind == "root":
            ctx.evaluated(o["checked"])
            ctx.cov["search_evaluations"] += o["checked"]
            compare_root(ctx, o, replies[i0:i1])
        elif kind == "mom":
            ctx.evaluated(c["T"])
            compare_mom(ctx, o, replies[i0:i1])
    ctx.cov["worst_error_over_tolerance"] = worst
    return obs


RULE = (
    "public tearfree(lr, options) on small trees (matrices, vectors, rank 3, scalar, unit dims) over T = 5-6 steps: {Shampoo under x64, "
    "Sketchy in float32, with / without add_ggt and per-axis memory_alloc ranks} x block size {2,3,4,1024} x merge limit {2,6,12,1024} x statistics / preconditioner frequency {1,2,3} x "
    "second-moment decay {1, .999, .9, .5} x graft {NONE, SGD, RMSPROP, ADAFACTOR} x start step {0..3, never} x skip rules (rank 1, "
    "any_dim_gt 5) x momentum {off, .9, .5} x ema x nesterov x weight decay {0, .1, .01} before/after x constant / scheduled lr x gradient "
    "histories (normal x scale 1e-5..30, integer-valued, low rank, block-scale-disparate 1e-4/1e-5, all-zero steps), jit or eager; plus "
    "implementation-only metamorphic runs (padded leaf vs its blocks as leaves, merged leaf vs pre-merged leaf), _pth_inv_root on PSD "
    "batches given by spectrum, and the momentum+lr chain on dyadic data. evaluations = (leaf, step) updates compared. A non-trivial case "
    "is a distinct (second-order type, graft, tree, merge, block, history, leaf, step) of a PRECONDITIONED leaf at or after the start step "
    "whose second-order output is non-zero and not parallel to the graft step (|cos| < 0.999): there the composition differs from the "
    "graft step alone and from the bare preconditioned gradient.")


def run(ctx):
    if os.environ.get("C15_NOLEAN"):   # builder aid for mutation experiments; recorded so it cannot pass for a full run
        ctx.notes.append("DEV: Lean stage skipped (C15_NOLEAN)")
        ctx.cov["dev_nolean"] = True
        ctx.cov["obligations"], ctx.cov["discharged"] = 1, 0
    else:
        # second tie: reshaper._derive_shapes, shampoo._blocks_metadata, merge_small_dims and the graft mask as translated from
        # today's source are proved equal to the model's functions (namespace GenProps.C15 of Props/Gen.lean)
        kit.gen_stage(ctx)
        ctx.lean_stage(extra_props=("Gen", "Compose"))
    const_stage(ctx)
    ctx.cov["rule"] = RULE
    ctx.assumptions += [
        "oracle: independent float64 numpy reference of the documented composition (unpadded per-block Shampoo with the per-block 1e-6 "
        "cut, frequent-directions root, closed-form grafts, AdaFactor from the optax documentation); relative error (max-norm, per leaf "
        "and step) <= 1e-12 + 1e-11*kappa for Shampoo/x64 and 2e-5 + 2e-7*kappa for Sketchy/float32, kappa = largest ratio "
        "lambda_max/lambda_min(retained) resp. s_max^2/(retained eigenvalue + eps) seen by that leaf; + 1e-5 for ADAFACTOR grafts (optax "
        "evaluates its decay schedule in float32)",
        "a leaf whose statistics have an eigenvalue within a factor 8 of the cut (Sketchy: a retained direction within 1e-3 s_max of the "
        "cut-off singular value) is classified near-cut and not compared (discontinuity of the specification itself)",
        "Sketchy options ekfac_svd and linear_approx_tail are NOT in the quantifier: their documentation names the idea only (no formula "
        "for the ekfac preconditioner; 'approximately linear relationship between log(eigval) and log(rank)' while the code regresses raw "
        "eigenvalues on raw ranks with slope s_xy/s_x^2 and evaluates at log ranks), so no independent reference can be written; add_ggt "
        "(documented: only stores a statistic) and memory_alloc (documented: rank per tensor axis) are",
        "Sketchy histories are restricted to factors of full rank from the first step (else the SVD noise decides which directions are "
        "kept); the frequent-directions step itself is C09's subject",
        "correspondence: the Lean composition at binary64 with a Jacobi eigh/svd kernel re-checked against the eigh specification "
        "(residual <= 1e-9) at run time; same tolerances as the oracle; shapes / masks / exponent EXACT; momentum+lr chain at exact "
        "rationals on dyadic inputs, bitwise",
        "linear_in_lr: update(2 lr) == 2 update(lr) bitwise for dyadic constant and scheduled learning rates; state bitwise independent of lr",
    ]
    tasks = corpus_tasks() + gen_tasks(ctx.tier, ctx.seed)
    only = os.environ.get("C15_ONLY")
    if only:
        tasks = [t for t in tasks if _tag(t).startswith(only)]
        ctx.notes.append(f"DEV: tasks filtered by C15_ONLY={only}")
        ctx.cov["dev_filter"] = only
    obs = execute(ctx, tasks)
    picked = 0
    for o in obs:
        if picked < 6 and o["kind"] == "full" and "leaves" in o:
            for name, L in o["leaves"].items():
                if L["nontrivial"] and not L["near_cut"]:
                    t = L["nontrivial"][-1]
                    ctx.sample({"task": _slim(o["case"]), "leaf": name, "t": t, "update": [kit.hex_f64(h) for h in L["upd"][t][:6]],
                                "relative_error_vs_reference": L["errs"][t], "tolerance": L["tol"]})
                    picked += 1
                    break


def replay(ctx, data):
    cases = [v["case"] for v in data.get("violations", [])]
    cases += [s["detail"]["case"] for s in data.get("stage_failures", [])
              if isinstance(s.get("detail"), dict) and isinstance(s["detail"].get("case"), dict)]
    tasks, seen = [], set()
    for c in cases:
        t = c.get("task")
        if not isinstance(t, dict):
            continue
        key = repr(sorted(t.items(), key=lambda kv: kv[0]))
        if key in seen:
            continue
        seen.add(key)
        tasks.append(t)
    ctx.cov["rule"] = "replay of recorded cases"
    const_stage(ctx)
    execute(ctx, tasks)
