"""C06 — merging, blocking, blockifying and padding are lossless and self-consistent.

Correspondence: real functions called on arange tensors vs the Lean model (`Model/Shapes.lean`) — EXACT.
Search oracle: the round-trip / count / contiguity identities evaluated directly with numpy.
"""
import itertools
import random

from harness import kit

PTYPES = ["ALL", "INPUT", "OUTPUT"]


# ----------------------------------------------------------------------------- case generation
def shapes_upto(max_rank, max_dim):
    out = []
    for r in range(max_rank + 1):
        out.extend(list(p) for p in itertools.product(range(1, max_dim + 1), repeat=r))
    return out


def gen_cases(tier, seed):
    rng = random.Random(seed)
    cases = []
    if tier == "quick":
        base = shapes_upto(3, 4)
        extra = [[rng.randint(1, 6) for _ in range(4)] for _ in range(25)]
        extra += [[rng.randint(1, 9) for _ in range(rng.randint(1, 3))] for _ in range(40)]
        extra += [[rng.randint(1, 3) for _ in range(5)] for _ in range(8)]
        blocks = [0, 1, 2, 3, 5]
        merges = [1, 2, 3, 4, 6, 8, 12, 16, 40]
    else:
        base = shapes_upto(4, 5) + shapes_upto(3, 8)
        extra = [[rng.randint(1, 8) for _ in range(5)] for _ in range(40)]
        extra += [[rng.randint(1, 12) for _ in range(rng.randint(1, 4))] for _ in range(200)]
        blocks = [0, 1, 2, 3, 4, 5, 7, 9]
        merges = [1, 2, 3, 4, 5, 6, 8, 9, 12, 16, 24, 27, 40, 64]
    seen = set()
    shapes = []
    for s in base + extra:
        if tuple(s) not in seen:
            seen.add(tuple(s))
            shapes.append(s)
    exhaustive_note = f"all shapes of rank<=3 dims<=4 (quick) / rank<=4 dims<=5 and rank<=3 dims<=8 (thorough), x blocks {blocks} x merge limits {merges}"
    for s in shapes:
        n = 1
        for d in s:
            n *= d
        cases.append({"op": "merge", "shape": s, "limits": merges})
        if n <= 4096:
            for b in blocks:
                cases.append({"op": "partition", "shape": s, "block": b})
        # preconditioner bookkeeping on the transformed shape (merging exercised through Preconditioner)
        for b in blocks:
            if n <= 2048:
                pt = PTYPES[(len(s) + b) % 3]
                for ptype in ([pt] if tier == "quick" else PTYPES):
                    for rc in ([0, 1] if tier == "quick" else [0, 1, 2, -1]):
                        cases.append({"op": "precond", "shape": s, "block": b, "ptype": ptype, "rank_c": rc,
                                      "merge": merges[(len(s) * 7 + b) % len(merges)]})
        # tearfree reshaper
        for b in [0, 2, 3, 4]:
            for md in [2, 3, 4, 6, 16]:
                if n <= 2048 and (tier != "quick" or (b + md + len(s)) % 2 == 0):
                    cases.append({"op": "tf_shapes", "shape": s, "block": b, "merge_dims": md})
        # tearfree blockify: shapes the init accepts (no unit dims, <=2 large dims, divisible)
        for b in [2, 3, 4, 5]:
            if all(d != 1 for d in s) and sum(d >= b for d in s) <= 2 and all(d % b == 0 for d in s if d >= b) and n <= 4096:
                cases.append({"op": "blockify", "shape": s, "block": b})
    # blockify wants bigger multiples too
    for _ in range(30 if tier == "quick" else 200):
        b = rng.randint(2, 4)
        r = rng.randint(1, 4)
        large = rng.sample(range(r), min(r, rng.randint(0, 2)))
        s = [b * rng.randint(1, 3) if i in large else rng.randint(2, max(2, b - 1)) for i in range(r)]
        s = [d for d in s]
        if all(d != 1 for d in s) and sum(d >= b for d in s) <= 2 and all(d % b == 0 for d in s if d >= b):
            cases.append({"op": "blockify", "shape": s, "block": b})
    return cases, exhaustive_note


# ----------------------------------------------------------------------------- implementation runner + oracle
def run_impl(chunk):
    """Runs the real code on a chunk of cases. Returns list of (impl_observation, oracle_failures)."""
    import numpy as np
    import jax
    import jax.numpy as jnp
    import io
    import contextlib
    from precondition import distributed_shampoo as ds
    from precondition.tearfree import reshaper, shampoo as tfs

    out = []
    for c in chunk:
        fails = []
        obs = {}
        try:
            shape = c["shape"]
            n = int(np.prod(shape)) if shape else 1
            if c["op"] == "merge":
                obs["merged"] = []
                for m in c["limits"]:
                    r = [int(x) for x in ds.merge_small_dims(shape, m)]
                    obs["merged"].append(r)
                    if int(np.prod(r)) != n:
                        fails.append(f"merge_small_dims({shape},{m})={r} changes the element count")
                    for x in r:
                        if not (x <= m or x in shape):
                            fails.append(f"merge_small_dims({shape},{m})={r}: dim {x} exceeds limit and is not an original dim")
            elif c["op"] == "partition":
                b = c["block"]
                t = jnp.arange(n, dtype=jnp.int32).reshape(shape)
                bp = ds.BlockPartitioner(t, b)
                sizes = [[int(x) for x in s] for s in bp.split_sizes()]
                parts = bp.partition(t)
                merged = bp.merge_partitions(parts)
                obs["sizes"] = sizes
                obs["blocks"] = [{"shape": [int(x) for x in p.shape], "data": [int(x) for x in np.asarray(p).reshape(-1)]} for p in parts]
                obs["merged"] = {"shape": [int(x) for x in merged.shape], "data": [int(x) for x in np.asarray(merged).reshape(-1)]}
                # index-level observables derived from the REAL blocks (arange values = row-major positions)
                pa = [np.asarray(p) for p in parts]
                obs["grid"] = [len(x) for x in sizes]
                obs["offsets"] = [[int(v) for v in np.unravel_index(int(p.reshape(-1)[0]), shape)] if p.size else None for p in pa]
                obs["dims"] = [[int(v) for v in p.shape] for p in pa]
                loc = [None] * n
                for k, p in enumerate(pa):
                    for jdx in np.ndindex(*p.shape):
                        v = int(p[jdx])
                        if 0 <= v < n and loc[v] is None:
                            loc[v] = [k] + [int(q) for q in jdx]
                obs["locate"] = loc
                # direct oracle: the blocks tile the tensor (every entry in exactly one block)
                allv = np.sort(np.concatenate([p.reshape(-1) for p in pa])) if pa else np.zeros(0)
                if allv.shape[0] != n or not np.array_equal(allv, np.arange(n)):
                    fails.append(f"blocks of shape {shape} block {b} do not tile the tensor (an entry is missing or duplicated)")
                # direct oracle
                if not np.array_equal(np.asarray(merged), np.asarray(t)):
                    fails.append(f"merge_partitions(partition(t)) != t for shape {shape} block {b}")
                for i, s in enumerate(sizes):
                    if sum(s) != shape[i]:
                        fails.append(f"split sizes {s} do not sum to dim {shape[i]}")
                    if 0 < b < shape[i] and any(x > b or x < 1 for x in s):
                        fails.append(f"split sizes {s} exceed block {b} or are empty")
                offs = [np.concatenate([[0], np.cumsum(s)]) for s in sizes]
                ref = np.arange(n).reshape(shape)
                combos = list(itertools.product(*[range(len(s)) for s in sizes]))
                if len(combos) != len(parts):
                    fails.append(f"{len(parts)} blocks produced, {len(combos)} announced by split_sizes")
                else:
                    for k, combo in enumerate(combos):
                        sl = tuple(slice(int(offs[a][j]), int(offs[a][j + 1])) for a, j in enumerate(combo))
                        if not np.array_equal(np.asarray(parts[k]), ref[sl]):
                            fails.append(f"block {k} of shape {shape} block {b} is not the contiguous slice {sl}")
                            break
            elif c["op"] == "precond":
                b, rc, ptype = c["block"], c["rank_c"], c["ptype"]
                param = jnp.zeros(shape, jnp.float32)
                pre = ds.Preconditioner(param, b, c["merge"], True, getattr(ds.PreconditionerType, ptype), rc)
                tshape = [int(x) for x in pre._transformed_shape]
                obs["tshape"] = tshape
                obs["should"] = [bool(x) for x in pre.should_precondition_dims()]
                obs["exponent"] = int(pre.exponent_for_preconditioner())
                shp = [[int(a), int(bb)] for a, bb in pre.shapes_for_preconditioners()]
                obs["shapes"] = shp
                sizes = pre._partitioner.split_sizes()
                nblocks = int(np.prod([len(s) for s in sizes])) if len(sizes) else 1
                obs["nblocks"] = nblocks
                k = sum(obs["should"])
                slots = []
                for i in range(nblocks):
                    try:
                        sl = pre._preconds_for_grad(list(range(nblocks * k)), rank=len(tshape), start=i * k, end=(i + 1) * k)
                        slots.append([None if x is None else int(x) for x in sl])
                    except AssertionError:
                        slots.append("AssertionError")
                        fails.append(f"_preconds_for_grad raises a bare AssertionError for shape {tshape} type {ptype}")
                        break
                obs["slots"] = slots
                obs["compress"] = [bool(ds._should_compress(rc, d)) for d, _ in shp]
                # direct oracle: announced preconditioners agree with blocks produced
                g = jnp.arange(n, dtype=jnp.float32).reshape(shape) + 1.0
                parts = pre._partitioner.partition(jnp.reshape(g, tshape))
                want = []
                for p in parts:
                    for ax, sh in enumerate(obs["should"]):
                        if sh:
                            want.append(int(p.shape[ax]))
                if [d for d, _ in shp] != want:
                    fails.append(f"shapes_for_preconditioners {shp} disagree with blocks produced {want}")
                if rc == 0 and not any(isinstance(s, str) for s in slots):
                    ids = [jnp.eye(d, dtype=jnp.float32) for d, _ in shp]
                    pg = pre.preconditioned_grad(g, ids)
                    if pg.shape != g.shape or not np.array_equal(np.asarray(pg), np.asarray(g)):
                        fails.append(f"identity preconditioning changes the gradient for shape {shape} block {b} type {ptype}")
                for (d, pd), cflag in zip(shp, obs["compress"]):
                    if (pd < d) != cflag:
                        fails.append(f"_precond_dim/_should_compress disagree at dim {d} rank {rc}")
            elif c["op"] == "tf_shapes":
                b, md = c["block"], c["merge_dims"]
                opts = reshaper.Options(merge_dims=md, block_size=b)
                param = jnp.arange(n, dtype=jnp.int32).reshape(shape) + 1
                sh = reshaper._derive_shapes(opts, param)
                obs["merged_shape"] = [int(x) for x in sh.merged_shape]
                obs["padded_shape"] = [int(x) for x in sh.padded_shape]
                m, _ = reshaper.merge(opts).update({"w": param}, None, {"w": param})
                mw = m["w"]
                u, _ = reshaper.unmerge(opts).update({"w": mw}, None, {"w": param})
                uw = u["w"]
                obs["merged"] = {"shape": [int(x) for x in mw.shape], "data": [int(x) for x in np.asarray(mw).reshape(-1)]}
                obs["unmerged"] = {"shape": [int(x) for x in uw.shape], "data": [int(x) for x in np.asarray(uw).reshape(-1)]}
                if uw.shape != param.shape or not np.array_equal(np.asarray(uw), np.asarray(param)):
                    fails.append(f"unmerge(merge(x)) != x for shape {shape} merge_dims {md} block {b}")
                for p_, m_ in zip(sh.padded_shape, sh.merged_shape):
                    if p_ < m_ or (b > 0 and m_ >= b and p_ % b != 0) or (b > 0 and p_ >= m_ + b) or (b > 0 and m_ < b and p_ != m_):
                        fails.append(f"padding {m_}->{p_} breaks the padding contract for block {b}")
                if int(np.count_nonzero(np.asarray(mw))) != n:
                    fails.append("merge/pad lost or duplicated entries")
            elif c["op"] == "blockify":
                b = c["block"]
                opts = tfs.Options(block_size=b)
                meta = tfs._blocks_metadata(opts, shape, "p")
                x = jnp.arange(n, dtype=jnp.int32).reshape(shape)
                bx = tfs._blockify(x, meta)
                dx = tfs._deblockify(bx, meta)
                obs["block_sizes"] = [int(v) for v in meta.block_sizes]
                obs["num_blocks"] = int(meta.num_blocks)
                obs["large_axes"] = [int(v) for v in meta.large_axes]
                obs["blocks_per_large_axis"] = [int(v) for v in meta.blocks_per_large_axis]
                obs["blocks_axis"] = int(meta.blocks_axis)
                obs["blocked"] = {"shape": [int(v) for v in bx.shape], "data": [int(v) for v in np.asarray(bx).reshape(-1)]}
                obs["deblocked"] = {"shape": [int(v) for v in dx.shape], "data": [int(v) for v in np.asarray(dx).reshape(-1)]}
                bxn = np.asarray(bx)
                flat = bxn.reshape(-1)
                obs["blocked_shape"] = [int(v) for v in bxn.shape]
                obs["unblocked"] = [int(v) for v in flat]
                if sorted(obs["unblocked"]) == list(range(n)):
                    pos = np.argsort(flat, kind="stable")
                    obs["blocked_pos"] = [int(v) for v in pos]
                    co = np.unravel_index(pos, bxn.shape) if bxn.ndim else ()
                    ba = int(meta.blocks_axis)
                    obs["block_of"] = [int(v) for v in co[ba]]
                    obs["inner_of"] = [[int(co[a][i]) for a in range(bxn.ndim) if a != ba] for i in range(n)]
                    kb = np.moveaxis(bxn, ba, 0)
                    obs["block_offsets"] = [[int(v) for v in np.unravel_index(int(kb[k].reshape(-1)[0]), shape)] for k in range(kb.shape[0])]
                else:
                    fails.append(f"blockify({shape}, {b}) is not a rearrangement of the entries")
                if not np.array_equal(np.asarray(dx), np.asarray(x)):
                    fails.append(f"deblockify(blockify(x)) != x for shape {shape} block {b}")
                # each block is a contiguous sub-tensor no larger than the block size
                ref = np.arange(n).reshape(shape)
                nb = meta.num_blocks
                bxa = np.moveaxis(np.asarray(bx), meta.blocks_axis, 0)
                if bxa.shape[0] != nb:
                    fails.append("blocks axis has wrong length")
                else:
                    ranges = [range(v) for v in meta.blocks_per_large_axis] or [range(1)]
                    combos = list(itertools.product(*ranges)) if meta.large_axes else [()]
                    for k, combo in enumerate(combos):
                        sl = [slice(None)] * len(shape)
                        for a, j in zip(meta.large_axes, combo):
                            sl[a] = slice(j * b, (j + 1) * b)
                        if bxa[k].shape != ref[tuple(sl)].shape or not np.array_equal(bxa[k], ref[tuple(sl)]):
                            fails.append(f"block {k} of blockify({shape}, {b}) is not the contiguous sub-tensor {sl}")
                            break
                        if any(v > b for v in bxa[k].shape):
                            fails.append("block larger than block size")
        except Exception as e:  # noqa: BLE001
            obs = {"exception": type(e).__name__ + ": " + str(e)[:200]}
            fails.append(f"unexpected exception {type(e).__name__}: {str(e)[:200]}")
        out.append((obs, fails))
    return out


# ----------------------------------------------------------------------------- model requests / comparison
def model_requests(c, obs):
    s = c["shape"]
    if c["op"] == "merge":
        return [{"op": "merge_small_dims", "shape": s, "max_dim": m} for m in c["limits"]]
    if c["op"] == "partition":
        return [{"op": "split_sizes", "shape": s, "block": c["block"]}, {"op": "partition", "shape": s, "block": c["block"]},
                {"op": "partition_idx", "shape": s, "block": c["block"]}]
    if c["op"] == "precond":
        r = [{"op": "merge_small_dims", "shape": s, "max_dim": c["merge"]}]
        if "tshape" in obs:
            r.append({"op": "precond", "shape": obs["tshape"], "block": c["block"], "rank_c": abs(c["rank_c"]), "ptype": c["ptype"]})
        return r
    if c["op"] == "tf_shapes":
        return [{"op": "tf_shapes", "shape": s, "merge_dims": c["merge_dims"], "block": c["block"]}]
    if c["op"] == "blockify":
        return [{"op": "blockify", "shape": s, "block": c["block"]}, {"op": "blockify_idx", "shape": s, "block": c["block"]}]
    raise ValueError(c["op"])


def compare(ctx, c, obs, replies):
    def chk(name, impl, model):
        ok = impl == model
        ctx.corr(name, ok)
        if not ok:
            ctx.disagree(name, c, impl, model)
        return ok
    if "exception" in obs:
        ctx.disagree(c["op"], c, obs, None, "implementation raised")
        return
    if c["op"] == "merge":
        for m, r, rep in zip(c["limits"], obs["merged"], replies):
            chk("merge_small_dims", r, rep.get("shape"))
    elif c["op"] == "partition":
        chk("split_sizes", obs["sizes"], replies[0].get("sizes"))
        chk("partition", obs["blocks"], replies[1].get("blocks"))
        chk("merge_partitions", obs["merged"], replies[1].get("merged"))
        # closed index description (Model/ShapesIdx.lean): block k = t[offsets k : offsets k + dims k], k in product order
        ix = replies[2]
        chk("partition_idx.grid", obs["grid"], ix.get("grid"))
        chk("partition_idx.dims", obs["dims"], ix.get("dims"))
        mo = ix.get("offsets")
        chk("partition_idx.offsets", obs["offsets"], [m if o is not None else None for m, o in zip(mo, obs["offsets"])] if isinstance(mo, list) and len(mo) == len(obs["offsets"]) else mo)
        chk("partition_idx.boxes", obs["blocks"], ix.get("boxes"))
        chk("partition_idx.locate", obs["locate"], ix.get("locate"))
    elif c["op"] == "precond":
        chk("merge_small_dims", obs["tshape"], replies[0].get("shape"))
        rep = replies[1]
        for k in ["should", "exponent", "shapes", "nblocks", "slots", "compress"]:
            chk("precond." + k, obs[k], rep.get(k))
    elif c["op"] == "tf_shapes":
        rep = replies[0]
        for k in ["merged_shape", "padded_shape", "merged", "unmerged"]:
            chk("tf." + k, obs[k], rep.get(k))
    elif c["op"] == "blockify":
        rep = replies[0]
        for k in ["block_sizes", "num_blocks", "large_axes", "blocks_per_large_axis", "blocks_axis", "blocked", "deblocked"]:
            chk("blockify." + k, obs[k], rep.get(k))
        ix = replies[1]
        for k in ["blocked_shape", "unblocked", "blocked_pos", "block_of", "inner_of", "block_offsets"]:
            if k in obs:
                chk("blockify_idx." + k, obs[k], ix.get(k))


def nontrivial_key(c):
    s = c["shape"]
    if c["op"] == "merge":
        return ("merge", tuple(s)) if len(s) >= 2 else None
    if c["op"] == "partition":
        return ("partition", tuple(s), c["block"]) if any(0 < c["block"] < d for d in s) else None
    if c["op"] == "precond":
        return ("precond", tuple(s), c["block"], c["ptype"], c["rank_c"]) if len(s) >= 1 else None
    if c["op"] == "tf_shapes":
        return ("tf", tuple(s), c["block"], c["merge_dims"]) if len(s) >= 1 else None
    if c["op"] == "blockify":
        return ("blockify", tuple(s), c["block"]) if any(d >= c["block"] for d in s) else None


def execute(ctx, cases):
    chunks = kit.chunked(cases, max(1, min(60, len(cases) // 14 + 1)))
    results = kit.parallel_map(run_impl, chunks, nproc=14)
    flat = [r for ch in results for r in ch]
    reqs, spans = [], []
    for c, (obs, _f) in zip(cases, flat):
        rq = model_requests(c, obs)
        spans.append((len(reqs), len(reqs) + len(rq)))
        reqs.extend(rq)
    replies = ctx.driver(reqs)
    for c, (obs, fails), (a, b) in zip(cases, flat, spans):
        ctx.evaluated()
        ctx.cov["search_evaluations"] += 1
        ctx.dist(c["op"])
        k = nontrivial_key(c)
        if k is not None:
            ctx.nontrivial(k)
        compare(ctx, c, obs, replies[a:b])
        for f in fails:
            ctx.violation(f, c)
    return flat


def run(ctx):
    # the pure shape functions (merge_small_dims, BlockPartitioner.__init__, should_precondition_dims, _derive_shapes,
    # _blocks_metadata) are re-translated from the current source; Props/Gen.lean bridges them to Model/Shapes.lean
    kit.gen_stage(ctx)
    # Props/C06b.lean (identity preconditioning; needs C02's model, which imports C06) is audited with C06's own theorems
    ctx.lean_stage(extra_props=("Gen", "C06b"))
    ctx.notes.append("model tie #2: Gen/Src.lean regenerated from the source by harness/py2lean.py on this run; bridge theorems "
                     "PrecondVerif.GenProps.C06.* (Props/Gen.lean) prove it equal to Model/Shapes.lean for all shapes / block sizes")
    cases, note = gen_cases(ctx.tier, ctx.seed)
    ctx.cov["rule"] = ("shapes enumerated: " + note + ", plus seeded random shapes of rank 4-5; a case is non-trivial when it has "
                       "rank>=2 (merge), at least one axis really split (partition), rank>=1 (preconditioner bookkeeping, reshaper) "
                       "or a large axis (blockify); distinct by (op, shape, block, options)")
    ctx.cov["exhaustive"] = True
    ctx.assumptions += ["arange-valued tensors make any permutation or loss visible",
                        "comparison policy EXACT (integers, shapes, index lists)"]
    flat = execute(ctx, cases)
    for c, (obs, _f) in list(zip(cases, flat))[:: max(1, len(cases) // 5)]:
        ctx.sample({"case": c, "impl": {k: (v if len(str(v)) < 200 else str(v)[:200] + "...") for k, v in obs.items()}})


def replay(ctx, data):
    cases = [v["case"] for v in data.get("violations", [])]
    cases += [s["detail"]["case"] for s in data.get("stage_failures", []) if isinstance(s.get("detail"), dict) and "case" in s["detail"]]
    ctx.cov["rule"] = "replay of recorded cases"
    execute(ctx, cases)
