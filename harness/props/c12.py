"""C12 — SM3 accumulators cover the true second moment.

The real optimizer (`precondition.sm3.sm3(...)`, public `init` / `update`, eager and under `jit`, default float32 and
x64/float64) is run over gradient histories on trees of 1-2 parameter tensors of rank 1..4.

Correspondence (K), Lean model `Model/SM3.lean` through `drv_c12`:
  K-hist  whole accumulator histories through `accStep` (the definition the theorems are about):
          * stream `dyadic` (gradients k*2^e, beta2 in {1, 1/2, 3/4}, every intermediate exactly representable):
            every accumulator after every step must equal the `Rat` run bit for bit (EXACT-DYADIC);
          * stream `float` (general gradients, any beta2): `Rat` run on the exact values of the gradients, TOL
            (4t+8)u after t steps; with normalize_grads the binary64 run of the model (it needs sqrt), TOL + 3(n+4)u;
          SM3State.count and the all-zero initial state EXACT.
  K-step  one full `update_fn` of the model at binary64 started from the implementation's OWN previous state
          (accumulators, int8 momentum payload, bucket sizes, parameters): new accumulators and returned update TOL(40u x
          conditioning scale), stored int8 payload EXACT except +-1 where the model's ratio is within the propagated
          tolerance of a half-integer (counted as boundary), bucket sizes TOL.  u = 2^-24 (float32) or 2^-53 (x64).
Search oracle (S), no reference to the model, reference accumulator S_t = beta2*S_{t-1} + w*g^2 per entry in 80-bit
extended precision from the gradients actually fed (normalised in float64 when normalize_grads):
  cover         min_i acc_i[idx_i] >= S_t * (1 - tol) for every coordinate after every step (exact for `dyadic`)
  monotone      beta2 == 1: no accumulator entry ever decreases (exact comparison)
  step          beta1 == 0, weight_decay == 0: |update| <= lr_t |g| / sqrt(S_t + eps) * (1 + tol)
  rank 1        accumulator == S_t and (beta1 == 0, wd == 0) update == -lr_t g / sqrt(S_t + eps) within tol
  state         accumulator i has shape (d_i,), update has the parameter's shape, everything finite.
"""
import ast
import glob
import hashlib
import json
import os
import random
from fractions import Fraction

from harness import consts, kit

U32 = 2.0 ** -24
U64 = 2.0 ** -53
INT_BUCKETS = {"int8": 127, "int16": 32767}


# ----------------------------------------------------------------------------- constants from the source
def const_stage(ctx):
    d = {
        "beta1": consts.func_default("sm3.py", "sm3", "beta1"),
        "beta2": consts.func_default("sm3.py", "sm3", "beta2"),
        "eps": consts.func_default("sm3.py", "sm3", "diagonal_epsilon"),
        "wd": consts.func_default("sm3.py", "sm3", "weight_decay"),
        "normalize": consts.func_default("sm3.py", "sm3", "normalize_grads"),
    }
    for k, v in d.items():
        if v is None:
            raise kit.InfraError(f"default of {k} not found in sm3.py")
    # 1e-16 of the gradient normalisation: the float literal added to jnp.linalg.norm(g) in update_fn
    src = open(os.path.join(kit.repo_src(), "sm3.py")).read()
    tree = ast.parse(src)
    norm_eps = None
    for node in ast.walk(tree):
        if isinstance(node, ast.BinOp) and isinstance(node.op, ast.Add) and isinstance(node.right, ast.Constant) \
                and isinstance(node.right.value, float) and "norm" in ast.unparse(node.left):
            norm_eps = node.right.value
    if norm_eps is None:
        raise kit.InfraError("normalisation epsilon not found in sm3.py")
    d["norm_eps"] = norm_eps
    # dtype of the quantized momentum and its bucket count
    qd = None
    for node in ast.walk(tree):
        if isinstance(node, ast.FunctionDef) and node.name == "_quantize_momentum":
            for a in ast.walk(node):
                if isinstance(a, ast.Attribute) and a.attr in ("int8", "int16", "bfloat16", "float32"):
                    qd = a.attr
    if qd not in INT_BUCKETS:
        raise kit.InfraError(f"momentum quantization dtype {qd!r} is not an integer type the model covers")
    lits = [v for v in consts.func_literals("quantization_utils.py", "quantize") if float(v) == INT_BUCKETS[qd]]
    if not lits:
        ctx.const_fail("num_buckets", f"literal {INT_BUCKETS[qd]} for {qd} not found in QuantizedValue.quantize")
    d["qdtype"] = qd
    d["buckets"] = INT_BUCKETS[qd]
    if not (0.0 <= d["beta2"]):
        ctx.const_fail("beta2", f"default {d['beta2']!r}: sm3_cover_exact assumes 0 <= beta2 (hypothesis hβ)")
    if not (d["beta2"] <= 1.0):
        ctx.const_fail("beta2", f"default {d['beta2']!r} > 1: w = 1 - beta2 < 0, sm3_step_le_adagrad_code assumes 0 <= w (hw)")
    if not (0.0 < d["eps"]):
        ctx.const_fail("diagonal_epsilon", f"default {d['eps']!r}: sm3_step_le_adagrad_code assumes eps > 0 (heps)")
    ctx.cov["constants"] = dict(d)
    return d


# ----------------------------------------------------------------------------- number transport
def hx(a):
    import numpy as np
    return ["0x%016x" % int(v) for v in np.ascontiguousarray(a, dtype=np.float64).reshape(-1).view(np.uint64)]


def unhx(lst):
    import numpy as np
    return np.array([int(h, 16) for h in lst], dtype=np.uint64).view(np.float64)


def prod(l):
    r = 1
    for d in l:
        r *= d
    return r


# ----------------------------------------------------------------------------- case generation
SHAPES = {
    1: [[1], [2], [5], [9], [17]],
    2: [[1, 1], [2, 2], [3, 4], [4, 1], [1, 5], [5, 3], [6, 6], [2, 9]],
    3: [[2, 3, 2], [1, 4, 3], [3, 1, 3], [4, 4, 2], [2, 2, 5], [3, 3, 3]],
    4: [[2, 2, 2, 2], [1, 3, 1, 2], [3, 2, 2, 3], [2, 1, 4, 2], [2, 3, 3, 2]],
}


def pick_shape(rng, tier):
    rank = rng.choice([1, 2, 2, 3, 3, 4])
    if tier == "thorough" and rng.random() < 0.4:
        cap = 7 if rank < 4 else 4
        return [rng.randint(1, cap) for _ in range(rank)]
    return list(rng.choice(SHAPES[rank]))


def gen_dyadic_case(rng, nrng, tier, cid, C):
    import numpy as np
    x64 = rng.random() < 0.3
    bits = 53 if x64 else 24
    beta2 = rng.choice([1.0, 0.5, 0.75])
    T = rng.randint(2, 8) if tier == "quick" else rng.randint(2, 12)
    per_step = {1.0: 0, 0.5: 1, 0.75: 2}[beta2]
    while True:
        growth = per_step * T + (T.bit_length() if beta2 == 1.0 else 0)
        gb = (bits - growth) // 2
        if gb >= 2:
            break
        T -= 1
    kmax = min(2 ** gb - 1, 4095)
    e = rng.randint(-12, 12)
    leaves = []
    for _ in range(rng.choice([1, 1, 2])):
        shape = pick_shape(rng, tier)
        n = prod(shape)
        grads = []
        for _t in range(T):
            style = rng.random()
            if style < 0.15:
                k = np.zeros(n)
                k[nrng.integers(0, n)] = float(nrng.integers(-kmax, kmax + 1))
            elif style < 0.3:
                k = nrng.integers(-3, 4, size=n).astype(np.float64)
            else:
                k = nrng.integers(-kmax, kmax + 1, size=n).astype(np.float64)
                k[nrng.random(n) < 0.2] = 0.0
            grads.append(hx(k * 2.0 ** e))
        param = nrng.integers(-8, 9, size=n).astype(np.float64) / 4.0
        leaves.append({"shape": shape, "param": hx(param), "grads": grads})
    return {"id": cid, "stream": "dyadic", "x64": x64, "jit": rng.random() < 0.7, "defaults": False, "T": T,
            "beta1": rng.choice([0.0, 0.5, 0.9]), "beta2": beta2, "eps": rng.choice([C["eps"], 1e-8, 2.0 ** -10]),
            "wd": rng.choice([0.0, 0.0, 0.125]), "normalize": False, "lr": rng.choice([0.5, 0.1, 1.0]),
            "sched": rng.random() < 0.3, "leaves": leaves}


def gen_float_case(rng, nrng, tier, cid, C):
    import numpy as np
    x64 = rng.random() < 0.25
    dt = np.float64 if x64 else np.float32
    defaults = rng.random() < 0.12
    T = rng.randint(1, 8) if tier == "quick" else rng.randint(1, 20)
    if defaults:
        beta1, beta2, eps, wd, normalize = C["beta1"], C["beta2"], C["eps"], C["wd"], bool(C["normalize"])
    else:
        beta1 = rng.choice([0.0, 0.0, 0.9, 0.5, 1.0, round(rng.uniform(0.0, 1.0), 3)])
        beta2 = rng.choice([1.0, C["beta2"], 0.9, 0.5, 0.99, round(rng.uniform(0.05, 1.0), 3)])
        eps = rng.choice([C["eps"], 1e-8, 1e-3, 1.0])
        wd = rng.choice([0.0, 0.0, 0.01, 0.1])
        normalize = rng.random() < 0.35
    leaves = []
    for _ in range(rng.choice([1, 1, 2])):
        shape = pick_shape(rng, tier)
        n = prod(shape)
        scale = 10.0 ** rng.uniform(-3, 3)
        style = rng.choice(["normal", "normal", "sparse", "outlier", "const", "axis", "decaying"])
        grads = []
        for t in range(T):
            g = nrng.standard_normal(n) * scale
            if style == "sparse":
                g[nrng.random(n) < 0.6] = 0.0
            elif style == "outlier":
                g[nrng.integers(0, n)] *= 1e3
            elif style == "const":
                g = np.full(n, scale * rng.choice([-1.0, 1.0]))
            elif style == "axis":       # one hyper-plane of the tensor carries the gradient: covers are far from tight
                gg = np.zeros(shape)
                ax = rng.randrange(len(shape))
                sl = [slice(None)] * len(shape)
                sl[ax] = rng.randrange(shape[ax])
                gg[tuple(sl)] = nrng.standard_normal(gg[tuple(sl)].shape) * scale
                g = gg.reshape(-1)
            elif style == "decaying":
                g = g * 0.5 ** t
            if rng.random() < 0.08:
                g = np.zeros(n)
            grads.append(hx(g.astype(dt)))
        param = (nrng.standard_normal(n) * 10.0 ** rng.uniform(-2, 1)).astype(dt)
        leaves.append({"shape": shape, "param": hx(param), "grads": grads, "style": style})
    return {"id": cid, "stream": "float", "x64": x64, "jit": rng.random() < 0.7, "defaults": defaults, "T": T,
            "beta1": beta1, "beta2": beta2, "eps": eps, "wd": wd, "normalize": normalize,
            "lr": rng.choice([0.1, 1.0, 0.003]), "sched": rng.random() < 0.3, "leaves": leaves}


def fixed_cases(C):
    """deterministic small cases run on every invocation (the repository's own test tensor among them)"""
    import numpy as np
    out = []
    g22 = [hx(np.array([1.0, 2.0, 3.0, 4.0])), hx(np.array([1.0, 0.0, 0.0, 1.0])), hx(np.array([0.0, 0.0, 0.0, 0.0])),
           hx(np.array([-2.0, 5.0, 0.5, 0.0]))]
    for beta2 in (1.0, 0.5):
        for jit in (False, True):
            out.append({"id": f"fixed-2x2-b{beta2}-j{int(jit)}", "stream": "dyadic", "x64": False, "jit": jit, "defaults": False,
                        "T": 4, "beta1": 0.0, "beta2": beta2, "eps": C["eps"], "wd": 0.0, "normalize": False, "lr": 0.5,
                        "sched": False, "leaves": [{"shape": [2, 2], "param": hx(np.zeros(4)), "grads": g22},
                                                   {"shape": [4], "param": hx(np.ones(4)), "grads": g22}]})
    out.append({"id": "fixed-defaults", "stream": "float", "x64": False, "jit": True, "defaults": True, "T": 3,
                "beta1": C["beta1"], "beta2": C["beta2"], "eps": C["eps"], "wd": C["wd"], "normalize": bool(C["normalize"]),
                "lr": 0.1, "sched": False,
                "leaves": [{"shape": [2, 3, 2], "param": hx(np.arange(12.0) / 8), "style": "fixed",
                            "grads": [hx(np.float32(np.sin(np.arange(12.0) + t))) for t in range(3)]}]})
    return out


def load_corpus():
    out = []
    for p in sorted(glob.glob(os.path.join(kit.ROOT, "corpus", "C12", "*.json"))):
        for c in json.load(open(p)).get("cases", []):
            c = dict(c)
            c.setdefault("id", "corpus:" + os.path.basename(p))
            out.append(c)
    return out


def gen_cases(tier, seed, C):
    import numpy as np
    rng = random.Random(f"c12-{seed}")
    nrng = np.random.default_rng([seed, 12])
    nd, nf = (50, 120) if tier == "quick" else (300, 900)
    cases = []
    for k in range(nd):
        cases.append(gen_dyadic_case(rng, nrng, tier, f"d{seed}-{k}", C))
    for k in range(nf):
        cases.append(gen_float_case(rng, nrng, tier, f"f{seed}-{k}", C))
    return cases


# ----------------------------------------------------------------------------- implementation runner
def run_impl(chunk):
    """Real optimizer on a chunk of cases -> observation per case (bit patterns / ints only)."""
    import numpy as np
    import jax
    import jax.numpy as jnp
    import optax
    from precondition import sm3 as sm3mod

    out = []
    for c in chunk:
        try:
            jax.config.update("jax_enable_x64", bool(c["x64"]))
            dt = np.float64 if c["x64"] else np.float32
            names = [f"p{k}" for k in range(len(c["leaves"]))]
            shapes = {nm: lf["shape"] for nm, lf in zip(names, c["leaves"])}
            params = {nm: jnp.asarray(unhx(lf["param"]).astype(dt).reshape(lf["shape"])) for nm, lf in zip(names, c["leaves"])}
            base = float(c["lr"])
            lr = (lambda count: base / (1.0 + count)) if c["sched"] else base
            if c["defaults"]:
                opt = sm3mod.sm3(lr)
            else:
                opt = sm3mod.sm3(lr, beta1=c["beta1"], beta2=c["beta2"], diagonal_epsilon=c["eps"], weight_decay=c["wd"],
                                 normalize_grads=c["normalize"])
            state = opt.init(params)
            upd = jax.jit(opt.update) if c["jit"] else opt.update

            def snap(state):
                d = {"count": int(state.count), "leaves": []}
                for nm in names:
                    st = state.stats[nm]
                    accs = st.diagonal_statistics
                    mom = st.diagonal_momentum
                    d["leaves"].append({
                        "acc_shapes": [list(np.asarray(a).shape) for a in accs],
                        "acc_dtypes": [str(np.asarray(a).dtype) for a in accs],
                        "accs": [hx(np.asarray(a)) for a in accs],
                        "q": [int(v) for v in np.asarray(mom.quantized).reshape(-1)],
                        "q_shape": list(np.asarray(mom.quantized).shape),
                        "q_dtype": str(np.asarray(mom.quantized).dtype),
                        "bucket": hx(np.asarray(mom.bucket_size)),
                    })
                return d

            obs = {"init": snap(state), "steps": []}
            for t in range(c["T"]):
                grads = {nm: jnp.asarray(unhx(lf["grads"][t]).astype(dt).reshape(lf["shape"])) for nm, lf in zip(names, c["leaves"])}
                used = {nm: hx(np.asarray(params[nm])) for nm in names}
                updates, state = upd(grads, state, params)
                s = snap(state)
                for k, nm in enumerate(names):
                    u = np.asarray(updates[nm])
                    s["leaves"][k]["update"] = hx(u)
                    s["leaves"][k]["update_shape"] = list(u.shape)
                    s["leaves"][k]["param_used"] = used[nm]
                obs["steps"].append(s)
                params = optax.apply_updates(params, updates)
            del shapes
        except Exception as e:  # noqa: BLE001
            obs = {"exception": type(e).__name__ + ": " + str(e)[:300]}
        out.append(obs)
    try:
        jax.clear_caches()
    except Exception:  # noqa: BLE001
        pass
    return out


# ----------------------------------------------------------------------------- tolerances
def unit(c):
    return U64 if c["x64"] else U32


def tol_hist(c, t, n):
    """relative error bound of an accumulator after t steps of `fl(fl(b*a) + fl(w*fl(g*g)))` (+ normalisation of g)"""
    tol = (4 * t + 8) * unit(c)
    if c["normalize"]:
        tol += 3 * (n + 4) * unit(c)
    return tol


def tol_step(c, n):
    tol = 40 * unit(c)
    if c["normalize"]:
        tol += 3 * (n + 4) * unit(c)
    return tol


def lr_at(c, t):
    return float(c["lr"]) / (1.0 + t) if c["sched"] else float(c["lr"])


def w_of(beta):
    return (1.0 - beta) if beta != 1.0 else 1.0


# ----------------------------------------------------------------------------- direct oracle (no model)
def oracle(c, obs, C):
    """The property on the implementation's outputs.  Returns (fails, info)."""
    import numpy as np
    from functools import reduce
    fails = []
    info = {"strict_cover": False, "tight_cover": False, "rank1": False, "max_rel_deficit": 0.0}
    LD = np.longdouble
    beta2, w2 = LD(c["beta2"]), LD(w_of(c["beta2"]))
    exact = c["stream"] == "dyadic"

    def chk_state(tag, s, t_expected):
        for k, (lf, so) in enumerate(zip(c["leaves"], s["leaves"])):
            if so["acc_shapes"] != [[d] for d in lf["shape"]]:
                fails.append(f"{tag} leaf {k} shape {lf['shape']}: accumulator shapes {so['acc_shapes']}")
            if so["q_shape"] != lf["shape"]:
                fails.append(f"{tag} leaf {k}: momentum payload shape {so['q_shape']} for parameter shape {lf['shape']}")

    chk_state("init", obs["init"], 0)
    if fails:
        return fails, info
    for k, lf in enumerate(c["leaves"]):
        shape = lf["shape"]
        r, n = len(shape), prod(shape)
        S = np.zeros(shape, dtype=LD)
        prev = [np.zeros(d) for d in shape]
        for t in range(1, c["T"] + 1):
            st = obs["steps"][t - 1]
            if k == 0:
                chk_state(f"step {t}", st, t)
            so = st["leaves"][k]
            if so["acc_shapes"] != [[d] for d in shape] or so.get("update_shape") != shape:
                fails.append(f"step {t} leaf {k}: shapes changed (accumulators {so['acc_shapes']}, update {so.get('update_shape')})")
                break
            g = unhx(lf["grads"][t - 1]).reshape(shape)
            if c["normalize"]:
                g = g / (np.sqrt(np.sum(g * g)) + C["norm_eps"])
            gl = g.astype(LD)
            S = beta2 * S + w2 * gl * gl
            accs = [unhx(a) for a in so["accs"]]
            upd = unhx(so["update"]).reshape(shape)
            if not all(np.all(np.isfinite(a)) for a in accs) or not np.all(np.isfinite(upd)):
                fails.append(f"step {t} leaf {k} shape {shape}: non-finite accumulator or update")
                break
            cov = reduce(np.minimum, [a.reshape([1] * i + [shape[i]] + [1] * (r - i - 1)) for i, a in enumerate(accs)])
            cov = np.broadcast_to(cov, shape)
            tol = 0.0 if exact else tol_hist(c, t, n)
            bad = ~(cov.astype(LD) >= S * (1 - LD(tol)))
            if bad.any():
                idx = tuple(int(v) for v in np.argwhere(bad)[0])
                fails.append(f"cover: step {t} leaf {k} shape {shape} coordinate {idx}: min over accumulators {float(cov[idx])!r} < "
                             f"exact decayed sum of squared gradients {float(S[idx])!r} (beta2={c['beta2']}, tol={tol:.3g})")
            Sd = S.astype(np.float64)
            with np.errstate(divide="ignore", invalid="ignore"):
                deficit = np.where(Sd > 0, (Sd - cov) / Sd, 0.0)
            info["max_rel_deficit"] = max(info["max_rel_deficit"], float(deficit.max()))
            if r >= 2 and bool(np.any(cov > Sd * (1 + 1e-3))):
                info["strict_cover"] = True
            if bool(np.any((Sd > 0) & (np.abs(cov - Sd) <= Sd * 1e-3))):
                info["tight_cover"] = True
            if c["beta2"] == 1.0:
                for i, (a, p) in enumerate(zip(accs, prev)):
                    dec = a < p
                    if dec.any():
                        j = int(np.argwhere(dec)[0][0])
                        fails.append(f"monotone: step {t} leaf {k} shape {shape}: accumulator of axis {i} entry {j} decreased "
                                     f"{float(p[j])!r} -> {float(a[j])!r} with beta2 = 1")
            prev = accs
            tl = tol_step(c, n) + (0.0 if exact else tol_hist(c, t, n))
            if c["beta1"] == 0.0 and c["wd"] == 0.0:
                ada = lr_at(c, t - 1) * np.abs(g) / np.sqrt(Sd + c["eps"])
                big = np.abs(upd) > ada * (1 + tl)
                if big.any():
                    idx = tuple(int(v) for v in np.argwhere(big)[0])
                    fails.append(f"step: step {t} leaf {k} shape {shape} coordinate {idx}: |update| = {abs(float(upd[idx]))!r} exceeds the "
                                 f"diagonal AdaGrad/RMSProp step {float(ada[idx])!r} for the same history")
                if r == 1:
                    dif = np.abs(upd + np.sign(g) * ada) > ada * tl
                    if dif.any():
                        j = int(np.argwhere(dif)[0][0])
                        fails.append(f"rank 1: step {t} leaf {k} shape {shape} entry {j}: update {float(upd[j])!r} differs from the "
                                     f"AdaGrad/RMSProp step {float(-np.sign(g[j]) * ada[j])!r}")
            if r == 1:
                info["rank1"] = True
                dif = np.abs(accs[0].astype(LD) - S) > S * LD(tol)
                if dif.any():
                    j = int(np.argwhere(dif)[0][0])
                    fails.append(f"rank 1: step {t} leaf {k} shape {shape} entry {j}: accumulator {float(accs[0][j])!r} differs from the "
                                 f"exact decayed sum {float(S[j])!r}")
    return fails, info


# ----------------------------------------------------------------------------- model requests and comparison
def requests_for(c, obs, C):
    """[(kind, leaf, step, request)] for one case"""
    reqs = []
    for k, lf in enumerate(c["leaves"]):
        reqs.append(("hist", k, None, {
            "op": "history", "scalar": "float" if c["normalize"] else "rat", "normalize": bool(c["normalize"]),
            "norm_eps": kit.f64_hex(C["norm_eps"]), "shape": lf["shape"], "beta2": kit.f64_hex(c["beta2"]),
            "gs": lf["grads"][:c["T"]]}))
        for t in range(c["T"]):
            prev = obs["init"] if t == 0 else obs["steps"][t - 1]
            po = prev["leaves"][k]
            reqs.append(("step", k, t, {
                "op": "step", "shape": lf["shape"], "lr": kit.f64_hex(lr_at(c, t)), "beta1": kit.f64_hex(c["beta1"]),
                "beta2": kit.f64_hex(c["beta2"]), "eps": kit.f64_hex(c["eps"]), "wd": kit.f64_hex(c["wd"]),
                "norm_eps": kit.f64_hex(C["norm_eps"]), "normalize": bool(c["normalize"]), "buckets": int(C["buckets"]),
                "accs": po["accs"], "mq": po["q"], "mb": po["bucket"],
                "param": obs["steps"][t]["leaves"][k]["param_used"], "grad": lf["grads"][t]}))
    return reqs


def well_formed(c, obs):
    """every recorded array has the size the parameter shape dictates (otherwise the oracle reports the shapes and the
    numerical comparison is skipped)"""
    for st in [obs["init"]] + obs["steps"]:
        if len(st["leaves"]) != len(c["leaves"]):
            return False
        for lf, so in zip(c["leaves"], st["leaves"]):
            shape = lf["shape"]
            n = prod(shape)
            if [len(a) for a in so["accs"]] != shape or len(so["q"]) != n or len(so["bucket"]) != prod(shape[1:]):
                return False
            if "update" in so and (len(so["update"]) != n or len(so["param_used"]) != n):
                return False
    return len(obs["steps"]) == c["T"]


def short(c):
    d = {k: v for k, v in c.items() if k != "leaves"}
    d["shapes"] = [lf["shape"] for lf in c["leaves"]]
    return d


def compare(ctx, c, obs, items, C):
    import numpy as np
    for kind, k, t, rep in items:
        if "error" in rep:
            raise kit.InfraError(f"driver error on case {c['id']}: {rep['error']}")
        lf = c["leaves"][k]
        shape = lf["shape"]
        n = prod(shape)
        if kind == "hist":
            exact = c["stream"] == "dyadic"
            counts = [obs["init"]["count"]] + [st["count"] for st in obs["steps"]]
            okc = counts == list(range(len(counts)))
            ctx.corr("state.count", okc)
            if not okc and k == 0:
                ctx.disagree("state.count", c, counts, list(range(len(counts))), f"case {c['id']}: SM3State.count along the history")
            # init_fn: zero accumulators (compared below as state 0) and a zero quantized momentum
            i0 = obs["init"]["leaves"][k]
            ok = all(q == 0 for q in i0["q"]) and all(float(v) == 0.0 for v in unhx(i0["bucket"])) and len(i0["q"]) == n
            ctx.corr("init.momentum", ok)
            if not ok:
                ctx.disagree("init.momentum", c, [i0["q"][:16], i0["bucket"][:8]], "all-zero payload and bucket sizes", f"case {c['id']} leaf {k}")
            op = "history.accs." + ("exact_dyadic" if exact else ("tol_float_model" if c["normalize"] else "tol_rat_model"))
            states = [obs["init"]] + obs["steps"]
            for tt, (st, macc) in enumerate(zip(states, rep["accs"])):
                iacc = st["leaves"][k]["accs"]
                ok = len(iacc) == len(macc) and all(len(a) == len(b) for a, b in zip(iacc, macc))
                where = None
                if ok:
                    for i, (a, b) in enumerate(zip(iacc, macc)):
                        av = unhx(a)
                        for j in range(len(b)):
                            iv = Fraction(float(av[j]))
                            mv = Fraction(kit.hex_f64(b[j])) if c["normalize"] else Fraction(b[j])
                            good = (iv == mv) if exact else (abs(iv - mv) <= abs(mv) * Fraction(tol_hist(c, tt, n)))
                            if not good:
                                ok = False
                                where = (i, j, float(iv), float(mv))
                                break
                        if not ok:
                            break
                ctx.corr(op, ok)
                if not ok:
                    ctx.disagree(op, c, str(where), None, f"case {c['id']} leaf {k} shape {shape} after {tt} steps: (axis, entry, impl, model) = {where}")
                    break
            continue
        # one full step from the implementation's own previous state
        so = obs["steps"][t]["leaves"][k]
        tl = tol_step(c, n)
        # accumulators
        ok, where = True, None
        for i, (a, b) in enumerate(zip(so["accs"], rep["accs"])):
            av, bv = unhx(a), unhx(b)
            if av.shape != bv.shape:
                ok, where = False, (i, "shape")
                break
            d = np.abs(av - bv) > np.abs(bv) * tl
            if d.any():
                j = int(np.argwhere(d)[0][0])
                ok, where = False, (i, j, float(av[j]), float(bv[j]))
                break
        ctx.corr("step.accs", ok)
        if not ok:
            ctx.disagree("step.accs", c, str(where), None, f"case {c['id']} leaf {k} shape {shape} step {t + 1}: (axis, entry, impl, model) = {where}")
        # update
        lr = lr_at(c, t)
        mold, pg, mom = unhx(rep["mold"]), unhx(rep["pg"]), unhx(rep["mom"])
        p = unhx(so["param_used"])
        b1, w1 = c["beta1"], w_of(c["beta1"])
        scale_m = np.abs(b1 * mold) + np.abs(w1 * pg)
        scale_u = abs(lr) * (scale_m + (abs(c["wd"]) * np.abs(p) if c["wd"] > 0 else 0.0))
        iu, mu = unhx(so["update"]), unhx(rep["update"])
        d = np.abs(iu - mu) > scale_u * tl
        ok = not d.any()
        ctx.corr("step.update", ok)
        if not ok:
            j = int(np.argwhere(d)[0][0])
            ctx.disagree("step.update", c, float(iu[j]), float(mu[j]), f"case {c['id']} leaf {k} shape {shape} step {t + 1} flat entry {j} (scale {float(scale_u[j])!r})")
        # momentum payload and bucket sizes
        cols = prod(shape[1:])
        N = C["buckets"]
        ib, mb = unhx(so["bucket"]), unhx(rep["bucket"])
        iq, mq = np.array(so["q"], dtype=np.int64), np.array(rep["q"], dtype=np.int64)
        if ib.shape != mb.shape or iq.shape != mq.shape:
            ctx.disagree("step.momentum.shape", c, [list(ib.shape), list(iq.shape)], [list(mb.shape), list(mq.shape)], f"case {c['id']} leaf {k}")
            continue
        sm = scale_m.reshape(-1, cols)
        colscale = sm.max(axis=0)
        colmax = np.abs(mom.reshape(-1, cols)).max(axis=0)
        d = np.abs(ib - mb) > colscale * tl / N * 2
        ok = not d.any()
        ctx.corr("step.momentum.bucket", ok)
        if not ok:
            j = int(np.argwhere(d)[0][0])
            ctx.disagree("step.momentum.bucket", c, float(ib[j]), float(mb[j]), f"case {c['id']} leaf {k} shape {shape} step {t + 1} column {j}")
        with np.errstate(divide="ignore", invalid="ignore"):
            kappa = np.where(colmax > 0, colscale / np.where(colmax > 0, colmax, 1.0), 1.0)
            bnz = np.where(mb > 0, mb, 1.0)
            ratio = mom.reshape(-1, cols) / bnz[None, :]
        delta = 2.0 * N * tl * (kappa + 1.0)
        dq = (iq - mq).reshape(-1, cols)
        same = int((dq == 0).sum())
        if same:
            ctx.corr("step.momentum.q", True, same)
        # float32 flush regimes of the quantizer (known findings K1/K2 of C11, the platform's flush-to-zero / denormals-are-zero):
        # a momentum column whose bucket max|m|/N is below the normal range, or an entry that is itself subnormal, is stored as 0
        # by XLA-CPU while the binary64 model keeps it -- not a statement about SM3's accumulators, classified and skipped
        tiny = 2.0 ** -1022 if c["x64"] else 2.0 ** -126
        mm = np.abs(mom.reshape(-1, cols))
        flush_col = (colmax > 0) & (colmax <= N * tiny * (1 + 2.0 ** -20))
        daz = (mm > 0) & (mm < tiny)
        # a column whose largest momentum entry is itself below the rounding noise of the terms it is summed from (exact
        # cancellation beta1*m_old + w1*pg = 0 in float32, a residue of a few ulps in the binary64 model) has no determinate
        # payload: per-column scaling maps that residue to +-N.  Classified, not compared.
        noise_col = colmax <= colscale * tl * 4
        for (i, j) in np.argwhere(dq != 0):
            if flush_col[j] or daz[i, j]:
                ctx.corr("step.momentum.q.flush_regime(C11 K1/K2)", True)
                continue
            if noise_col[j]:
                ctx.corr("step.momentum.q.cancellation_noise_column", True)
                continue
            fr = ratio[i, j] - np.floor(ratio[i, j])
            if abs(int(dq[i, j])) == 1 and abs(fr - 0.5) <= delta[j]:
                ctx.corr("step.momentum.q.boundary", True)
            else:
                ctx.disagree("step.momentum.q", c, int(iq.reshape(-1, cols)[i, j]), int(mq.reshape(-1, cols)[i, j]),
                             f"case {c['id']} leaf {k} shape {shape} step {t + 1} row {int(i)} column {int(j)} model ratio {float(ratio[i, j])!r}")


def execute(ctx, cases, C):
    order = sorted(range(len(cases)), key=lambda k: (cases[k]["x64"], k % 14))
    srt = [cases[k] for k in order]
    chunks = kit.chunked(srt, max(1, len(srt) // 42 + 1))
    results = kit.parallel_map(run_impl, chunks, nproc=14)
    flat_sorted = [r for ch in results for r in ch]
    obs_all = [None] * len(cases)
    for pos, k in enumerate(order):
        obs_all[k] = flat_sorted[pos]
    reqs, owner = [], []
    for ci, (c, obs) in enumerate(zip(cases, obs_all)):
        if "exception" in obs or not well_formed(c, obs):
            continue
        for kind, k, t, r in requests_for(c, obs, C):
            reqs.append(r)
            owner.append((ci, kind, k, t))
    replies = ctx.driver(reqs) if reqs else []
    per_case = {}
    for (ci, kind, k, t), rep in zip(owner, replies):
        per_case.setdefault(ci, []).append((kind, k, t, rep))
    for ci, (c, obs) in enumerate(zip(cases, obs_all)):
        ctx.evaluated()
        ctx.cov["search_evaluations"] += 1
        ranks = sorted({len(lf["shape"]) for lf in c["leaves"]})
        for r in ranks:
            ctx.dist(f"rank:{r}")
        ctx.dist(f"stream:{c['stream']}")
        ctx.dist(f"mode:{'x64' if c['x64'] else 'f32'}:{'jit' if c['jit'] else 'eager'}")
        ctx.dist("beta2:" + ("1" if c["beta2"] == 1.0 else "<1"))
        ctx.dist("beta1:" + ("0" if c["beta1"] == 0.0 else ("1" if c["beta1"] == 1.0 else "(0,1)")))
        ctx.dist(f"normalize:{int(bool(c['normalize']))}")
        ctx.dist(f"weight_decay:{int(c['wd'] > 0)}")
        ctx.dist(f"schedule:{int(bool(c['sched']))}")
        if c.get("defaults"):
            ctx.dist("default_hyperparameters")
        if "exception" in obs:
            ctx.violation(f"sm3 raised on shapes {[lf['shape'] for lf in c['leaves']]} ({short(c)}): {obs['exception']}", c)
            continue
        fails, info = oracle(c, obs, C)
        for msg in fails[:4]:
            ctx.violation(f"{msg} [config {short(c)}]", c)
        ctx.cov["max_relative_cover_deficit"] = max(ctx.cov.get("max_relative_cover_deficit", 0.0), info["max_rel_deficit"])
        for key in ("strict_cover", "tight_cover", "rank1"):
            if info[key]:
                ctx.dist("cases_with_" + key)
        if info["strict_cover"] or info["rank1"]:
            ctx.nontrivial(hashlib.sha1(json.dumps(c, sort_keys=True).encode()).hexdigest()[:20])
        if well_formed(c, obs):
            compare(ctx, c, obs, per_case.get(ci, []), C)
        else:
            ctx.disagree("state.shapes", c, [[so["acc_shapes"], so["q_shape"], so.get("update_shape")] for so in (obs["steps"] or [obs["init"]])[-1]["leaves"]],
                         [lf["shape"] for lf in c["leaves"]], f"case {c['id']}: state / update arrays do not have the sizes the parameter shapes dictate")
            if not fails:
                ctx.violation(f"state or update arrays have the wrong size for parameter shapes {[lf['shape'] for lf in c['leaves']]} [config {short(c)}]", c)
    return obs_all


RULE = ("a case is one gradient history (T updates through the public init/update) on a tree of 1-2 tensors with one "
        "hyper-parameter setting and execution mode; non-trivial when a tensor of rank >= 2 has a coordinate whose cover exceeds "
        "the exact sum by more than 0.1% (SM3 genuinely differs from diagonal AdaGrad) or a rank-1 tensor is present (equality "
        "clause); distinct by sha1 of the whole case")


def run(ctx):
    kit.gen_stage(ctx)
    ctx.lean_stage(extra_props=("Gen",))
    ctx.notes.append("model tie #2: sm3._get_expanded_shape regenerated from the source by harness/py2lean.py on this run; direct theorems PrecondVerif.GenProps.C12.* (broadcast shape of accumulator i)")
    C = const_stage(ctx)
    ctx.cov["rule"] = RULE
    ctx.assumptions += [
        "rounding of +, * is monotone (IEEE-754): sm3_cover_monotone / sm3_acc_nondecreasing then apply verbatim to the float run "
        "(recorded assumption; the oracle checks the float run directly)",
        "dyadic stream: gradients k*2^e with bit budget 2*bits(k) + T*log2(den(beta2)) <= 24 (53 under x64): accumulators == Rat model exactly",
        "float stream: accumulators within (4t+8)u (+3(n+4)u with normalize_grads) of the Rat / binary64 model after t steps; "
        "one-step update within 40u x (|beta1 m| + |w1 pg| + |wd p|) |lr| of the binary64 model started from the implementation's state",
        "int8 momentum payload: +-1 differences accepted only where the model's ratio is within 2N*tol*(kappa+1) of a half-integer",
        "oracle reference S_t in 80-bit extended precision; cover tolerance (4t+8)u (+3(n+4)u with normalisation), 0 for the dyadic stream",
    ]
    cases = load_corpus() + fixed_cases(C) + gen_cases(ctx.tier, ctx.seed, C)
    obs_all = execute(ctx, cases, C)
    for c, obs in list(zip(cases, obs_all))[:: max(1, len(cases) // 5)]:
        if "exception" not in obs and sum(prod(lf["shape"]) for lf in c["leaves"]) * c["T"] <= 64:
            ctx.sample({"case": c, "final_state": obs["steps"][-1] if obs["steps"] else obs["init"]})
    if not ctx.cov["samples"]:
        ctx.sample({"case": short(cases[0])})


def replay(ctx, data):
    C = const_stage(ctx)
    ctx.cov["rule"] = "replay of recorded cases"
    cases, seen = [], set()
    cand = [v.get("case") for v in data.get("violations", [])]
    cand += [s["detail"].get("case") for s in data.get("stage_failures", []) if isinstance(s.get("detail"), dict)]
    for c in cand:
        if isinstance(c, dict) and "leaves" in c and c.get("id") not in seen:
            seen.add(c.get("id"))
            cases.append(c)
    if cases:
        execute(ctx, cases, C)
