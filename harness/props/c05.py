"""C05 — grafting: warm-up uses the graft step, afterwards only its norm is transplanted.

Implementation runner: the PUBLIC optimizers with momentum and weight decay off —
`distributed_shampoo.distributed_shampoo(...)` (beta1 = 0, weight_decay = 0; jit, or pmap for the int16-quantized
mode) for every GraftingType x preconditioner mode (full Newton, eigh, compression_rank +r / -r,
frequent_directions + reuse_preconditioner, best_effort_memory_usage_reduction with int16 second moments,
shard_optimizer_states under a one-device Mesh) x parameter
trees (matrices, rank 3, rank 1, scalars, blocked, leaves excluded by rank / dimension) x start steps, and
`tearfree.optimizer.tearfree(...)` / `tearfree.grafting.graft(options, direction)` for SGD / RMSPROP / ADAFACTOR
grafts on Shampoo, Sketchy and hand-made direction transformations (including the zero direction).

Direct oracle (S; no reference to the Lean model): per parameter and step
  * t >= start, preconditioned parameter: ‖upd‖ = lr·‖graft‖·‖p‖/(‖p‖+ε) (ε = `_EPSILON` from the source; Tearfree:
    ‖upd‖ = lr·‖graft‖) within 1e-5, cos(upd, -p) >= 1 - 1e-6, and upd == 0 exactly when p == 0, where
    `graft` is the grafting optimizer's step computed by an independent numpy closed form from the gradient history
    (float64) and `p` is the preconditioned gradient observed through the public API (the same configuration run with
    GraftingType.NONE resp. the second-order transformation alone);
  * t < start, and always for parameters excluded from preconditioning: upd = -lr·graft elementwise (times the
    stated ‖g‖/(‖g‖+ε) after the start step in Distributed Shampoo).
Correspondence (K): `Model/Graft.lean` (`dsTransform`, `tfTransform`, `dsSkip`, `tfMaskSkipped`) folded over the same
gradient history by the driver: at binary64 — policy TOL(2e-5 elementwise + 2e-6 of the max entry) for updates and graft
accumulators; at exact rationals on integer-valued inputs — policy EXACT-DYADIC (bit equality with the rational result
rounded once to float32) on every coordinate the driver flags as rounding-free; skip predicates EXACT.
"""
import math
import os
import random
from fractions import Fraction

from harness import kit, consts

HUGE = 1_000_000
DS_GRAFTS = ["SGD", "ADAGRAD", "RMSPROP", "RMSPROP_NORMALIZED", "SQRT_N", "ADAGRAD_NORMALIZED", "NONE"]
DS_MODES = ["full", "eigh", "comp+", "comp-", "fd", "q16", "sharded"]
TF_GRAFTS = ["SGD", "RMSPROP", "ADAFACTOR"]
TF_CUSTOM = ["neg2x", "zero", "perm2", "zero_odd"]

DS_TREES = [
    {"w": [6, 5], "b": [5]},
    {"w": [4, 7], "v": [7, 3], "b": [3]},
    {"t": [3, 2, 4], "b": [4]},
    {"w": [8, 6], "s": []},
    {"w": [9, 4], "u": [5, 5]},
    {"w": [10, 3], "b": [6]},
    {"w": [5, 6], "t": [2, 5, 3]},
]
TF_TREES = [
    {"w": [4, 6], "b": [5]},
    {"w": [3, 5], "v": [6, 2], "b": [3]},
    {"w": [4, 4], "t": [2, 3, 2]},
    {"w": [7, 3], "u": [3, 3]},
]


# ============================================================================ generation
def _stat_dims(c):
    """dimensions of the statistics the configuration will create (best_effort_shape_interpretation=False)."""
    dims = []
    for shp in c["shapes"].values():
        if _py_ds_skip(c, shp):
            continue
        for d in shp:
            b = c["block"]
            dims.append(d if d <= b else b)
    return dims


def _py_ds_skip(c, shp):
    """the exclusion rule of the property's statement, coded independently (Distributed Shampoo)"""
    return len(shp) < c["skip_rank_lt"] or any(s > c["skip_dim_gt"] for s in shp)


def _py_tf_mask(c, shp):
    return (c["rank1"] and len(shp) <= 1) or any(s > c["dim_gt"] for s in shp)


def _ds_task(rng, mode, graft, gid, seed, ints=False):
    for _ in range(50):
        c = {
            "kind": "ds", "mode": mode, "graft": graft, "rank": rng.choice([1, 2]),
            "shapes": rng.choice(DS_TREES), "skip_rank_lt": rng.choice([1, 1, 2]),
            "skip_dim_gt": rng.choice([4096, 4096, 8]), "block": rng.choice([8, 8, 16, 4]),
            "start": rng.choice([0, 1, 2, 3, 4, HUGE]), "T": 6,
            "lr": rng.choice([0.5, 0.25, 1.0, 0.1, 0.03]), "dlr": rng.random() < 0.5,
            "beta2": rng.choice([1.0, 0.75, 0.9, 0.999]), "diag_eps": rng.choice([1e-10, 1e-10, 1e-6]),
            "clip": (rng.choice([None, 0.5, 2.0]) if graft.startswith("RMSPROP") else None),
            "nesterov": rng.random() < 0.3, "pi": rng.choice([1, 1, 2]), "x64": False,
            "grad": {"kind": "randn", "scale": rng.choice([1.0, 1.0, 1e-3, 30.0, 1e-9]), "seed": seed * 100003 + gid},
        }
        if ints:
            c["grad"] = {"kind": "int", "seed": seed * 100003 + gid, "pow": rng.choice([0, 0, -2, 3])}
            c["lr"] = rng.choice([0.5, 0.25, 1.0, 2.0])
            c["beta2"] = rng.choice([1.0, 0.75])
            c["clip"] = None
            c["start"] = rng.choice([0, 1, 2, 3, HUGE])
            c["skip_rank_lt"] = 2
        dims = _stat_dims(c)
        if not dims:
            if mode != "full":
                continue
        if mode in ("comp+", "comp-", "fd") and not (dims and max(dims) > c["rank"] + 2):
            continue
        names = sorted(c["shapes"])
        c["zero"] = [[rng.randrange(c["T"]), rng.choice(names)]] if rng.random() < 0.5 else []
        return c
    raise kit.InfraError("could not generate a Distributed Shampoo configuration")


def _tf_task(rng, so, graft, gid, seed, ints=False):
    c = {
        "kind": "tf", "so": so, "graft": graft, "shapes": rng.choice(TF_TREES),
        "rank1": rng.random() < 0.7, "dim_gt": rng.choice([4096, 4096, 5]),
        "start": rng.choice([0, 1, 2, 3, 4, HUGE]), "T": 6, "lr": rng.choice([0.5, 0.25, 1.0, 2.0]),
        "decay": rng.choice([1.0, 0.75, 0.9, 0.999]), "eps": rng.choice([1e-23, 1e-23, 1e-8]),
        "merge": rng.choice([2, 2, 1024]), "block": rng.choice([2, 1024]), "pf": rng.choice([1, 1, 2]),
        "sk_rank": rng.choice([1, 2]), "x64": False,
        "grad": {"kind": "randn", "scale": rng.choice([1.0, 1.0, 1e-3, 30.0, 1e-12]), "seed": seed * 100003 + gid},
    }
    if graft == "ADAFACTOR":
        c["decay"] = rng.choice([0.75, 0.9])
        c["eps"] = 1e-23
        c["lr"] = rng.choice([0.5, 1.0, 0.25])
    if so == "sketchy":
        c["rank1"] = True      # Sketchy is defined on matrices; rank-1 leaves stay with the graft
        c["merge"] = 2
    if so == "shampoo" and any(len(s) > 2 for s in c["shapes"].values()):
        c["block"] = 1024      # Tearfree Shampoo rejects more than two dimensions >= block_size
    if ints:
        c["grad"] = {"kind": "int", "seed": seed * 100003 + gid, "pow": rng.choice([0, 0, -2, 3]), "nonzero": True}
        c["decay"] = rng.choice([1.0, 0.75])
        c["eps"] = 0.0
    names = sorted(c["shapes"])
    c["zero"] = [[rng.randrange(c["T"]), rng.choice(names)]] if (rng.random() < 0.5 and c["eps"] > 0) else []
    return c


def corpus_tasks():
    import json
    d = os.path.join(kit.ROOT, "corpus", "C05")
    out = []
    if os.path.isdir(d):
        for f in sorted(os.listdir(d)):
            if f.endswith(".json"):
                out += json.load(open(os.path.join(d, f))).get("tasks", [])
    return out


def gen_tasks(tier, seed):
    rng = random.Random(seed * 7919 + 5)
    tasks = corpus_tasks()
    gid = 0
    reps = 1 if tier == "quick" else 6
    for _ in range(reps):
        for mode in DS_MODES:
            for graft in DS_GRAFTS:
                gid += 1
                tasks.append(_ds_task(rng, mode, graft, gid, seed))
    for _ in range(14 if tier == "quick" else 80):
        gid += 1
        tasks.append(_ds_task(rng, rng.choice(DS_MODES), rng.choice(DS_GRAFTS[:-1]), gid, seed))
    # integer-valued histories (EXACT-DYADIC family)
    for k in range(14 if tier == "quick" else 70):
        gid += 1
        tasks.append(_ds_task(rng, "full", DS_GRAFTS[k % len(DS_GRAFTS)], gid, seed, ints=True))
    # float64 parameters excluded from preconditioning, gradients of the size of epsilon (the exact epsilon term)
    for k in range(4 if tier == "quick" else 16):
        gid += 1
        tasks.append({
            "kind": "ds", "mode": "full", "graft": DS_GRAFTS[:-1][k % 6], "rank": 1,
            "shapes": {"b": [5], "s": [], "c": [3]}, "skip_rank_lt": 2, "skip_dim_gt": 4096, "block": 8,
            "start": rng.choice([0, 1, 2]), "T": 5, "lr": rng.choice([0.5, 0.1]), "dlr": rng.random() < 0.5,
            "beta2": rng.choice([1.0, 0.9]), "diag_eps": rng.choice([1e-10, 1e-30]), "clip": None, "nesterov": False,
            "pi": 1, "x64": True, "zero": [],
            "grad": {"kind": "randn", "scale": rng.choice([1e-25, 3e-26, 1e-24]), "seed": seed * 100003 + gid}})
    # Tearfree
    for _ in range(reps):
        for so in ["shampoo", "sketchy"]:
            for graft in TF_GRAFTS:
                for _k in range(2):
                    gid += 1
                    tasks.append(_tf_task(rng, so, graft, gid, seed))
        for cu in TF_CUSTOM:
            for graft in TF_GRAFTS:
                gid += 1
                tasks.append(_tf_task(rng, "custom:" + cu, graft, gid, seed))
    for k in range(10 if tier == "quick" else 50):
        gid += 1
        tasks.append(_tf_task(rng, "custom:" + TF_CUSTOM[k % 4], ["SGD", "RMSPROP"][k % 2], gid, seed, ints=True))
    # exclusion predicates
    grid = []
    for _ in range(60 if tier == "quick" else 400):
        r = rng.choice([0, 1, 1, 2, 2, 3, 4])
        # (a rank-0 parameter has no statistics whether excluded or not: keep its rank threshold >= 1)
        grid.append({"shape": [rng.choice([1, 2, 3, 4, 5, 6, 9]) for _ in range(r)],
                     "rank_lt": rng.choice([0, 1, 2, 3] if r > 0 else [1, 2, 3]), "dim_gt": rng.choice([1, 2, 3, 4, 5, 8, 4096]),
                     "rank1": rng.random() < 0.5})
    tasks.append({"kind": "skipgrid", "cases": grid})
    return tasks


# ============================================================================ gradients
def _pyth_vec(rng, n, nonzero=False):
    """integer vector whose sum of squares is a perfect square (its float32 norm is exact)"""
    lo = 1 if nonzero else 0
    while True:
        v = [rng.choice([-1, 1]) * rng.randint(lo, 6) for _ in range(n - 1)]
        s = sum(x * x for x in v)
        cands = [a for a in range(lo, 60) if s + a * a > 0 and math.isqrt(s + a * a) ** 2 == s + a * a]
        if cands:
            v.append(rng.choice([-1, 1]) * rng.choice(cands))
            rng.shuffle(v)
            return v


def _make_grads(c):
    import numpy as np
    names = sorted(c["shapes"])
    g = c["grad"]
    dt = np.float64 if c.get("x64") else np.float32
    out = []
    if g["kind"] == "randn":
        rs = np.random.RandomState(g["seed"] % (2 ** 31))
        for _t in range(c["T"]):
            out.append({n: np.asarray(rs.randn(*c["shapes"][n]) * g["scale"], dt) for n in names})
    else:
        rr = random.Random(g["seed"])
        for _t in range(c["T"]):
            d = {}
            for n in names:
                size = int(np.prod(c["shapes"][n])) if c["shapes"][n] else 1
                v = _pyth_vec(rr, size, g.get("nonzero", False)) if size > 1 else [rr.choice([-4, -2, -1, 1, 2, 3])]
                d[n] = (np.asarray(v, np.float64) * 2.0 ** g["pow"]).reshape(c["shapes"][n]).astype(dt)
            out.append(d)
    for t, n in c.get("zero", []):
        out[t][n] = np.zeros(c["shapes"][n], dt)
    return out


# ============================================================================ numpy closed forms (oracle side)
def _np_ds_graft(graft, g, acc, beta2, deps, eps, clip):
    import numpy as np
    if graft in ("SGD", "NONE"):
        return g, acc
    if graft == "SQRT_N":
        return np.sign(g), acc
    sg = g / (np.linalg.norm(g) + eps) if graft.endswith("NORMALIZED") else g
    if graft.startswith("ADAGRAD"):
        acc = acc + sg * sg
    else:
        acc = beta2 * acc + (1.0 if beta2 == 1.0 else 1.0 - beta2) * sg * sg
    u = sg / (np.sqrt(acc) + deps)
    if clip is not None and graft.startswith("RMSPROP"):
        u = u / max(1.0, float(np.linalg.norm(u)) / math.sqrt(u.size) / clip)
    return u, acc


def _np_tf_graft(graft, g, acc, decay, eps):
    import numpy as np
    if graft == "SGD":
        return g, acc
    acc = g * g + acc if decay == 1.0 else g * g * (1.0 - decay) + decay * acc
    with np.errstate(all="ignore"):
        return g / np.sqrt(acc + eps), acc


def _close(u, ref, rel=1e-5, relmax=1e-7):
    """elementwise: |u - ref| <= rel*|ref| + relmax*max|ref| (+ one float32 denormal)"""
    import numpy as np
    u = np.asarray(u, np.float64).reshape(-1)
    ref = np.asarray(ref, np.float64).reshape(-1)
    if not (np.isfinite(u).all() and np.isfinite(ref).all()):
        return False
    m = float(np.max(np.abs(ref))) if ref.size else 0.0
    return bool(np.all(np.abs(u - ref) <= rel * np.abs(ref) + relmax * m + 1e-44))


def _cos(a, b):
    import numpy as np
    a = np.asarray(a, np.float64).reshape(-1)
    b = np.asarray(b, np.float64).reshape(-1)
    # scale first: products of entries below 1e-160 would underflow in float64
    ma, mb = float(np.max(np.abs(a))), float(np.max(np.abs(b)))
    if ma == 0 or mb == 0 or not (np.isfinite(ma) and np.isfinite(mb)):
        return float("nan")
    a, b = a / ma, b / mb
    return float(np.dot(a, b) / (np.linalg.norm(a) * np.linalg.norm(b)))


def _nrm(a):
    import numpy as np
    a = np.asarray(a, np.float64).reshape(-1)
    m = float(np.max(np.abs(a))) if a.size else 0.0
    if m == 0 or not np.isfinite(m):
        return m
    return m * float(np.linalg.norm(a / m))


def _hexes(a, x64):
    import numpy as np
    a = np.asarray(a).reshape(-1)
    return [kit.f64_hex(x) for x in a] if x64 else [kit.f32_hex(x) for x in np.asarray(a, np.float32)]


def _floats(a):
    import numpy as np
    return [float(x) for x in np.asarray(a).reshape(-1)]


def _sc(x, exact):
    return kit.rat_str(Fraction(x)) if exact else kit.f64_hex(x)


# ============================================================================ Distributed Shampoo worker
def _ds_build(c, graft, start, dlr):
    from precondition import distributed_shampoo as ds
    kw = {}
    m = c["mode"]
    if m == "eigh":
        kw["eigh"] = True
    elif m == "comp+":
        kw["compression_rank"] = c["rank"]
    elif m == "comp-":
        kw["compression_rank"] = -c["rank"]
    elif m == "fd":
        kw.update(compression_rank=c["rank"], frequent_directions=True, reuse_preconditioner=True)
    elif m == "q16":
        kw.update(best_effort_memory_usage_reduction=True, batch_axis_name="batch")
    elif m == "sharded":
        from jax.sharding import PartitionSpec as P
        kw.update(shard_optimizer_states=True, statistics_partition_spec=P("x", None, None),
                  preconditioner_partition_spec=P("x", None, None), num_devices_for_pjit=1)
    return ds.distributed_shampoo(
        c["lr"], block_size=c["block"], beta1=0.0, beta2=c["beta2"], diagonal_epsilon=c["diag_eps"],
        matrix_epsilon=1e-6, weight_decay=0.0, start_preconditioning_step=start,
        preconditioning_compute_steps=c["pi"], statistics_compute_steps=(c["pi"] if m == "fd" else 1),
        best_effort_shape_interpretation=False, graft_type=getattr(ds.GraftingType, graft),
        nesterov=c["nesterov"], skip_preconditioning_rank_lt=c["skip_rank_lt"],
        skip_preconditioning_dim_size_gt=c["skip_dim_gt"], clip_by_scaled_gradient_norm=c["clip"],
        decoupled_learning_rate=dlr, moving_average_for_momentum=False, **kw)


def _ds_run(c, graft, start, dlr, params, grads):
    """public-API run; per step: updates, graft accumulators; plus which leaves have statistics and a fingerprint
    of the preconditioners after every step"""
    import hashlib
    import numpy as np
    import jax
    import jax.numpy as jnp
    opt = _ds_build(c, graft, start, dlr)
    names = sorted(params)
    pm = c["mode"] == "q16"
    rep = (lambda t: jax.tree.map(lambda x: jnp.stack([x]), t)) if pm else (lambda t: t)
    unrep = (lambda t: jax.tree.map(lambda x: x[0], t)) if pm else (lambda t: t)
    if c["mode"] == "sharded":
        return _ds_run_sharded(opt, names, params, grads)
    state = rep(opt.init(params))
    upd = jax.pmap(opt.update, axis_name="batch") if pm else jax.jit(opt.update)
    rparams = rep(params)
    ups, accs, fps = [], [], []
    has_stats = None
    for g in grads:
        u, state = upd(rep({n: jnp.asarray(g[n]) for n in names}), state, rparams)
        u1, s1 = unrep(u), unrep(state)
        ups.append({n: np.asarray(u1[n]) for n in names})
        accs.append({n: np.asarray(s1.stats[n].diagonal_statistics.to_float()) for n in names})
        h = hashlib.md5()
        for n in names:
            for leaf in jax.tree_util.tree_leaves(s1.stats[n].preconditioners):
                h.update(np.ascontiguousarray(np.asarray(leaf)).tobytes())
        fps.append(h.hexdigest())
        if has_stats is None:
            has_stats = {n: len(s1.stats[n].statistics) > 0 for n in names}
    return ups, accs, fps, has_stats


def _ds_run_sharded(opt, names, params, grads):
    """shard_optimizer_states=True: one-device Mesh + jit. The update of step t uses the preconditioners stored
    BEFORE the step (the previous refresh), so the fingerprint taken is that of the state the step started from."""
    import hashlib
    import numpy as np
    import jax
    import jax.numpy as jnp
    from jax.sharding import Mesh

    def fp(state):
        h = hashlib.md5()
        for leaf in jax.tree_util.tree_leaves(state.stats.global_stats.preconditioners):
            h.update(np.ascontiguousarray(np.asarray(leaf)).tobytes())
        return h.hexdigest()
    ups, accs, fps = [], [], []
    with Mesh(np.array(jax.devices()[:1]), ("x",)):
        state = opt.init(None).init_fn(params)
        upd = jax.jit(opt.update)
        has_stats = {n: len(state.stats.local_stats[n].sizes) > 0 for n in names}
        for g in grads:
            fps.append(fp(state))
            u, state = upd({n: jnp.asarray(g[n]) for n in names}, state, params)
            ups.append({n: np.asarray(u[n]) for n in names})
            accs.append({n: np.asarray(state.stats.local_stats[n].diagonal_statistics.to_float()) for n in names})
    return ups, accs, fps, has_stats


def _run_ds(c):
    import numpy as np
    import jax
    import jax.numpy as jnp
    jax.config.update("jax_enable_x64", bool(c.get("x64")))
    eps = float(consts.module_assign("distributed_shampoo.py", "_EPSILON"))
    names = sorted(c["shapes"])
    x64 = bool(c.get("x64"))
    dt = jnp.float64 if x64 else jnp.float32
    params = {n: jnp.full(tuple(c["shapes"][n]), 0.5, dt) for n in names}
    grads = _make_grads(c)
    G, start, lr = c["graft"], c["start"], c["lr"]
    ups, accs, fps, has_stats = _ds_run(c, G, start, c["dlr"], params, grads)
    # the preconditioned gradient through the public API: GraftingType.NONE, coupled lr => update = -p
    nups, _naccs, nfps, _ = _ds_run(c, "NONE", 0, False, params, grads)
    pm_ = 1.0 if c["dlr"] else lr          # preconditioner_multiplier
    mm_ = lr if c["dlr"] else 1.0          # momentum_multiplier
    ints = c["grad"]["kind"] == "int"
    fails, leaves, stats = [], {}, {"transplant": 0, "warmup": 0, "skipped": 0, "zero_p": 0, "nontrivial": [],
                                    "inconclusive_reference_diverged": 0}
    for n in names:
        shp = c["shapes"][n]
        skip = _py_ds_skip(c, shp)
        acc = np.zeros(tuple(shp), np.float64)
        rec = {"shape": shp, "skip_py": skip, "skip_impl": not has_stats[n], "upd": [], "acc": [], "steps": []}
        for t in range(c["T"]):
            g = np.asarray(grads[t][n], np.float64)
            u = np.asarray(ups[t][n], np.float64)
            p = -np.asarray(nups[t][n], np.float64)
            gstep, acc = _np_ds_graft(G, g, acc, c["beta2"], c["diag_eps"], eps, c["clip"])
            where = f"step {t} leaf {n}{shp} graft {G} mode {c['mode']} start {start}"
            live_ref_bad = (t >= start and not skip and not np.isfinite(p).all())
            if live_ref_bad:
                # the preconditioned gradient itself is non-finite (a matter of C01/C03, not of grafting): no verdict
                stats["inconclusive_reference_diverged"] += 1
            elif not np.isfinite(u).all():
                fails.append({"what": f"{where}: non-finite update", "leaf": n, "t": t})
            elif t < start:
                stats["warmup"] += 1
                if not _close(u, -lr * gstep):
                    fails.append({"what": f"{where}: warm-up update is not the graft step (-lr * graft)", "leaf": n, "t": t})
            elif skip:
                stats["skipped"] += 1
                ng = _nrm(pm_ * gstep)
                mult = 1.0 if G == "NONE" else (ng / (ng + eps) if ng + eps > 0 else 0.0)
                if not _close(u, -lr * gstep * mult):
                    fails.append({"what": f"{where}: parameter excluded from preconditioning does not get the graft step "
                                          f"(times |g|/(|g|+eps) = {mult:.6g})", "leaf": n, "t": t})
            elif G == "NONE":
                if not _close(u, -mm_ * p, rel=1e-5, relmax=1e-6):
                    fails.append({"what": f"{where}: GraftingType.NONE update is not -lr * preconditioned gradient", "leaf": n, "t": t})
            else:
                stats["transplant"] += 1
                n_u, n_p, n_g = _nrm(u), _nrm(p), lr * _nrm(gstep)
                if n_p == 0:
                    stats["zero_p"] += 1
                    if np.any(u != 0):
                        fails.append({"what": f"{where}: preconditioned gradient is zero but the update is not", "leaf": n, "t": t})
                else:
                    want = n_g * n_p / (n_p + eps)
                    bad = []
                    if not abs(n_u - want) <= 1e-5 * n_g + 1e-44:
                        bad.append(f"norm {n_u:.9g} != |graft| |p|/(|p|+eps) = {want:.9g} (|graft| = {n_g:.9g}, |p| = {n_p:.9g})")
                    cs = _cos(u, -p)
                    if n_g > 0 and not (cs >= 1 - 1e-6):
                        bad.append(f"cosine with the preconditioned gradient is {cs:.9f}")
                    if bad and fps[t] != nfps[t]:
                        # the reference run stored different preconditioners (data-dependent root branch): no verdict
                        stats["inconclusive_reference_diverged"] += 1
                    else:
                        for b in bad:
                            fails.append({"what": f"{where}: {b}", "leaf": n, "t": t})
                    cg = _cos(gstep, p)
                    if n_g > 0 and cg == cg and cg < 0.999:
                        stats["nontrivial"].append([n, t])
            rec["upd"].append(_floats(ups[t][n]))
            rec["acc"].append(_floats(accs[t][n]))
            rec["steps"].append({"g": _hexes(grads[t][n], x64), "p": _hexes(np.zeros_like(p) if skip else -np.asarray(nups[t][n]), x64)})
        leaves[n] = rec
    reqs = []
    for n in names:
        # no EXACT claim for the normalised graft types: XLA may evaluate `grad / (norm + eps)` (division by a
        # broadcast scalar) as a multiplication by the rounded reciprocal, which is not rounding-free (seen: 0.75**2
        # stored as 0.5625 + 2 ulp); they are compared under TOL only
        for exact in ([False, True] if (ints and not x64 and not G.endswith("NORMALIZED")) else [False]):
            reqs.append({"leaf": n, "exact": exact, "req": {
                "op": "ds_run", "scalar": "exact" if exact else "f64", "graft": G,
                "beta2": _sc(c["beta2"], exact), "diag_eps": _sc(c["diag_eps"], exact), "eps": _sc(eps, exact),
                "lr": _sc(lr, exact), "dlr": c["dlr"], "clip": (None if c["clip"] is None else _sc(c["clip"], exact)),
                "start": start, "skip": leaves[n]["skip_impl"], "steps": leaves[n]["steps"]}})
        reqs.append({"leaf": n, "skipq": True, "req": {"op": "skip", "kind": "ds", "rank_lt": c["skip_rank_lt"],
                                                        "dim_gt": c["skip_dim_gt"], "shape": c["shapes"][n]}})
    for n in names:
        del leaves[n]["steps"]
    return {"task": c, "leaves": leaves, "fails": fails, "stats": stats, "reqs": reqs}


# ============================================================================ Tearfree worker
def _custom_direction(name):
    import jax
    import jax.numpy as jnp
    from precondition.tearfree import praxis_shim

    def f(x, count):
        if name == "neg2x":
            return -2.0 * x
        if name == "zero":
            return jnp.zeros_like(x)
        if name == "perm2":
            return 2.0 * jnp.roll(x.reshape(-1), 1).reshape(x.shape)
        if name == "zero_odd":
            return jnp.where(count % 2 == 1, jnp.zeros_like(x), -2.0 * x)
        raise ValueError(name)

    def init(params):
        del params
        return {"count": jnp.zeros([], jnp.int32)}

    def update(updates, state, params=None):
        del params
        return jax.tree.map(lambda x: f(x, state["count"]), updates), {"count": state["count"] + 1}

    return praxis_shim.ShardedGradientTransformation(init, update, lambda p: None)


def _np_custom(name, g, t):
    import numpy as np
    if name == "neg2x":
        return -2.0 * g
    if name == "zero":
        return np.zeros_like(g)
    if name == "perm2":
        return 2.0 * np.roll(g.reshape(-1), 1).reshape(g.shape)
    if name == "zero_odd":
        return np.zeros_like(g) if t % 2 == 1 else -2.0 * g
    raise ValueError(name)


def _tf_options(c, graft, start):
    from precondition.tearfree import grafting, second_order, shampoo as tfs, sketchy as tfk
    gopts = grafting.Options(
        grafting_type=getattr(grafting.GraftingType, graft),
        second_moment_decay=(0.0 if graft == "SGD" else c["decay"]), start_preconditioning_step=start,
        epsilon=c["eps"], skip_preconditioning_any_dim_gt=c["dim_gt"], skip_preconditioning_rank1=c["rank1"],
        min_dim_size_to_factor=4, multiply_by_parameter_scale=False, clipping_threshold=1.0)
    if c["so"] == "sketchy":
        so = second_order.Options(merge_dims=c["merge"], second_order_type=second_order.SecondOrderType.SKETCHY,
                                  shampoo_options=None,
                                  sketchy_options=tfk.Options(rank=c["sk_rank"], update_freq=1, second_moment_decay=0.875))
    else:
        so = second_order.Options(merge_dims=c["merge"], second_order_type=second_order.SecondOrderType.SHAMPOO,
                                  shampoo_options=tfs.Options(block_size=c["block"], update_preconditioners_freq=c["pf"],
                                                              update_statistics_freq=1, second_moment_decay=0.9))
    return gopts, so


def _tf_tx(c, graft, start):
    """(transformation, lr actually applied to the output)"""
    from precondition.tearfree import optimizer as tfo, grafting, momentum as tfm
    gopts, so = _tf_options(c, graft, start)
    if c["so"].startswith("custom:"):
        return grafting.graft(gopts, _custom_direction(c["so"][7:])), -1.0
    opts = tfo.TearfreeOptions(grafting_options=gopts, second_order_options=so,
                               momentum_options=tfm.Options(momentum_decay=0.0, weight_decay=0.0, nesterov=False))
    return tfo.tearfree(c["lr"], opts), c["lr"]


def _tx_run(tx, params, grads, names):
    import jax
    import jax.numpy as jnp
    import numpy as np
    state = tx.init(params)
    upd = jax.jit(tx.update)
    out = []
    for g in grads:
        u, state = upd({n: jnp.asarray(g[n]) for n in names}, state, params)
        out.append({n: np.asarray(u[n]) for n in names})
    return out


def _run_tf(c):
    import contextlib
    import io
    import numpy as np
    import jax
    import jax.numpy as jnp
    jax.config.update("jax_enable_x64", False)
    from precondition.tearfree import second_order
    names = sorted(c["shapes"])
    params = {n: jnp.full(tuple(c["shapes"][n]), 0.5, jnp.float32) for n in names}
    grads = _make_grads(c)
    G, start = c["graft"], c["start"]
    custom = c["so"][7:] if c["so"].startswith("custom:") else None
    masked = {n: _py_tf_mask(c, c["shapes"][n]) for n in names}
    live = [n for n in names if not masked[n]]
    with contextlib.redirect_stdout(io.StringIO()):
        tx, lr = _tf_tx(c, G, start)
        ups = _tx_run(tx, params, grads, names)
        gonly = None
        if G == "ADAFACTOR":
            txg, _ = _tf_tx(c, G, HUGE)
            gonly = _tx_run(txg, params, grads, names)
        base = None
        if custom is None and live:
            _gopts, so = _tf_options(c, G, start)
            base = _tx_run(second_order.apply(so), {n: params[n] for n in live}, [{n: g[n] for n in live} for g in grads], live)
    # implementation's own mask decision (private helper; correspondence of the model's `tfMaskSkipped` only)
    mask_impl = {}
    try:
        from precondition.tearfree import grafting
        gopts, _ = _tf_options(c, G, start)
        mt = grafting._mask_skipped(gopts, {n: params[n] for n in names})
        mask_impl = {n: bool(grafting._masked(mt[n])) for n in names}
    except AttributeError:
        mask_impl = {}
    ints = c["grad"]["kind"] == "int"
    fails, leaves, stats = [], {}, {"transplant": 0, "warmup": 0, "skipped": 0, "zero_p": 0, "nontrivial": []}
    for n in names:
        shp = c["shapes"][n]
        acc = np.zeros(tuple(shp), np.float64)
        rec = {"shape": shp, "skip_py": masked[n], "skip_impl": mask_impl.get(n), "upd": [], "steps": []}
        for t in range(c["T"]):
            g = np.asarray(grads[t][n], np.float64)
            u = np.asarray(ups[t][n], np.float64)
            if G == "ADAFACTOR":
                gstep = -np.asarray(gonly[t][n], np.float64) / lr
            else:
                gstep, acc = _np_tf_graft(G, g, acc, c["decay"], c["eps"])
            where = f"step {t} leaf {n}{shp} graft {G} second-order {c['so']} start {start}"
            b = None
            if not masked[n]:
                b = _np_custom(custom, np.asarray(grads[t][n]), t) if custom else np.asarray(base[t][n])
            if (b is not None and t >= start and not np.isfinite(np.asarray(b, np.float64)).all()) or \
                    (G == "ADAFACTOR" and not np.isfinite(gstep).all()):
                # the second-order update (C08/C09/C15) or optax's ADAFACTOR step itself is non-finite: no verdict on grafting
                stats["inconclusive_reference_diverged"] = stats.get("inconclusive_reference_diverged", 0) + 1
            elif not np.isfinite(u).all():
                fails.append({"what": f"{where}: non-finite update", "leaf": n, "t": t})
            elif masked[n] or t < start:
                stats["skipped" if masked[n] else "warmup"] += 1
                if not _close(u, -lr * gstep):
                    fails.append({"what": f"{where}: " + ("masked leaf" if masked[n] else "warm-up") +
                                          " update is not the graft step", "leaf": n, "t": t})
            else:
                stats["transplant"] += 1
                b64 = np.asarray(b, np.float64)
                n_u, n_b, n_g = _nrm(u), _nrm(b64), abs(lr) * _nrm(gstep)
                if n_b == 0:
                    stats["zero_p"] += 1
                    if np.any(u != 0):
                        fails.append({"what": f"{where}: second-order update is zero but the update is not", "leaf": n, "t": t})
                else:
                    if not abs(n_u - n_g) <= 1e-5 * n_g + 1e-44:
                        fails.append({"what": f"{where}: norm {n_u:.9g} != graft norm {n_g:.9g}", "leaf": n, "t": t})
                    cs = _cos(u, -lr * b64)
                    if n_g > 0 and not (cs >= 1 - 1e-6):
                        fails.append({"what": f"{where}: cosine with the second-order update is {cs:.9f}", "leaf": n, "t": t})
                    cg = _cos(gstep, b64)
                    if n_g > 0 and cg == cg and abs(cg) < 0.999:
                        stats["nontrivial"].append([n, t])
            rec["upd"].append(_floats(ups[t][n]))
            gin = grads[t][n] if G != "ADAFACTOR" else np.asarray(gstep, np.float32)
            rec["steps"].append({"g": _hexes(gin, False), "b": _hexes(np.zeros(tuple(shp), np.float32) if b is None else b, False)})
        leaves[n] = rec
    reqs = []
    for n in names:
        for exact in ([False, True] if (ints and G != "ADAFACTOR") else [False]):
            reqs.append({"leaf": n, "exact": exact, "req": {
                "op": "tf_run", "scalar": "exact" if exact else "f64", "graft": ("SGD" if G == "ADAFACTOR" else G),
                "decay": _sc(c["decay"], exact), "eps": _sc(c["eps"], exact), "lr": _sc(lr, exact), "start": start,
                "masked": masked[n] if leaves[n]["skip_impl"] is None else leaves[n]["skip_impl"], "steps": leaves[n]["steps"]}})
        reqs.append({"leaf": n, "skipq": True, "req": {"op": "skip", "kind": "tf", "rank1": c["rank1"], "dim_gt": c["dim_gt"],
                                                        "shape": c["shapes"][n]}})
    for n in names:
        del leaves[n]["steps"]
    return {"task": c, "leaves": leaves, "fails": fails, "stats": stats, "reqs": reqs}


def _run_skipgrid(c):
    """exclusion predicates of the implementations on many shapes (DS: a parameter without statistics; Tearfree: its mask)"""
    import contextlib
    import io
    import jax.numpy as jnp
    from precondition import distributed_shampoo as ds
    from precondition.tearfree import grafting
    reqs, fails, leaves = [], [], {}
    for i, cs in enumerate(c["cases"]):
        shp = tuple(cs["shape"])
        p = {"x": jnp.zeros(shp, jnp.float32), "y": jnp.zeros((3, 3), jnp.float32)}
        try:
            opt = ds.distributed_shampoo(0.1, block_size=4, beta1=0.0, skip_preconditioning_rank_lt=cs["rank_lt"],
                                         skip_preconditioning_dim_size_gt=cs["dim_gt"], best_effort_shape_interpretation=False)
            st = opt.init(p)
            impl_ds = len(st.stats["x"].statistics) == 0
        except Exception as e:  # noqa: BLE001
            impl_ds = "exception " + type(e).__name__
        py_ds = len(shp) < cs["rank_lt"] or any(s > cs["dim_gt"] for s in shp)
        try:
            go = grafting.Options(grafting_type=grafting.GraftingType.SGD, second_moment_decay=0.0,
                                  skip_preconditioning_any_dim_gt=cs["dim_gt"], skip_preconditioning_rank1=cs["rank1"])
            with contextlib.redirect_stdout(io.StringIO()):
                impl_tf = bool(grafting._masked(grafting._mask_skipped(go, {"x": p["x"]})["x"]))
        except AttributeError:
            impl_tf = None
        py_tf = (cs["rank1"] and len(shp) <= 1) or any(s > cs["dim_gt"] for s in shp)
        if impl_ds != py_ds:
            fails.append({"what": f"Distributed Shampoo excludes shape {list(shp)} (rank_lt {cs['rank_lt']}, dim_gt {cs['dim_gt']}): "
                                  f"{impl_ds}, the documented rule says {py_ds}", "leaf": f"ds{i}", "t": 0})
        if impl_tf is not None and impl_tf != py_tf:
            fails.append({"what": f"Tearfree masks shape {list(shp)} (rank1 {cs['rank1']}, any_dim_gt {cs['dim_gt']}): "
                                  f"{impl_tf}, the documented rule says {py_tf}", "leaf": f"tf{i}", "t": 0})
        leaves[f"ds{i}"] = {"skip_impl": impl_ds, "shape": list(shp)}
        leaves[f"tf{i}"] = {"skip_impl": impl_tf, "shape": list(shp)}
        reqs.append({"leaf": f"ds{i}", "skipq": True, "req": {"op": "skip", "kind": "ds", "rank_lt": cs["rank_lt"],
                                                               "dim_gt": cs["dim_gt"], "shape": list(shp)}})
        reqs.append({"leaf": f"tf{i}", "skipq": True, "req": {"op": "skip", "kind": "tf", "rank1": cs["rank1"],
                                                               "dim_gt": cs["dim_gt"], "shape": list(shp)}})
    return {"task": {"kind": "skipgrid", "cases": c["cases"]}, "leaves": leaves, "fails": fails,
            "stats": {"transplant": 0, "warmup": 0, "skipped": 0, "zero_p": 0, "nontrivial": []}, "reqs": reqs}


def worker(chunk):
    import warnings
    warnings.filterwarnings("ignore")
    out = []
    for task in chunk:
        try:
            if task["kind"] == "ds":
                out.append(_run_ds(task))
            elif task["kind"] == "tf":
                out.append(_run_tf(task))
            elif task["kind"] == "skipgrid":
                out.append(_run_skipgrid(task))
            else:
                raise ValueError(task["kind"])
        except Exception as e:  # noqa: BLE001
            import traceback
            if isinstance(e, ValueError) and "jax" not in type(e).__module__ and len(str(e)) > 20:
                # an explanatory rejection of the configuration by the package: not an accepted configuration
                out.append({"task": task, "rejected": str(e)[:200], "fails": [], "reqs": [], "leaves": {}, "stats": {}})
                continue
            out.append({"task": task, "exception": type(e).__name__ + ": " + str(e)[:300],
                        "trace": traceback.format_exc()[-1500:], "fails": [], "reqs": [], "leaves": {}, "stats": {}})
    try:
        import jax
        jax.clear_caches()
    except Exception:  # noqa: BLE001
        pass
    return out


# ============================================================================ comparison with the model
def _round_f32(fr):
    """correctly rounded (nearest, ties to even) float32 of a Fraction"""
    import numpy as np
    if fr == 0:
        return np.float32(0.0)
    x = np.float32(float(fr))
    cands = [np.nextafter(x, np.float32(-np.inf)), x, np.nextafter(x, np.float32(np.inf))]
    cands = [cd for cd in cands if np.isfinite(cd)]
    return min(cands, key=lambda cd: (abs(Fraction(float(cd)) - fr), int(np.asarray(cd).view(np.uint32)) & 1))


def _case(o, leaf=None, t=None):
    c = {"task": o["task"]}
    if leaf is not None:
        c["leaf"] = leaf
    if t is not None:
        c["t"] = t
    return c


def _slim(task):
    return {k: v for k, v in task.items() if k != "cases"}


def compare(ctx, o, replies):
    import numpy as np
    task = o["task"]
    kind = task["kind"]
    if "exception" in o:
        ctx.disagree(kind + ".accepted_configuration_runs", {"task": _slim(task)}, o["exception"], "no exception", o.get("trace", "")[-600:])
        return
    for rq, rep in zip(o["reqs"], replies):
        leaf = rq["leaf"]
        L = o["leaves"][leaf]
        if rq.get("skipq"):
            if L["skip_impl"] is None:
                ctx.dist(kind + ".skip.impl_predicate_unavailable")
                continue
            name = ("tf" if leaf.startswith("tf") or kind == "tf" else "ds") + ".excluded_from_preconditioning[EXACT]"
            ok = rep.get("skip") == L["skip_impl"]
            ctx.corr(name, ok)
            if not ok:
                ctx.disagree(name, {"task": _slim(task), "leaf": leaf, "shape": L["shape"]}, L["skip_impl"], rep)
            continue
        if "upd" not in rep:
            ctx.disagree(kind + ".driver", _case(o, leaf), None, rep)
            continue
        T = len(L["upd"])
        if rq["exact"]:
            name = kind + ".update[EXACT-DYADIC]"
            nok = 0
            for t in range(T):
                iu = np.asarray(L["upd"][t], np.float32)
                flags = rep["ok"][t]
                if not any(flags):
                    continue
                mu = [Fraction(x) for x in rep["upd"][t]]
                bad = [i for i in range(len(mu)) if flags[i] and not (_round_f32(mu[i]) == iu[i])]
                nok += sum(flags)
                ctx.corr(name, not bad)
                if bad:
                    i = bad[0]
                    ctx.disagree(name, _case(o, leaf, t), float(iu[i]), rep["upd"][t][i], f"coordinate {i}: exact rational result rounds to "
                                 f"{float(_round_f32(mu[i]))!r}")
            if nok:
                ctx.dist(kind + ".exact_coordinates", nok)
            else:
                ctx.dist(kind + ".exact_request_without_rounding_free_coordinate")
            if "acc" in L and len(L["acc"][0]) == len(rep["acc"][0]):
                for t in range(T):
                    ia = np.asarray(L["acc"][t], np.float32)
                    flags = rep["acc_ok"][t]
                    ma = [Fraction(x) for x in rep["acc"][t]]
                    bad = [i for i in range(len(ma)) if flags[i] and not (_round_f32(ma[i]) == ia[i])]
                    if any(flags):
                        ctx.corr(kind + ".graft_accumulator[EXACT-DYADIC]", not bad)
                        if bad:
                            ctx.disagree(kind + ".graft_accumulator[EXACT-DYADIC]", _case(o, leaf, t), float(ia[bad[0]]), rep["acc"][t][bad[0]])
            continue
        name = kind + ".update[TOL]"
        for t in range(T):
            mu = np.asarray([kit.hex_f64(x) for x in rep["upd"][t]], np.float64)
            ok = _close(L["upd"][t], mu, rel=2e-5, relmax=2e-6)
            ctx.corr(name, ok)
            if not ok:
                iu = np.asarray(L["upd"][t], np.float64)
                i = int(np.argmax(np.abs(iu - mu))) if np.isfinite(iu - mu).any() else 0
                ctx.disagree(name, _case(o, leaf, t), float(iu[i]), float(mu[i]), f"coordinate {i}; max |impl - model| = "
                             f"{float(np.max(np.abs(iu - mu))):.3e}, max |model| = {float(np.max(np.abs(mu))):.3e}")
        # (graft types without a second-moment accumulator store an empty placeholder)
        if "acc" in L and len(L["acc"][0]) == len(rep["acc"][0]):
            for t in range(T):
                ma = np.asarray([kit.hex_f64(x) for x in rep["acc"][t]], np.float64)
                ok = _close(L["acc"][t], ma, rel=2e-5, relmax=2e-6)
                ctx.corr(kind + ".graft_accumulator[TOL]", ok)
                if not ok:
                    ctx.disagree(kind + ".graft_accumulator[TOL]", _case(o, leaf, t), L["acc"][t][:4], [float(x) for x in ma[:4]])


# ============================================================================ stages
def const_stage(ctx):
    eps = consts.module_assign("distributed_shampoo.py", "_EPSILON")
    if not (isinstance(eps, float) and 0 < eps <= 1e-24):
        ctx.const_fail("ds_graft_norm_gap.hε", f"_EPSILON = {eps!r}: the theorems need 0 < ε, and the transplanted norm is within 1e-5 of "
                       "the graft norm for every float32 preconditioned gradient (|p| >= 1e-19) only if ε <= 1e-24")
    de = consts.func_default("distributed_shampoo.py", "distributed_shampoo", "diagonal_epsilon")
    if not (isinstance(de, float) and de >= 0):
        ctx.const_fail("diagonal_epsilon", f"default diagonal_epsilon = {de!r} is negative")
    te = consts.class_field_default("tearfree/grafting.py", "Options", "epsilon")
    if not (isinstance(te, float) and te >= 0):
        ctx.const_fail("tearfree.epsilon", f"default grafting epsilon = {te!r} is negative")
    ctx.cov["constants"] = {"_EPSILON": eps, "diagonal_epsilon": de, "tearfree.grafting.Options.epsilon": te}


def _tag(t):
    if t["kind"] == "ds":
        return "ds." + t["mode"] + (".x64" if t.get("x64") else "") + (".int" if t["grad"]["kind"] == "int" else "")
    if t["kind"] == "tf":
        return "tf." + t["so"] + (".int" if t["grad"]["kind"] == "int" else "")
    return t["kind"]


def _dev_filter(ctx, tasks):
    """Builder aid for mutation experiments: C05_ONLY=ds,tf,skipgrid keeps those kinds, C05_MAXTASKS=n the first n of each
    tag. Recorded in the evidence so that a filtered run cannot pass for a full one."""
    only = os.environ.get("C05_ONLY")
    cap = os.environ.get("C05_MAXTASKS")
    if not only and not cap:
        return tasks
    keep, seen = [], {}
    for t in tasks:
        if only and t["kind"] not in only.split(","):
            continue
        tag = _tag(t)
        seen[tag] = seen.get(tag, 0) + 1
        if cap and seen[tag] > int(cap):
            continue
        keep.append(t)
    ctx.notes.append(f"DEV FILTER ACTIVE (C05_ONLY={only}, C05_MAXTASKS={cap}): {len(keep)} of {len(tasks)} tasks run")
    ctx.cov["dev_filter"] = {"only": only, "max": cap}
    return keep


def execute(ctx, tasks):
    nproc = min(14, int(os.environ.get("C05_NPROC", "14")))
    # x64 tasks in their own chunks (the flag is switched per task, but keep processes homogeneous)
    a = [t for t in tasks if not t.get("x64")]
    b = [t for t in tasks if t.get("x64")]
    per = max(1, min(6, math.ceil(len(a) / (nproc * 2)))) if a else 1
    chunks = kit.chunked(a, per) + ([b] if b else [])
    results = kit.parallel_map(worker, chunks, nproc=nproc)
    obs = [o for grp in results for o in grp]
    reqs, spans = [], []
    for o in obs:
        rq = [r["req"] for r in o["reqs"]]
        spans.append((len(reqs), len(reqs) + len(rq)))
        reqs.extend(rq)
    replies = ctx.driver(reqs) if reqs else []
    nrej = sum(1 for o in obs if "rejected" in o)
    if nrej > max(2, len(obs) // 10):
        ctx.disagree("accepted_configuration_runs", {"rejected": nrej, "of": len(obs)},
                     [o["rejected"] for o in obs if "rejected" in o][:3], "generated configurations are accepted")
    for o, (i0, i1) in zip(obs, spans):
        task = o["task"]
        if "rejected" in o:
            ctx.dist("tasks.rejected_by_the_package." + _tag(task))
            ctx.notes.append(f"configuration rejected by the package ({o['rejected'][:120]}): {_tag(task)}")
            continue
        ctx.dist("tasks." + _tag(task))
        compare(ctx, o, replies[i0:i1])
        st = o.get("stats", {})
        nsteps = sum(len(L.get("upd", [])) for L in o["leaves"].values()) or len(o["leaves"])
        ctx.evaluated(nsteps)
        ctx.cov["search_evaluations"] += nsteps
        for k in ("transplant", "warmup", "skipped", "zero_p", "inconclusive_reference_diverged"):
            if st.get(k):
                ctx.dist("steps." + task["kind"] + "." + k, st[k])
        for leaf, t in st.get("nontrivial", []):
            ctx.nontrivial((task["kind"], task.get("mode", task.get("so")), task["graft"], str(task["shapes"]), task["start"],
                            task["grad"]["seed"], leaf, t))
        for f in o["fails"][:6]:
            tk = _slim(task)
            if task["kind"] == "skipgrid":
                tk = {"kind": "skipgrid", "cases": [task["cases"][int(f["leaf"][2:])]]}
            ctx.violation(f["what"], {"task": tk, "leaf": f["leaf"], "t": f["t"]})
    return obs


def run(ctx):
    if os.environ.get("C05_NOLEAN"):   # builder aid (mutation experiments only); recorded so it cannot pass for a full run
        ctx.notes.append("DEV: Lean stage skipped (C05_NOLEAN)")
        ctx.cov["dev_nolean"] = True
        ctx.cov["obligations"], ctx.cov["discharged"] = 1, 0
    else:
        kit.gen_stage(ctx)
        ctx.lean_stage(extra_props=("Gen",))
        ctx.notes.append("model tie #2: _skip_preconditioning and the predicate of tearfree grafting._mask_skipped regenerated from the source by harness/py2lean.py on this run; bridge theorems PrecondVerif.GenProps.C05.* prove them equal to Graft.dsSkip / Graft.tfMaskSkipped")
    const_stage(ctx)
    tasks = gen_tasks(ctx.tier, ctx.seed)
    ctx.cov["rule"] = (
        "public optimizers with momentum and weight decay off, T = 5-6 steps of random (N(0,1) x scale in {1, 1e-3, 30, 1e-9 / 1e-12}) "
        "or integer-valued gradients, some steps with an all-zero gradient. Distributed Shampoo: 7 graft types x {full Newton, eigh, "
        "compression_rank +r, -r, frequent_directions + reuse_preconditioner, int16-quantized (best_effort_memory_usage_reduction under pmap), sharded (shard_optimizer_states, one-device Mesh + jit; reference run for p in the same mode)} "
        "x 7 parameter trees (matrices, rank 3, rank 1, scalar, blocked, leaves excluded by rank / dimension) x start steps {0..4, never} "
        "x lr, decoupled or coupled, beta2, diagonal_epsilon, clip_by_scaled_gradient_norm; float64 trees excluded from preconditioning with "
        "gradients of the size of _EPSILON. Tearfree: {SGD, RMSPROP, ADAFACTOR} x {Shampoo, Sketchy, four hand-made direction transformations "
        "(-2x, zero, permuted 2x, zero on odd steps)} x masks (rank 1, any_dim_gt) x start steps. evaluations = (parameter, step) pairs whose "
        "update was checked. A non-trivial case is a distinct (optimizer, mode, graft, tree, start, history, parameter, step) with step >= "
        "start on a preconditioned parameter whose preconditioned gradient is non-zero and NOT parallel to the graft step (|cos| < 0.999), "
        "i.e. where 'direction of p, norm of graft' differs from both the graft step and p.")
    ctx.assumptions += [
        "EXACT-DYADIC: on integer-valued histories the driver evaluates the model at exact rationals and flags a coordinate when every "
        "intermediate has an exact rational square root and lies within 2^-40 (relative) of a float32 value; there the float32 "
        "implementation can only absorb the epsilon constants, so it must equal the rational result rounded once to float32; "
        "not claimed for the *_NORMALIZED graft types (XLA may turn the division by the scalar norm into a multiplication by its "
        "rounded reciprocal)",
        "TOL: binary64 run of the model on the float32 inputs; |impl - model| <= 2e-5 |model_i| + 2e-6 max|model| (float32 rounding of "
        "norms, square roots, divisions; graft accumulators over <= 6 steps)",
        "the preconditioned gradient p is observed through the public API (same configuration with GraftingType.NONE, coupled lr: "
        "update = -p; Tearfree: second_order.apply alone on the unmasked leaves); if a norm/cosine check fails while the two runs stored "
        "bitwise different preconditioners the step is counted inconclusive (data-dependent root branches), never as agreement",
        "oracle tolerances: | |upd| - lr |graft| |p|/(|p|+eps) | <= 1e-5 lr |graft|, cosine >= 1 - 1e-6, warm-up / excluded leaves "
        "elementwise 1e-5 relative + 1e-7 of the max entry; graft step from a float64 numpy closed form (ADAFACTOR: the graft-only run)",
        "hypothesis 0 < _EPSILON <= 1e-24 checked on the source constant",
    ]
    tasks = _dev_filter(ctx, tasks)
    obs = execute(ctx, tasks)
    picked = 0
    for o in obs:
        st = o.get("stats", {})
        if picked < 6 and st.get("nontrivial") and o["task"]["kind"] in ("ds", "tf"):
            leaf, t = st["nontrivial"][0]
            ctx.sample({"task": o["task"], "leaf": leaf, "t": t, "update": o["leaves"][leaf]["upd"][t][:6]})
            picked += 1


def replay(ctx, data):
    cases = [v["case"] for v in data.get("violations", [])]
    cases += [s["detail"]["case"] for s in data.get("stage_failures", [])
              if isinstance(s.get("detail"), dict) and isinstance(s["detail"].get("case"), dict)]
    tasks, seen = [], set()
    for c in cases:
        t = c.get("task")
        if not isinstance(t, dict) or "kind" not in t:
            continue
        if t["kind"] == "skipgrid" and "cases" not in t:
            continue
        key = repr(sorted(t.items(), key=lambda kv: kv[0]))
        if key in seen:
            continue
        seen.add(key)
        tasks.append(t)
    ctx.cov["rule"] = "replay of recorded cases"
    execute(ctx, tasks)
