"""C07 — state contract: shapes preserved, layout stable, every accepted configuration runs.

Correspondence (K): for every generated (optimizer, configuration, parameter tree, mode) the REAL optimizer
(Distributed Shampoo replicated / pmap / sharded, SM3, Tearfree Shampoo / Sketchy) is constructed, initialised
and updated 3 times (jit; pmap over 1-2 host devices; sharded under a one-device Mesh + jit). Compared with the
Lean layout calculus (`Model/Layout.lean`, driver ops `ds`, `sm3`, `tf`) — policy EXACT:
  * outcome kind (ok / reject / internal), the phase (construct / init / update) and the exception class,
  * the FULL layout signature of the initial state (node kinds, static fields, leaf shapes, dtypes),
  * sharded mode: the declared shape/dtype tree and the partition-spec tree.

Search oracle (S), independent of the Lean model, evaluated on the real objects in the worker:
  * exception classification: explanatory rejection = ValueError / NotImplementedError / AssertionError with a
    message raised by the package's own code (innermost frame inside `precondition/`); anything else (bare
    assert, TypeError, jax/numpy errors, KeyError, ...) is an internal error = violation,
  * tree structure (incl. static fields), leaf shapes and dtypes of the state after update 1, 2, 3 equal the
    initial state's,
  * the update tree has the parameters' structure, shapes and dtype,
  * `jax.lax.scan` accepts the state as a carry (traced with `jax.eval_shape`),
  * sharded: init state vs `shape_and_dtype_fn` vs `pspec_fn` agree in structure, leaf shapes, dtypes, and every
    partition spec is no longer than the rank of its leaf.
"""
import json
import os
import random

from harness import kit, consts

GRAFTS = ["NONE", "SGD", "ADAGRAD", "RMSPROP", "RMSPROP_NORMALIZED", "SQRT_N", "ADAGRAD_NORMALIZED"]
PTYPES = ["ALL", "INPUT", "OUTPUT"]
DS_DEFAULTS = {
    "block_size": 4, "beta1": 0.9, "beta2": 0.999, "matrix_epsilon": 1e-6, "weight_decay": 0.0,
    "start_preconditioning_step": 1, "preconditioning_compute_steps": 1, "decay_preconditioning_compute_steps": False,
    "end_preconditioning_compute_steps": None, "statistics_compute_steps": 1, "best_effort_shape_interpretation": True,
    "graft_type": "SGD", "nesterov": True, "exponent_override": 0, "batch_axis_name": None,
    "shard_optimizer_states": False, "num_devices_for_pjit": None, "best_effort_memory_usage_reduction": False,
    "moving_average_for_momentum": False, "skip_preconditioning_dim_size_gt": 4096, "clip_by_scaled_gradient_norm": None,
    "relative_matrix_epsilon": True, "merge_small_dims_block_size": 4096, "lobpcg_topk_precondition": 0,
    "lobpcg_max_iter": 0, "precondtioner_type": "ALL", "generate_fd_metrics": False, "compression_rank": 0,
    "frequent_directions": False, "reset_preconditioner": False, "average_grad": False, "skip_preconditioning_rank_lt": 1,
    "decoupled_learning_rate": True, "decoupled_weight_decay": False, "generate_training_metrics": True,
    "reuse_preconditioner": False, "eigh": False, "lr_schedule": False,
}
TF_DEFAULTS = {
    "graft": "RMSPROP", "graft_decay": 0.999, "start": 0, "graft_eps": 1e-23, "skip_gt": 4096, "skip_rank1": True,
    "min_dim_size_to_factor": 128, "clipping_threshold": 1.0,
    "merge_dims": 1024, "so_type": "SHAMPOO", "sh": {"block_size": 1024, "pf": 1, "sf": 1, "decay": 0.999},
    "sk": None, "mom_decay": 0.9, "ema": False, "nesterov": True, "wd": 0.0, "wd_after": True, "lr_schedule": False,
}
SK_DEFAULTS = {"rank": 2, "update_freq": 1, "decay": 0.999, "add_ggt": False, "ekfac": False, "lin_tail": False,
               "relative_epsilon": True, "epsilon": 1e-7, "alloc": None}

# ============================================================================ signatures (worker side)
PARAM_FIELDS = {("ShampooState", "stats"), ("ShardedShampooStats", "local_stats"), ("SM3State", "stats"),
                ("_ShampooState", "blocks"), ("_SketchyState", "sketches"), ("RMSPropAccumulator", "acc"),
                ("TraceState", "trace")}


def _sv(x):
    """static field value -> JSON-able canonical value"""
    import numpy as np
    if isinstance(x, (bool, np.bool_)):
        return bool(x)
    if isinstance(x, (int, np.integer)):
        return int(x)
    if isinstance(x, (list, tuple)):
        return [_sv(y) for y in x]
    if x is None:
        return "None"
    try:
        return np.dtype(x).name
    except Exception:  # noqa: BLE001
        return repr(x)[:60]


def _is_arr(x):
    return hasattr(x, "shape") and hasattr(x, "dtype")


def _leaf(x, mode):
    import numpy as np
    if mode == "state":
        if _is_arr(x):
            return ["L", [int(d) for d in x.shape], np.dtype(x.dtype).name]
        return ["X", type(x).__name__ + ":" + repr(x)[:40]]
    if mode == "decl":
        if isinstance(x, list) and len(x) == 2 and not isinstance(x[1], (list, tuple)):
            try:
                return ["L", [int(d) for d in x[0]], np.dtype(x[1]).name]
            except Exception:  # noqa: BLE001
                return None
        return None
    if mode == "pspec":
        from jax.sharding import PartitionSpec
        if isinstance(x, PartitionSpec):
            return ["P", ["" if e is None else str(e) for e in x]]
        return None
    raise ValueError(mode)


def _collapse_metrics(kids_sig):
    """all leaves of a metrics subtree uniform -> one representative leaf"""
    leaves = []

    def walk(s):
        if s[0] == "N":
            for k in s[3]:
                walk(k)
        else:
            leaves.append(s)
    for k in kids_sig:
        walk(k)
    if leaves and all(l == leaves[0] for l in leaves):
        return leaves[0]
    return None


def sig(x, ptd, mode="state"):
    """generic structural signature of a pytree: ["L", shape, dtype] | ["P", spec] | ["N", kind, static, kids].
    `ptd` = treedef of the parameters: fields that mirror the parameter tree are flattened up to it."""
    import dataclasses
    lf = _leaf(x, mode) if (mode != "state") else None
    if lf is not None:
        return lf
    if mode == "state" and _is_arr(x):
        return _leaf(x, mode)
    name = type(x).__name__
    if isinstance(x, tuple) and hasattr(x, "_fields"):
        kids = []
        for f in x._fields:
            v = getattr(x, f)
            isp = (name, f) in PARAM_FIELDS and type(v).__name__ != "ShardedShampooStats"
            kids.append(_psig(v, ptd, mode) if isp else sig(v, ptd, mode))
        return ["N", name, [], kids]
    if dataclasses.is_dataclass(x) and not isinstance(x, type):
        static, kids = [], []
        for f in dataclasses.fields(x):
            v = getattr(x, f.name)
            if f.metadata.get("pytree_node", True):
                kids.append(_psig(v, ptd, mode) if (name, f.name) in PARAM_FIELDS else sig(v, ptd, mode))
            else:
                static.append(_sv(v))
        if name in ("TrainingMetrics",):
            fd = kids[-1]
            rep = _collapse_metrics(kids[:-1])
            if rep is not None:
                if fd[0] == "N" and fd[1] == "FDDiagnostics":
                    r2 = _collapse_metrics(fd[3])
                    if r2 is not None:
                        fd = ["N", "FDDiagnostics", [], [r2]]
                return ["N", name, static, [rep, fd]]
        return ["N", name, static, kids]
    if isinstance(x, dict):
        ks = sorted(x)
        return ["N", "dict", [str(k) for k in ks], [sig(x[k], ptd, mode) for k in ks]]
    if isinstance(x, (list, tuple)):
        return ["N", name, [], [sig(v, ptd, mode) for v in x]]
    if x is None:
        return ["N", "None", [], []]
    if mode == "state":
        return _leaf(x, mode)
    return ["X", name + ":" + repr(x)[:40]]


def _psig(v, ptd, mode):
    try:
        subs = ptd.flatten_up_to(v)
    except Exception as e:  # noqa: BLE001
        return ["X", "not-param-shaped:" + type(e).__name__]
    return ["N", "ptree", [], [sig(s, ptd, mode) for s in subs]]


def _leaves_sd(tree):
    import jax
    import numpy as np
    out = []
    for l in jax.tree_util.tree_leaves(tree):
        if _is_arr(l):
            out.append((tuple(int(d) for d in l.shape), np.dtype(l.dtype).name))
        else:
            out.append(("py", type(l).__name__))
    return out


# ============================================================================ exception classification
def classify(e):
    """('reject'|'internal', class name, message, where)"""
    import traceback
    tb = e.__traceback__
    last = None
    while tb is not None:
        last = tb
        tb = tb.tb_next
    fname = last.tb_frame.f_code.co_filename if last else ""
    src = os.path.realpath(kit.repo_src())
    inside = os.path.realpath(fname).startswith(src + os.sep)
    msg = str(e)
    cls = type(e).__name__
    where = f"{os.path.basename(fname)}:{last.tb_lineno if last else 0}"
    ok_cls = type(e) in (ValueError, NotImplementedError, AssertionError)
    if ok_cls and inside and (msg.strip() != "" or type(e) is NotImplementedError and False):
        return "reject", cls, msg[:200], where
    return "internal", cls, msg[:200], where + " | " + traceback.format_exception_only(type(e), e)[-1][:120]


def _dtype_type_error(e):
    """a jax TypeError about branch / carry types that differ in dtype only (two float dtypes named, no shape complaint)"""
    import re
    if type(e).__name__ != "TypeError":
        return False
    msg = str(e)
    toks = re.findall(r"(bfloat16|float16|float32|float64)\[([^\]]*)\]", msg)
    names = {t[0] for t in toks}
    if len(names) < 2:
        return False
    by_shape = {}
    for n, sh in toks:
        by_shape.setdefault(sh, set()).add(n)
    same_shape_two_dtypes = any(len(v) >= 2 for v in by_shape.values())
    return same_shape_two_dtypes and "shapes do not match" not in msg


# ============================================================================ building the real optimizers
def _container(arrs, kind):
    """one pytree container layout for parameters and for everything that mirrors them (memory_alloc)"""
    if kind == "dict" or not arrs:
        return {f"p{i}": a for i, a in enumerate(arrs)}
    if kind == "list":
        return list(arrs)
    # nested
    return {"a": {"w": arrs[0]}, "rest": list(arrs[1:])}


def build_tree(shapes, kind, dtype="float32"):
    import jax.numpy as jnp
    return _container([jnp.full(tuple(s), 0.5, jnp.dtype(dtype)) for s in shapes], kind)


def _ds_kwargs(cfg):
    from precondition import distributed_shampoo as ds
    from jax.sharding import PartitionSpec as P
    import jax.numpy as jnp
    c = dict(DS_DEFAULTS)
    c.update(cfg)
    kw = {k: v for k, v in c.items() if k not in ("lr_schedule", "graft_type", "precondtioner_type")}
    kw["graft_type"] = getattr(ds.GraftingType, c["graft_type"])
    kw["precondtioner_type"] = getattr(ds.PreconditionerType, c["precondtioner_type"])
    if c["shard_optimizer_states"]:
        kw["statistics_partition_spec"] = P("x", None, None)
        kw["preconditioner_partition_spec"] = P("x", None, None)
    lr = (lambda step: 0.1 / (1.0 + jnp.asarray(step, jnp.float32))) if c["lr_schedule"] else 0.1
    return lr, kw


def _grads(params, t, seed):
    import jax
    import numpy as np
    import jax.numpy as jnp
    leaves, td = jax.tree_util.tree_flatten(params)
    rs = np.random.RandomState((seed * 31 + t) % (2 ** 31))
    return jax.tree_util.tree_unflatten(td, [jnp.asarray(np.asarray(rs.randn(*l.shape), np.float32)).astype(l.dtype) for l in leaves])


def _compare_state(tag, s0, s1, fails):
    import jax
    t0, t1 = jax.tree_util.tree_structure(s0), jax.tree_util.tree_structure(s1)
    if t0 != t1:
        fails.append(f"{tag}: tree structure of the state differs from the initial state's: {str(t1)[:300]} vs {str(t0)[:300]}")
        return
    a, b = _leaves_sd(s0), _leaves_sd(s1)
    for only_shape in (True, False):     # report a shape change before a dtype change
        for i, (x, y) in enumerate(zip(a, b)):
            if (x[0] != y[0]) if only_shape else (x != y):
                path = jax.tree_util.keystr(jax.tree_util.tree_leaves_with_path(s0)[i][0])
                fails.append(("DTYPE " if x[0] == y[0] else "") + f"{tag}: state leaf {path} is {y}, initially {x}")
                return


def _compare_update(tag, u, params, fails):
    import jax
    tu, tp = jax.tree_util.tree_structure(u), jax.tree_util.tree_structure(params)
    if tu != tp:
        fails.append(f"{tag}: update tree structure {str(tu)[:200]} differs from the parameters' {str(tp)[:200]}")
        return
    pairs = list(zip(_leaves_sd(u), _leaves_sd(params)))
    for only_shape in (True, False):
        for (x, y) in pairs:
            if (x[0] != y[0]) if only_shape else (x != y):
                fails.append(("DTYPE " if x[0] == y[0] else "") + f"{tag}: update leaf is {x}, parameter is {y}")
                return


def _decl_leaf_pred(mode):
    return lambda x: _leaf(x, mode) is not None


def _param_pspec(ndim, style):
    """entries of a parameter's PartitionSpec: one per dimension | P() | P(None) (P() for scalars)"""
    if style == "empty":
        return []
    if style == "none1":
        return [None] if ndim >= 1 else []
    return [None] * ndim


def _check_sharded_decl(opt_init, params, state, ptd, fails, out, style="full"):
    """init state vs shape_and_dtype_fn vs pspec_fn"""
    import jax
    from jax.sharding import PartitionSpec as P
    decl = opt_init.shape_and_dtype_fn(params)
    pps = jax.tree.map(lambda p: P(*_param_pspec(p.ndim, style)), params)
    spec = opt_init.pspec_fn(params, pps, P("x", None, None))
    out["decl_sig"] = sig(decl, ptd, "decl")
    out["pspec_sig"] = sig(spec, ptd, "pspec")
    ts = jax.tree_util.tree_structure(state)
    td_ = jax.tree_util.tree_structure(decl, is_leaf=_decl_leaf_pred("decl"))
    tp_ = jax.tree_util.tree_structure(spec, is_leaf=_decl_leaf_pred("pspec"))
    if ts != td_:
        fails.append(f"sharded: declared shape/dtype tree structure differs from the initial state's: {str(td_)[:300]} vs {str(ts)[:300]}")
    else:
        dl = [_leaf(x, "decl") for x in jax.tree_util.tree_leaves(decl, is_leaf=_decl_leaf_pred("decl"))]
        for i, ((shape, dt), d) in enumerate(zip(_leaves_sd(state), dl)):
            if d is None or tuple(d[1]) != shape or d[2] != dt:
                path = jax.tree_util.keystr(jax.tree_util.tree_leaves_with_path(state)[i][0])
                dtype_only = d is not None and tuple(d[1]) == shape
                fails.append(("DTYPE " if dtype_only else "") + f"sharded: leaf {path} initialised as {(shape, dt)} but declared {d}")
                break
    if ts != tp_:
        fails.append(f"sharded: partition-spec tree structure differs from the initial state's: {str(tp_)[:300]} vs {str(ts)[:300]}")
    else:
        pl = jax.tree_util.tree_leaves(spec, is_leaf=_decl_leaf_pred("pspec"))
        for i, ((shape, _dt), p) in enumerate(zip(_leaves_sd(state), pl)):
            if not isinstance(p, P) or len(p) > len(shape):
                path = jax.tree_util.keystr(jax.tree_util.tree_leaves_with_path(state)[i][0])
                fails.append(f"sharded: leaf {path} of rank {len(shape)} has partition spec {p}")
                break


def _scan_check(update, state, params, grads, fails, tag):
    """the state must be usable as a lax.scan carry (traced only)"""
    import jax
    import jax.numpy as jnp
    gs = jax.tree.map(lambda *xs: jnp.stack(xs), *grads)

    def body(s, g):
        _u, s2 = update(g, s, params)
        return s2, None
    try:
        jax.eval_shape(lambda s, g: jax.lax.scan(body, s, g, length=len(grads))[0], state, gs)
    except Exception as e:  # noqa: BLE001
        kind, cls, msg, where = classify(e)
        fails.append(("DTYPE " if _dtype_type_error(e) else "") + f"{tag}: state rejected as jax.lax.scan carry: {cls}: {msg[:160]}")


def run_ds(case, out):
    import contextlib
    import jax
    import jax.numpy as jnp
    import numpy as np
    from jax.sharding import Mesh
    from precondition import distributed_shampoo as ds
    cfg = case["cfg"]
    c = dict(DS_DEFAULTS)
    c.update(cfg)
    params = build_tree(case["shapes"], case.get("tree", "dict"), case.get("dtype", "float32"))
    ptd = jax.tree_util.tree_structure(params)
    fails = out["fails"]
    out["phase"] = "construct"
    lr, kw = _ds_kwargs(cfg)
    opt = ds.distributed_shampoo(lr, **kw)
    sharded = bool(c["shard_optimizer_states"])
    pmap = bool(c["batch_axis_name"]) and not sharded
    mesh = Mesh(np.array(jax.devices()[:1]), ("x",)) if sharded else contextlib.nullcontext()
    with mesh:
        out["phase"] = "init"
        if sharded:
            fns = opt.init(params)
            state = fns.init_fn(params)
        else:
            state = opt.init(params)
        out["init_sig"] = sig(state, ptd)
        if sharded:
            out["phase"] = "decl"
            _check_sharded_decl(fns, params, state, ptd, fails, out, case.get("pspec", "full"))
        out["phase"] = "update"
        T = case.get("T", 3)
        grads = [_grads(params, t, case.get("gseed", 0)) for t in range(T)]
        if pmap:
            D = min(case.get("ndev", 1), jax.local_device_count())
            rep = lambda tree: jax.tree.map(lambda x: jnp.broadcast_to(x, (D,) + x.shape), tree)  # noqa: E731
            upd = jax.pmap(opt.update, axis_name=c["batch_axis_name"])
            st, prm = rep(state), rep(params)
            unrep = lambda tree: jax.tree.map(lambda x: jax.ShapeDtypeStruct(tuple(x.shape[1:]), x.dtype), tree)  # noqa: E731
            # trace first (no XLA compilation): layout of the outputs, and every Python-level exception
            u_s, st_s = jax.eval_shape(upd, rep(grads[0]), st, prm)
            _compare_state("update 1 (traced)", state, unrep(st_s), fails)
            _compare_update("update 1 (traced)", unrep(u_s), params, fails)
            out["post_sig_equal"] = sig(unrep(st_s), ptd) == out["init_sig"]
            out["update_sig"] = [_leaf(x, "state") for x in jax.tree_util.tree_leaves(unrep(u_s))]
            has_stats = any(len(ps.statistics) > 0 for ps in ptd.flatten_up_to(state.stats))
            # jaxlib's CPU compiler segfaults on a multi-device pmap of a program without any statistics
            # (no collective left after tracing; see corpus/reproducers/d15_trace_only.py): execute only otherwise
            out["executed"] = bool(D == 1 or has_stats)
            if out["executed"]:
                for t in range(T):
                    u, st = upd(rep(grads[t]), st, prm)
                    un = jax.tree.map(lambda x: x[0], st)
                    _compare_state(f"update {t + 1}", state, un, fails)
                    _compare_update(f"update {t + 1}", jax.tree.map(lambda x: x[0], u), params, fails)
        else:
            upd = jax.jit(opt.update) if case.get("jit", True) else opt.update
            st = state
            for t in range(T):
                u, st = upd(grads[t], st, params)
                _compare_state(f"update {t + 1}", state, st, fails)
                _compare_update(f"update {t + 1}", u, params, fails)
                if t == 0:
                    out["post_sig_equal"] = sig(st, ptd) == out["init_sig"]
                    out["update_sig"] = [_leaf(x, "state") for x in jax.tree_util.tree_leaves(u)]
            if case.get("scan", True):
                _scan_check(opt.update, state, params, grads, fails, "scan")
    out["phase"] = "done"


def run_sm3(case, out):
    import jax
    from precondition import sm3
    cfg = case["cfg"]
    params = build_tree(case["shapes"], case.get("tree", "dict"), case.get("dtype", "float32"))
    ptd = jax.tree_util.tree_structure(params)
    fails = out["fails"]
    out["phase"] = "construct"
    opt = sm3.sm3(0.1, beta1=cfg.get("beta1", 0.9), beta2=cfg.get("beta2", 0.999), weight_decay=cfg.get("weight_decay", 0.0),
                  normalize_grads=cfg.get("normalize_grads", False))
    out["phase"] = "init"
    state = opt.init(params)
    out["init_sig"] = sig(state, ptd)
    out["phase"] = "update"
    T = case.get("T", 3)
    grads = [_grads(params, t, case.get("gseed", 0)) for t in range(T)]
    upd = jax.jit(opt.update) if case.get("jit", True) else opt.update
    st = state
    for t in range(T):
        u, st = upd(grads[t], st, params)
        _compare_state(f"update {t + 1}", state, st, fails)
        _compare_update(f"update {t + 1}", u, params, fails)
    _scan_check(opt.update, state, params, grads, fails, "scan")
    out["phase"] = "done"


def _tf_memory_alloc(params, rank):
    import jax
    return jax.tree.map(lambda p: [rank] * max(p.ndim, 1), params)


def build_tf(cfg, kind="dict"):
    from precondition.tearfree import optimizer as tfo, grafting, second_order, shampoo as tfs, sketchy as tfk, momentum as tfm
    import jax.numpy as jnp
    c = dict(TF_DEFAULTS)
    c.update(cfg)
    sh = None
    if c["sh"] is not None:
        sh = tfs.Options(block_size=c["sh"]["block_size"], update_preconditioners_freq=c["sh"]["pf"],
                         update_statistics_freq=c["sh"]["sf"], second_moment_decay=c["sh"]["decay"])
    sk = None
    if c["sk"] is not None:
        k = dict(SK_DEFAULTS)
        k.update(c["sk"])
        sk = tfk.Options(epsilon=k["epsilon"], rank=k["rank"], relative_epsilon=k["relative_epsilon"],
                         second_moment_decay=k["decay"], update_freq=k["update_freq"], add_ggt=k["add_ggt"],
                         memory_alloc=(_container([list(r) for r in k["alloc"]], kind) if k.get("alloc") is not None else None),
                         ekfac_svd=k["ekfac"], linear_approx_tail=k["lin_tail"])
    so = second_order.Options(merge_dims=c["merge_dims"], second_order_type=getattr(second_order.SecondOrderType, c["so_type"]),
                              shampoo_options=sh, sketchy_options=sk)
    go = grafting.Options(grafting_type=getattr(grafting.GraftingType, c["graft"]), second_moment_decay=c["graft_decay"],
                          start_preconditioning_step=c["start"], epsilon=c["graft_eps"],
                          skip_preconditioning_any_dim_gt=c["skip_gt"], skip_preconditioning_rank1=c["skip_rank1"],
                          min_dim_size_to_factor=c["min_dim_size_to_factor"], clipping_threshold=c["clipping_threshold"])
    mo = tfm.Options(ema=c["ema"], nesterov=c["nesterov"], momentum_decay=c["mom_decay"], weight_decay=c["wd"],
                     weight_decay_after_momentum=c["wd_after"])
    lr = (lambda step: 0.1 / (1.0 + jnp.asarray(step, jnp.float32))) if c["lr_schedule"] else 0.1
    return tfo.tearfree(lr, tfo.TearfreeOptions(grafting_options=go, second_order_options=so, momentum_options=mo))


def run_tf(case, out):
    import contextlib
    import io
    import jax
    cfg = case["cfg"]
    params = build_tree(case["shapes"], case.get("tree", "dict"), case.get("dtype", "float32"))
    ptd = jax.tree_util.tree_structure(params)
    fails = out["fails"]
    with contextlib.redirect_stdout(io.StringIO()):
        out["phase"] = "construct"
        opt = build_tf(cfg, case.get("tree", "dict"))
        out["phase"] = "init"
        state = opt.init(params)
        out["init_sig"] = sig(state, ptd)
        out["phase"] = "update"
        T = case.get("T", 3)
        grads = [_grads(params, t, case.get("gseed", 0)) for t in range(T)]
        upd = jax.jit(opt.update) if case.get("jit", True) else opt.update
        st = state
        for t in range(T):
            u, st = upd(grads[t], st, params)
            _compare_state(f"update {t + 1}", state, st, fails)
            _compare_update(f"update {t + 1}", u, params, fails)
        _scan_check(opt.update, state, params, grads, fails, "scan")
    out["phase"] = "done"


def run_case(case):
    import jax
    out = {"case": case, "fails": [], "phase": "start"}
    x64 = case.get("dtype") == "float64"
    if x64:
        jax.config.update("jax_enable_x64", True)
    try:
        {"ds": run_ds, "sm3": run_sm3, "tf": run_tf}[case["opt"]](case, out)
        out["outcome"] = {"kind": "ok"}
    except Exception as e:  # noqa: BLE001
        kind, cls, msg, where = classify(e)
        ph = out["phase"]
        out["outcome"] = {"kind": kind, "phase": "init" if ph == "decl" else ph, "raw_phase": ph, "cls": cls, "msg": msg, "where": where,
                          "dtype_only": _dtype_type_error(e)}
    finally:
        if x64:
            jax.config.update("jax_enable_x64", False)
    return out


def worker(chunk):
    import warnings
    warnings.filterwarnings("ignore")
    import logging
    logging.disable(logging.CRITICAL)
    import jax
    jax.config.update("jax_traceback_filtering", "off")
    try:
        from absl import logging as alog
        alog.set_verbosity(alog.FATAL)
    except Exception:  # noqa: BLE001
        pass
    res = []
    for case in chunk:
        try:
            res.append(run_case(case))
        finally:
            try:
                jax.clear_caches()
            except Exception:  # noqa: BLE001
                pass
    return res


# ============================================================================ case generation
DIMS = [1, 1, 2, 2, 3, 3, 4, 4, 5, 6, 6, 7, 8, 11, 12]


def gen_shapes(rng, max_elems=300, allow_empty=True, ranks=(0, 1, 1, 2, 2, 2, 2, 3, 3, 4)):
    if allow_empty and rng.random() < 0.04:
        return []
    n = rng.choice([1, 1, 2, 2, 3])
    out = []
    for _ in range(n):
        while True:
            r = rng.choice(ranks)
            s = [rng.choice(DIMS) for _ in range(r)]
            e = 1
            for d in s:
                e *= d
            if e <= max_elems:
                break
        out.append(s)
    return out


def gen_ds_cfg(rng):
    c = {}

    def maybe(k, vals, p=0.5):
        if rng.random() < p:
            c[k] = rng.choice(vals)
    c["block_size"] = rng.choice([0, 1, 2, 3, 4, 4, 5, 8, 8, 16, 128])
    maybe("beta1", [0.0, 0.5], 0.3)
    maybe("beta2", [1.0, 0.5, 0.9], 0.5)
    maybe("matrix_epsilon", [0.0, 1e-3], 0.15)
    maybe("weight_decay", [0.01], 0.3)
    c["start_preconditioning_step"] = rng.choice([0, 1, 1, 2, 5])
    c["preconditioning_compute_steps"] = rng.choice([1, 1, 1, 2, 3])
    c["statistics_compute_steps"] = rng.choice([1, 1, 1, 2, 3])
    maybe("decay_preconditioning_compute_steps", [True], 0.2)
    maybe("end_preconditioning_compute_steps", [4, 20], 0.2)
    maybe("lr_schedule", [True], 0.3)
    maybe("best_effort_shape_interpretation", [False], 0.35)
    maybe("merge_small_dims_block_size", [4, 8, 16], 0.4)
    c["graft_type"] = rng.choice(GRAFTS)
    maybe("nesterov", [False], 0.4)
    maybe("exponent_override", [2, 3], 0.15)
    maybe("moving_average_for_momentum", [True], 0.3)
    maybe("skip_preconditioning_dim_size_gt", [3, 6], 0.2)
    maybe("clip_by_scaled_gradient_norm", [1.0], 0.2)
    maybe("relative_matrix_epsilon", [False], 0.3)
    maybe("lobpcg_topk_precondition", [1, 1, 2], 0.2)
    maybe("lobpcg_max_iter", [3], 0.2)
    c["precondtioner_type"] = rng.choice(PTYPES)
    maybe("generate_training_metrics", [False], 0.35)
    maybe("skip_preconditioning_rank_lt", [0, 2, 2, 3], 0.45)
    maybe("decoupled_learning_rate", [False], 0.3)
    maybe("decoupled_weight_decay", [True], 0.3)
    maybe("eigh", [True], 0.35)
    maybe("best_effort_memory_usage_reduction", [True], 0.35)
    mode = rng.choice(["replicated", "replicated", "pmap", "sharded", "sharded"])
    if mode == "pmap":
        c["batch_axis_name"] = "batch"
    if mode == "sharded":
        c["shard_optimizer_states"] = True
        c["num_devices_for_pjit"] = rng.choice([1, 2, 3]) if rng.random() < 0.92 else rng.choice([None, 0])
        if rng.random() < 0.3:   # pmap-mode option inside pjit mode (D22)
            c["batch_axis_name"] = "batch"
    if rng.random() < 0.35:  # frequent-directions family, mostly with its required companions
        c["frequent_directions"] = True
        c["compression_rank"] = rng.choice([1, 1, 2, 2, 3]) if rng.random() < 0.93 else rng.choice([0, -1])
        if rng.random() < 0.93:
            c["reuse_preconditioner"] = True
        if rng.random() < 0.93:
            c["statistics_compute_steps"] = c["preconditioning_compute_steps"]
        maybe("average_grad", [True], 0.5)
        maybe("reset_preconditioner", [True], 0.35)
        maybe("generate_fd_metrics", [True], 0.5)
        c["block_size"] = rng.choice([4, 5, 8, 8, 16, 128])
        c.pop("lobpcg_topk_precondition", None) if rng.random() < 0.7 else None
    else:
        maybe("compression_rank", [1, 2, -1, -2, 1, 3], 0.4)
        maybe("reuse_preconditioner", [True], 0.3)
        maybe("generate_fd_metrics", [True], 0.2)
        maybe("average_grad", [True], 0.04)
        maybe("reset_preconditioner", [True], 0.04)
    return c, mode


def gen_tf_cfg(rng):
    """mostly valid configurations; with probability ~0.3 one or two invalid options are injected"""
    c = {}
    c["graft"] = rng.choice(["NONE", "SGD", "RMSPROP", "RMSPROP", "ADAFACTOR"])
    c["graft_decay"] = {"NONE": 0.0, "SGD": 0.0, "RMSPROP": rng.choice([0.9, 1.0]), "ADAFACTOR": 0.9}[c["graft"]]
    c["start"] = rng.choice([0, 1, 2])
    c["skip_gt"] = rng.choice([4096, 4096, 6])
    c["skip_rank1"] = rng.random() < 0.7
    c["merge_dims"] = rng.choice([2, 2, 3, 4, 8, 16, 1024])
    c["so_type"] = rng.choice(["SHAMPOO", "SKETCHY"])
    if c["so_type"] == "SHAMPOO":
        c["sh"] = {"block_size": rng.choice([2, 2, 3, 4, 4, 8, 1024]), "pf": rng.choice([1, 1, 2, 3]),
                   "sf": rng.choice([1, 1, 2, 3]), "decay": rng.choice([1.0, 0.999, 0.0, 0.5])}
        c["sk"] = None
    else:
        c["sh"] = None if rng.random() < 0.5 else dict(TF_DEFAULTS["sh"])
        c["sk"] = {"rank": rng.choice([1, 1, 2, 2, 3, 8]), "update_freq": rng.choice([1, 1, 2, 3]),
                   "decay": rng.choice([1.0, 0.999, 0.0, 0.5]), "add_ggt": rng.random() < 0.3, "ekfac": rng.random() < 0.3,
                   "lin_tail": rng.random() < 0.3, "relative_epsilon": rng.random() < 0.7, "epsilon": rng.choice([1e-7, 0.0])}
    c["mom_decay"] = rng.choice([0.9, 0.9, 0.0, 1.0, 0.5])
    c["ema"] = rng.random() < 0.4
    c["nesterov"] = rng.random() < 0.6
    c["wd"] = rng.choice([0.0, 0.0, 0.1])
    c["wd_after"] = rng.random() < 0.6
    c["lr_schedule"] = rng.random() < 0.3
    if rng.random() < 0.3:
        for _ in range(rng.choice([1, 1, 2])):
            bad = rng.choice(["graft_decay", "graft_eps", "min_dim", "clip", "merge_dims", "sh_none", "sh_block", "sh_pf", "sh_sf",
                              "sh_decay", "sk_none", "sk_rank", "sk_freq", "sk_decay", "mom", "wd"])
            if bad == "graft_decay":
                c["graft_decay"] = rng.choice([0.0, 1.0, 1.5, -0.5])
            elif bad == "graft_eps":
                c["graft_eps"] = -1.0
            elif bad == "min_dim":
                c["min_dim_size_to_factor"] = 0
            elif bad == "clip":
                c["clipping_threshold"] = 0.5
            elif bad == "merge_dims":
                c["merge_dims"] = rng.choice([0, 1])
            elif bad == "sh_none" and c["so_type"] == "SHAMPOO":
                c["sh"] = None
            elif bad == "sk_none" and c["so_type"] == "SKETCHY":
                c["sk"] = None
            elif bad in ("sh_none", "sk_none"):
                pass
            elif bad.startswith("sh_") and c["sh"] is not None:
                c["sh"] = dict(c["sh"])
                c["sh"][{"sh_block": "block_size", "sh_pf": "pf", "sh_sf": "sf", "sh_decay": "decay"}[bad]] = \
                    {"sh_block": rng.choice([0, 1]), "sh_pf": 0, "sh_sf": rng.choice([0, -1]), "sh_decay": rng.choice([1.5, -0.1])}[bad]
            elif bad.startswith("sk_") and c["sk"] is not None:
                c["sk"] = dict(c["sk"])
                c["sk"][{"sk_rank": "rank", "sk_freq": "update_freq", "sk_decay": "decay"}[bad]] = \
                    {"sk_rank": rng.choice([0, -1]), "sk_freq": 0, "sk_decay": rng.choice([1.5, -0.1])}[bad]
            elif bad == "mom":
                c["mom_decay"] = rng.choice([1.5, -0.1])
            elif bad == "wd":
                c["wd"] = -0.1
    return c


def load_corpus():
    d = os.path.join(kit.ROOT, "corpus", "C07")
    out = []
    if os.path.isdir(d):
        for f in sorted(os.listdir(d)):
            if f.endswith(".json"):
                data = json.load(open(os.path.join(d, f)))
                for w in data.get("cases", []):
                    c = dict(w["case"])
                    c["corpus"] = w.get("id", f)
                    out.append(c)
    return out


def gen_cases(tier, seed):
    rng = random.Random(seed * 104729 + 7)
    cases = load_corpus()
    n_ds, n_tf, n_sm3 = (190, 60, 24) if tier == "quick" else (1500, 420, 120)
    gid = 0
    for _ in range(n_ds):
        gid += 1
        cfg, mode = gen_ds_cfg(rng)
        case = {"opt": "ds", "cfg": cfg, "shapes": gen_shapes(rng), "tree": rng.choice(["dict", "dict", "list", "nested"]),
                "gseed": seed * 1000 + gid}
        if mode == "pmap":
            case["ndev"] = rng.choice([1, 2])
        if mode == "sharded":
            case["pspec"] = rng.choice(["full", "full", "empty", "none1"])
            u = rng.random()
            if u < 0.2:
                # the largest block lies on a dimension that the preconditioner type does NOT precondition
                pt = rng.choice(["INPUT", "OUTPUT"])
                big = rng.choice([8, 10, 12])
                small = rng.choice([2, 3])
                cfg.update({"precondtioner_type": pt, "best_effort_shape_interpretation": False,
                            "block_size": rng.choice([12, 16, 128]), "num_devices_for_pjit": rng.choice([2, 3])})
                cfg.pop("skip_preconditioning_dim_size_gt", None)
                case["shapes"] = [[small, big] if pt == "INPUT" else [big, small]] + gen_shapes(rng, 60, allow_empty=False)[:1]
            elif u < 0.4:
                # a skipped parameter of rank >= 1 precedes a preconditioned one in flatten order
                if rng.random() < 0.5:
                    cfg["skip_preconditioning_rank_lt"] = 2
                    first = [rng.choice([3, 5, 7])]
                else:
                    cfg["skip_preconditioning_dim_size_gt"] = 6
                    first = rng.choice([[7], [2, 7], [8, 2]])
                cfg["num_devices_for_pjit"] = rng.choice([2, 3])
                case["shapes"] = [first, rng.choice([[4, 3], [3, 3], [2, 5]])] + gen_shapes(rng, 60, allow_empty=False)[:rng.choice([0, 1])]
                case["tree"] = "dict"
        cases.append(case)
    for _ in range(n_tf):
        gid += 1
        cfg, shapes = gen_tf_cfg(rng), gen_shapes(rng, 200)
        if cfg.get("sk") is not None and shapes and rng.random() < 0.45:
            # memory_alloc as reallocation.create_redist_dict writes it: one list of per-axis ranks per parameter
            cfg["sk"] = dict(cfg["sk"])
            cfg["sk"]["alloc"] = [[rng.choice([1, 1, 2, 3, 5]) for _ in range(max(len(sh), 1))] for sh in shapes]
        cases.append({"opt": "tf", "cfg": cfg, "shapes": shapes, "tree": rng.choice(["dict", "list", "nested"]),
                      "gseed": seed * 1000 + gid})
    for _ in range(n_sm3):
        gid += 1
        cases.append({"opt": "sm3", "cfg": {"beta1": rng.choice([0.9, 0.0, 1.0]), "beta2": rng.choice([0.999, 1.0]),
                                             "weight_decay": rng.choice([0.0, 0.1]), "normalize_grads": rng.random() < 0.3},
                      "shapes": gen_shapes(rng, 300, ranks=(0, 1, 1, 2, 2, 3, 4)), "tree": rng.choice(["dict", "list", "nested"]),
                      "gseed": seed * 1000 + gid})
    # ---- parameter dtypes other than float32 (known finding K7): a small separate stream, oracle only
    n_dt = 12 if tier == "quick" else 60
    for i in range(n_dt):
        gid += 1
        dt = ["bfloat16", "float16", "bfloat16", "float64"][i % 4]
        opt = ["ds", "sm3", "tf", "ds", "tf"][i % 5]
        shapes = [s for s in gen_shapes(rng, 120, allow_empty=False, ranks=(1, 2, 2, 3)) if s]
        if opt == "ds":
            cfg = {"block_size": rng.choice([4, 8]), "graft_type": rng.choice(GRAFTS), "eigh": rng.random() < 0.5,
                   "best_effort_memory_usage_reduction": rng.random() < 0.3}
            if rng.random() < 0.3:
                cfg.update({"shard_optimizer_states": True, "num_devices_for_pjit": 2})
        elif opt == "tf":
            cfg = {"merge_dims": rng.choice([2, 4, 1024]), "graft": rng.choice(["SGD", "RMSPROP", "NONE"]),
                   "graft_decay": 0.9}
            cfg["graft_decay"] = 0.0 if cfg["graft"] != "RMSPROP" else 0.9
            if rng.random() < 0.5:
                cfg.update({"so_type": "SKETCHY", "sk": {"rank": 2}})
            else:
                cfg["sh"] = {"block_size": 4, "pf": 1, "sf": 1, "decay": 0.999}
        else:
            cfg = {}
        cases.append({"opt": opt, "cfg": cfg, "shapes": shapes, "tree": "dict", "gseed": seed * 1000 + gid, "dtype": dt})
    return cases


# ============================================================================ model requests / comparison
def _rat(x):
    from fractions import Fraction
    return kit.rat_str(Fraction(str(x)))


def model_request(case, k=3):
    if case["opt"] == "ds":
        c = dict(DS_DEFAULTS)
        c.update(case["cfg"])
        sharded = bool(c["shard_optimizer_states"])
        cfg = {
            "block_size": max(int(c["block_size"]), 0), "best_effort_shape_interpretation": bool(c["best_effort_shape_interpretation"]),
            "merge_small_dims_block_size": int(c["merge_small_dims_block_size"]),
            "graft_has_diag": c["graft_type"] not in ("SGD", "SQRT_N", "NONE"),
            "batch_axis": bool(c["batch_axis_name"]), "shard": sharded, "ndev": max(int(c["num_devices_for_pjit"] or 0), 0),
            "best_effort_memory_usage_reduction": bool(c["best_effort_memory_usage_reduction"]),
            "skip_preconditioning_dim_size_gt": int(c["skip_preconditioning_dim_size_gt"]),
            "skip_preconditioning_rank_lt": int(c["skip_preconditioning_rank_lt"]),
            "lobpcg_topk_precondition": int(c["lobpcg_topk_precondition"]), "precondtioner_type": c["precondtioner_type"],
            "generate_fd_metrics": bool(c["generate_fd_metrics"]), "generate_training_metrics": bool(c["generate_training_metrics"]),
            "compression_rank": int(c["compression_rank"]), "frequent_directions": bool(c["frequent_directions"]),
            "reset_preconditioner": bool(c["reset_preconditioner"]), "average_grad": bool(c["average_grad"]),
            "reuse_preconditioner": bool(c["reuse_preconditioner"]), "eigh": bool(c["eigh"]),
            "statistics_compute_steps": int(c["statistics_compute_steps"]),
            "preconditioning_compute_steps": int(c["preconditioning_compute_steps"]),
            "scheduled": bool(c["decay_preconditioning_compute_steps"] and c["end_preconditioning_compute_steps"] and c["lr_schedule"]),
        }
        r = {"op": "ds", "cfg": cfg, "shapes": case["shapes"], "k": k}
        if sharded:
            r["pspecs"] = [["" for _ in _param_pspec(len(s), case.get("pspec", "full"))] for s in case["shapes"]]
            r["stat_spec"] = ["x", "", ""]
        return r
    if case["opt"] == "sm3":
        return {"op": "sm3", "shapes": case["shapes"], "k": k}
    c = dict(TF_DEFAULTS)
    c.update(case["cfg"])
    cfg = {"graft": c["graft"], "graft_decay": _rat(c["graft_decay"]), "graft_eps": _rat(c["graft_eps"]), "skip_gt": int(c["skip_gt"]),
           "skip_rank1": bool(c["skip_rank1"]), "min_dim_size_to_factor": int(c["min_dim_size_to_factor"]),
           "clipping_threshold": _rat(c["clipping_threshold"]), "merge_dims": int(c["merge_dims"]), "so_type": c["so_type"],
           "sh": None, "sk": None, "mom_decay": _rat(c["mom_decay"]), "ema": bool(c["ema"]), "wd": _rat(c["wd"]),
           "wd_after": bool(c["wd_after"]), "lr_schedule": bool(c["lr_schedule"])}
    if c["sh"] is not None:
        cfg["sh"] = {"block_size": int(c["sh"]["block_size"]), "pf": int(c["sh"]["pf"]), "sf": int(c["sh"]["sf"]), "decay": _rat(c["sh"]["decay"])}
    if c["sk"] is not None:
        k_ = dict(SK_DEFAULTS)
        k_.update(c["sk"])
        cfg["sk"] = {"rank": int(k_["rank"]), "update_freq": int(k_["update_freq"]), "decay": _rat(k_["decay"]),
                     "add_ggt": bool(k_["add_ggt"]), "ekfac": bool(k_["ekfac"]),
                     "alloc": ([[int(x) for x in r] for r in k_["alloc"]] if k_.get("alloc") is not None else None)}
    return {"op": "tf", "cfg": cfg, "shapes": case["shapes"], "k": k}


def _opaque_adafactor(s):
    """optax's adafactor state is outside the model: GraftingState.norm -> opaque node"""
    try:
        g = s[3][0]
        if g[0] == "N" and g[1] == "GraftingState":
            g = list(g)
            kids = list(g[3])
            kids[2] = ["N", "opaque", [], []]
            g[3] = kids
            s = list(s)
            top = list(s[3])
            top[0] = g
            s[3] = top
    except Exception:  # noqa: BLE001
        pass
    return s


def _first_diff(a, b, path="$"):
    if type(a) is not type(b):
        return f"{path}: {json.dumps(a)[:120]} vs {json.dumps(b)[:120]}"
    if isinstance(a, list):
        if len(a) != len(b):
            return f"{path}: length {len(a)} vs {len(b)}: {json.dumps(a)[:160]} vs {json.dumps(b)[:160]}"
        for i, (x, y) in enumerate(zip(a, b)):
            d = _first_diff(x, y, f"{path}[{i}]")
            if d:
                return d
        return None
    return None if a == b else f"{path}: {a!r} vs {b!r}"


def _mode(case):
    if case.get("dtype", "float32") != "float32":
        return "dtype"
    if case["opt"] != "ds":
        return case["opt"]
    c = case["cfg"]
    return "ds.sharded" if c.get("shard_optimizer_states") else ("ds.pmap" if c.get("batch_axis_name") else "ds.replicated")


def compare(ctx, o, rep):
    case = o["case"]
    tag = _mode(case)
    oc, mo = o["outcome"], rep.get("outcome")
    if mo is None:
        ctx.disagree(tag + ".driver", case, oc, rep)
        return
    impl = (oc["kind"], oc.get("phase"), oc.get("cls") if oc["kind"] == "reject" else None)
    model = (mo["kind"], mo.get("phase"), mo.get("cls") if mo["kind"] == "reject" else None)
    ok = impl[0] == model[0]
    ctx.corr(tag + ".outcome_kind", ok)
    if not ok:
        ctx.disagree(tag + ".outcome_kind", case, oc, mo)
    if ok and oc["kind"] != "ok":
        ok2 = impl[1] == model[1]
        ctx.corr(tag + ".exception_phase", ok2)
        if not ok2:
            ctx.disagree(tag + ".exception_phase", case, oc, mo)
        if oc["kind"] == "reject":
            ok3 = impl[2] == model[2]
            ctx.corr(tag + ".exception_class", ok3)
            if not ok3:
                ctx.disagree(tag + ".exception_class", case, oc, mo)
    for key in ("init_sig", "decl_sig", "pspec_sig"):
        a, b = o.get(key), rep.get(key)
        if a is None or b is None:
            if (a is None) != (b is None) and ok and key == "init_sig":
                ctx.disagree(tag + "." + key, case, "present" if a is not None else None, "present" if b is not None else None,
                             "one side has no initial state")
            continue
        if key == "init_sig" and case["opt"] == "tf" and case["cfg"].get("graft", TF_DEFAULTS["graft"]) == "ADAFACTOR":
            a = _opaque_adafactor(a)
        d = _first_diff(a, b)
        ctx.corr(tag + "." + key, d is None)
        if d is not None:
            ctx.disagree(tag + "." + key, case, None, None, "impl vs model: " + d)
    if oc["kind"] == "ok" and mo["kind"] == "ok":
        pe = rep.get("post_equal")
        ctx.corr(tag + ".model_layout_fixpoint", pe is True)
        if pe is not True:
            ctx.disagree(tag + ".model_layout_fixpoint", case, o.get("post_sig_equal"), pe, "model layout changes under update")
        if "update_sig" in o and "update_leaves" in rep:
            d = _first_diff(o["update_sig"], rep["update_leaves"])
            ctx.corr(tag + ".update_leaves", d is None)
            if d is not None:
                ctx.disagree(tag + ".update_leaves", case, None, None, "impl vs model: " + d)


# ============================================================================ stages
def const_stage(ctx):
    """literals / defaults the model depends on"""
    src = "distributed_shampoo.py"
    lits = consts.func_literals(src, "_precond_dim")
    if lits.count(2) != 1:
        ctx.const_fail("precond_dim_plus_two", f"literals of _precond_dim are {lits}; the model stores |rank| + 2 columns")
    lits2 = consts.func_literals(src, "_should_compress")
    if 2 not in lits2 or 0 not in lits2:
        ctx.const_fail("should_compress_literals", f"literals of _should_compress are {lits2}")
    ctx.cov["constants"] = {"_precond_dim": lits, "_should_compress": lits2,
                            "defaults": {k: consts.func_default(src, "distributed_shampoo", k) for k in
                                         ("skip_preconditioning_rank_lt", "skip_preconditioning_dim_size_gt", "merge_small_dims_block_size",
                                          "compression_rank", "generate_training_metrics")}}
    for k, v in ctx.cov["constants"]["defaults"].items():
        if k in DS_DEFAULTS and DS_DEFAULTS[k] != v:
            ctx.const_fail("ds_default_" + k, f"default of {k} is {v!r}, the harness' table has {DS_DEFAULTS[k]!r}")


def _key(case):
    return json.dumps({k: case[k] for k in ("opt", "cfg", "shapes", "dtype") if k in case}, sort_keys=True)


def _pairs(cases):
    seen = set()
    for c in cases:
        if c["opt"] != "ds":
            continue
        cfg = dict(DS_DEFAULTS)
        cfg.update(c["cfg"])
        items = sorted((k, str(v)) for k, v in cfg.items())
        for i in range(len(items)):
            for j in range(i + 1, len(items)):
                seen.add((items[i], items[j]))
    return len(seen)


def execute(ctx, cases):
    nchunk = 3
    chunks = kit.chunked(cases, nchunk)
    results = kit.parallel_map(worker, chunks, nproc=min(14, int(os.environ.get("C07_NPROC", "14"))), ndev=2)
    obs = [o for grp in results for o in grp]
    reqs = [model_request({**o["case"], "cfg": o["case"]["cfg"]}) for o in obs]
    replies = ctx.driver(reqs)
    for o, rep in zip(obs, replies):
        case = o["case"]
        oc = o["outcome"]
        tag = _mode(case)
        ctx.evaluated(1)
        ctx.cov["search_evaluations"] += 1
        ctx.dist("cases." + tag)
        ctx.dist("outcome." + tag + "." + oc["kind"] + ("." + oc.get("phase", "") if oc["kind"] != "ok" else ""))
        if "corpus" in case:
            ctx.dist("corpus_cases")
        nonf32 = case.get("dtype", "float32") != "float32"
        if nonf32:
            ctx.dist("dtype_stream." + case["dtype"] + "." + oc["kind"])
        else:
            compare(ctx, o, rep)
        # ---- direct oracle
        k7 = nonf32 and "K7" in ctx.known_ids()

        def report(what, dtype_only):
            # K7 = parameters with a dtype other than float32, and the failure is a dtype mismatch only
            if k7 and dtype_only:
                ctx.known_finding("K7", "parameter dtype other than float32: update / state leaf dtype is not preserved "
                                  "(or a lax.cond/while dtype TypeError)")
                ctx.dist("K7_reproduced")
            else:
                ctx.violation(what, case)
        if oc["kind"] == "internal":
            report(f"internal error in {oc.get('raw_phase')}: {oc['cls']}: {oc['msg'][:160]} ({oc['where'][:80]})", bool(oc.get("dtype_only")))
        for f in o["fails"][:3]:
            report(f[6:] if f.startswith("DTYPE ") else f, f.startswith("DTYPE "))
        if oc["kind"] == "ok" and not o["fails"]:
            shapes = case["shapes"]
            if shapes:
                ctx.nontrivial(_key(case))
        elif oc["kind"] == "reject":
            ctx.dist("reject_message." + oc["cls"] + ": " + oc["msg"][:50])
    return obs


def run(ctx):
    kit.gen_stage(ctx)
    ctx.lean_stage(extra_props=("Gen",))
    ctx.notes.append("model tie #2: the shape bookkeeping Model/Layout.lean relies on (merge_small_dims, partitioner + shapes_for_preconditioners, _precond_dim, tearfree _derive_shapes / _blocks_metadata) regenerated from the source by harness/py2lean.py on this run; bridge theorems PrecondVerif.GenProps.C07.*")
    const_stage(ctx)
    cases = gen_cases(ctx.tier, ctx.seed)
    only = os.environ.get("C07_ONLY")
    if only:
        cases = [c for c in cases if _mode(c) in only.split(",") or ("corpus" in c and "corpus" in only.split(","))]
        ctx.notes.append(f"DEV FILTER ACTIVE (C07_ONLY={only}): {len(cases)} cases")
        ctx.cov["dev_filter"] = only
    ctx.cov["rule"] = (
        "corpus of repaired defect witnesses (D1-D4, D6, D10-D12, D14-D19, LOBPCG size) first, then a random sweep seeded by VERIF_SEED: "
        "Distributed Shampoo option combinations (block_size incl. 0 and 1, merge/no merge, all graft types, PreconditionerType ALL/INPUT/OUTPUT, "
        "skip thresholds, metrics on/off, compression_rank +-r, frequent_directions with reuse/reset/average_grad/fd metrics (and the same "
        "flags without their companions), LOBPCG, eigh, schedules, quantization via best_effort_memory_usage_reduction) x mode "
        "(replicated jit | pmap over 1-2 host devices | sharded under a one-device Mesh + jit, num_devices_for_pjit 1-3) x parameter trees "
        "(0-3 leaves of rank 0-4, dims 1-12, unit dims, empty tree; dict/list/nested containers) x 3 updates; SM3; Tearfree "
        "Shampoo/Sketchy/grafting/momentum options (about 30% with one or two invalid options). evaluations = optimizer instances "
        "constructed, initialised and updated. A non-trivial case is a distinct (optimizer, configuration, non-empty tree) that was accepted "
        "and ran 3 updates with a stable layout.")
    ctx.assumptions += [
        "comparison policy EXACT: outcome kind, phase, exception class, full layout signature (node kinds, static fields, shapes, dtypes)",
        "exception messages are not compared; 'explanatory rejection' = ValueError/NotImplementedError/AssertionError with a non-empty "
        "message whose innermost frame is inside the precondition package",
        "scope: shard_optimizer_states is always combined with statistics/preconditioner partition specs (num_devices_for_pjit may be "
        "None/0 -> constructor rejection; batch_axis_name may be set as well); parameter partition specs: one entry per dimension, P() or P(None); "
        "block_size >= 0; float32 parameters in the main streams (other dtypes: separate oracle-only stream, known finding K7); dimensions >= 1; Sketchy memory_alloc = None or one row of ranks >= 1 per parameter with at least ndim entries; optax's adafactor state is an opaque node",
        "TrainingMetrics / FDDiagnostics subtrees are collapsed to one representative leaf when all their leaves agree",
        "multi-device pmap of a tree without statistics is traced with jax.eval_shape only (jaxlib CPU compiler segfault, not the package's)",
    ]
    obs = execute(ctx, cases)
    ctx.cov["ds_option_value_pairs_covered"] = _pairs(cases)
    picked = 0
    for o in obs:
        if picked < 5 and o["outcome"]["kind"] == "ok" and "corpus" not in o["case"] and o["case"]["shapes"]:
            ctx.sample({"case": o["case"], "init_signature": json.dumps(o.get("init_sig"))[:400]})
            picked += 1


def replay(ctx, data):
    cases, seen = [], set()
    for v in data.get("violations", []):
        cases.append(v["case"])
    for s in data.get("stage_failures", []):
        if isinstance(s.get("detail"), dict) and isinstance(s["detail"].get("case"), dict):
            cases.append(s["detail"]["case"])
    todo = []
    for c in cases:
        k = _key(c)
        if k not in seen and "opt" in c:
            seen.add(k)
            todo.append(c)
    ctx.cov["rule"] = "replay of recorded cases"
    execute(ctx, todo)
