"""C02 — the Distributed Shampoo update equals the documented blocked-Shampoo math.

Implementation runner: the PUBLIC `distributed_shampoo(...).update` under `jit` on float32 parameter trees (replicated
mode, and the sharded variant under a one-device `Mesh`), configurations sampled from the cross product of the property's
quantifier (7 graft types, beta1, beta2 incl. 1.0, nesterov, moving_average_for_momentum, weight decay x decoupling,
lr decoupling / schedule, block size, merging, preconditioner type, exponent override, start step, statistics /
preconditioner intervals, skip thresholds, Newton / eigh roots, jax_enable_x64 on and off) x trees of rank 0-4 x
gradient histories.

FACTORED comparison (DESIGN §5 C02): every step is split at the state boundary, which is fully observable.
  (i)   what root is stored is C01/C03's business; here only "the stored preconditioner is an inverse p-th root for the
        documented exponent p of the ridge-regularised statistic" (residual ||P^p (S + d I) - I||_max, d reconstructed from
        max_eigen_value / total_retries) where float32 conditioning allows a verdict;
  (ii)  statistics after the step = documented recurrence applied to the statistics before the step (TOL; EXACT-DYADIC on
        dyadic histories), and the update / momenta / graft accumulator = documented pipeline applied to the
        implementation's OWN stored preconditioners (the ones stored after the step in replicated mode, the ones stored
        BEFORE the step in sharded mode) and first-order state;
  (iii) with eigh=True also end to end from the initial state against exact float64 roots, TOL(1e-3 kappa^(1/p)).
Direct oracle (S): an independent float64 numpy reference of (i)-(iii) inside this file (no reference to Lean).
Correspondence (K): `Model/DShampoo.lean` (`specStats`, `lowStats`, `specPrecondGrad`, `lowPrecondGrad`, `specTransform`,
`lowTransform`, geometry) executed by the driver on the same state, at binary64 (TOL) and at exact rationals (statistics,
EXACT-DYADIC); geometry (statistics count, dimensions, exponent, skip predicate) EXACT.
"""
import itertools
import math
import os
import random
from fractions import Fraction

from harness import kit, consts

HUGE = 1_000_000
GRAFTS = ["SGD", "ADAGRAD", "RMSPROP", "RMSPROP_NORMALIZED", "SQRT_N", "ADAGRAD_NORMALIZED", "NONE"]
PTYPES = ["ALL", "INPUT", "OUTPUT"]

TREES = [
    {"w": [6, 5], "b": [5]},
    {"w": [4, 7], "v": [7, 3], "s": []},
    {"t": [3, 2, 4], "b": [4]},
    {"w": [9, 4], "q": [2, 3, 2, 2]},
    {"w": [5, 6], "t": [2, 5, 3]},
    {"q": [2, 2, 3, 2], "s": [], "b": [6]},
    {"w": [10, 3], "u": [1, 5]},
    {"t": [4, 1, 3], "w": [3, 3]},
    {"w": [7, 2], "t": [2, 2, 2], "b": [3]},
    {"w": [8, 6]},
]


# ============================================================================ generation
ONESIDED_TREES = [
    {"t": [3, 2, 4], "q": [2, 3, 2, 2]},
    {"t": [2, 5, 3], "q": [2, 2, 3, 2], "w": [5, 6]},
    {"q": [3, 2, 2, 3], "t": [4, 2, 3], "b": [4]},
]


def _task(rng, gid, seed, tier, mode=None, root=None, graft=None, dy=False, well=False, comp=False, onesided=None):
    T = 6 if tier == "quick" else rng.choice([6, 6, 10, 20])
    sched = rng.random() < 0.25
    c = {
        "mode": mode or rng.choice(["replicated", "replicated", "sharded"]),
        "root": root or rng.choice(["newton", "newton", "eigh"]),
        "x64": rng.random() < 0.7,
        "graft": graft or rng.choice(GRAFTS),
        "beta1": rng.choice([0.0, 0.9, 0.9, 0.5]),
        "beta2": rng.choice([1.0, 1.0, 0.999, 0.9, 0.75]),
        "nesterov": rng.random() < 0.5, "mavg": rng.random() < 0.5,
        "wd": rng.choice([0.0, 0.1, 0.1, 0.01]), "dwd": rng.random() < 0.5,
        "dlr": rng.random() < 0.5,
        "lr": rng.choice([0.5, 0.25, 0.1, 0.03, 2.0]),
        "sched": ([rng.choice(["1", "1/2", "3/4", "1/4", "3/2"]) for _ in range(4)] if sched else None),
        "block": rng.choice([2, 3, 4, 4, 8, 128]),
        "best_effort": rng.random() < 0.5, "merge_block": rng.choice([4, 6, 8, 4096]),
        "ptype": rng.choice(["ALL", "ALL", "INPUT", "OUTPUT"]),
        "override": rng.choice([0, 0, 0, 2, 3, 4]),
        "start": rng.choice([0, 0, 1, 2, 3, HUGE]),
        "si": rng.choice([1, 1, 2, 3]), "pi": rng.choice([1, 1, 2, 3]),
        "skip_rank_lt": rng.choice([0, 1, 1, 2]), "skip_dim_gt": rng.choice([4096, 4096, 6]),
        "mat_eps": rng.choice([1e-6, 1e-4, 1e-2, 1e-2]), "rel_eps": rng.random() < 0.85,
        "diag_eps": rng.choice([1e-10, 1e-10, 1e-6]),
        "clip": None, "T": T, "shapes": rng.choice(TREES),
        "grad": {"kind": "randn", "scale": rng.choice([1.0, 1.0, 1e-2, 30.0]), "seed": seed * 100003 + gid},
        "zero": [], "comp": 0,
    }
    if comp:
        # compression_rank: at least one statistic must be larger than |rank| + 2 (else the package rejects the configuration)
        c["comp"] = rng.choice([1, 2, -1, -2])
        c["block"] = rng.choice([8, 8, 128])
        c["best_effort"] = False
        c["shapes"] = rng.choice([t_ for t_ in TREES if any(len(s_) >= 2 and max(s_) >= 5 for s_ in t_.values())])
        c["skip_dim_gt"] = 4096
        c["root"] = "newton"
        c["mat_eps"] = rng.choice([1e-6, 1e-4, 1e-2])
    if onesided is not None:
        # one-sided preconditioning of rank-3 / rank-4 leaves whose dims survive merging: INPUT preconditions rank-1 axes
        # (exponent 2(rank-1)), OUTPUT one axis (exponent 2); documented exponent, no override, preconditioned from an early step on
        k = onesided
        c["ptype"] = "INPUT" if k % 2 == 0 else "OUTPUT"
        c["shapes"] = ONESIDED_TREES[k % len(ONESIDED_TREES)]
        c["override"] = 0
        c["start"] = k % 3
        c["best_effort"] = (k % 4 == 3)
        c["merge_block"] = 1          # nothing can merge even when best_effort_shape_interpretation is on
        c["block"] = 2 if k % 4 == 1 else 128
        c["skip_rank_lt"] = rng.choice([0, 1])
        c["skip_dim_gt"] = 4096
        c["mat_eps"] = rng.choice([1e-2, 3e-2, 1e-3])
        c["rel_eps"] = True
        c["si"] = 1
        c["pi"] = rng.choice([1, 1, 2])
        c["T"] = max(c["T"], 6)
        c["zero"] = []
        c["grad"] = {"kind": "randn", "scale": rng.choice([1.0, 1.0, 1e-2]), "seed": seed * 100003 + gid}
    if c["graft"].startswith("RMSPROP"):
        c["clip"] = rng.choice([None, None, 0.5, 2.0])
    if well:
        c["mat_eps"] = rng.choice([1e-2, 3e-2, 1e-3])
        c["rel_eps"] = True
        c["start"] = rng.choice([0, 1, 2])
    if dy:
        c["grad"] = {"kind": "dyadic", "pow": rng.choice([0, 0, -2, 3]), "seed": seed * 100003 + gid}
        c["beta2"] = rng.choice([1.0, 0.5, 0.75])
        c["mat_eps"] = rng.choice([0.0625, 0.0078125, 1.0])
        c["rel_eps"] = True
        c["T"] = 6
    if rng.random() < 0.3:
        names = sorted(c["shapes"])
        c["zero"] = [[rng.randrange(c["T"]), rng.choice(names)]]
    return c


def _has_preconditioned_leaf(c):
    return any(not _py_skip(c, s) and len(_py_tshape(c, s)) > 0 for s in c["shapes"].values())


def corpus_tasks():
    import json
    d = os.path.join(kit.ROOT, "corpus", "C02")
    out = []
    if os.path.isdir(d):
        for f in sorted(os.listdir(d)):
            if f.endswith(".json"):
                out += json.load(open(os.path.join(d, f))).get("tasks", [])
    return out


def gen_tasks(tier, seed):
    rng = random.Random(seed * 7919 + 2)
    tasks = corpus_tasks()
    gid = 0
    reps = 1 if tier == "quick" else 10
    for _ in range(reps):
        # every graft type in both modes and with both root kinds
        for k, graft in enumerate(GRAFTS):
            for mode in ("replicated", "sharded"):
                gid += 1
                tasks.append(_task(rng, gid, seed, tier, mode=mode, graft=graft,
                                   root=("eigh" if (k + (mode == "sharded")) % 2 else "newton")))
        # well-conditioned end-to-end stream (eigh) and exponent stream (newton)
        for k in range(12):
            gid += 1
            tasks.append(_task(rng, gid, seed, tier, root=("eigh" if k % 2 == 0 else "newton"), well=True,
                               mode=("sharded" if k % 5 == 4 else "replicated")))
        # one-sided preconditioner types on rank-3 / rank-4 leaves (documented exponent 2 x #preconditioned axes)
        for k in range(8):
            gid += 1
            tasks.append(_task(rng, gid, seed, tier, onesided=k, mode=("sharded" if k in (2, 3, 6) else "replicated"),
                               root=("eigh" if k in (1, 2, 4, 7) else "newton")))
        # compressed (low-rank packed) preconditioners: the compressed branch of _precondition_block
        for k in range(8):
            gid += 1
            tasks.append(_task(rng, gid, seed, tier, comp=True, mode=("sharded" if k % 4 == 3 else "replicated")))
        # dyadic histories: statistics EXACT-DYADIC
        for k in range(10):
            gid += 1
            tasks.append(_task(rng, gid, seed, tier, dy=True, mode=("sharded" if k % 4 == 3 else "replicated")))
        # free sampling of the cross product
        for _k in range(24):
            gid += 1
            tasks.append(_task(rng, gid, seed, tier))
    out = []
    for c in tasks:
        if c["mode"] == "sharded" and not _has_preconditioned_leaf(c):
            c = dict(c, mode="replicated")
        if c.get("comp") and not _max_stat_dim(c) > abs(c["comp"]) + 2:
            c = dict(c, comp=0)
        out.append(c)
    return out


def _max_stat_dim(c):
    m = 0
    for shp in c["shapes"].values():
        if _py_skip(c, shp):
            continue
        ts = _py_tshape(c, shp)
        should = _py_should(c, len(ts))
        for a, d in enumerate(ts):
            if should[a]:
                m = max(m, max(hi - lo for lo, hi in _py_ranges(d, c["block"])))
    return m


def _pd(c, s):
    """_precond_dim: columns of the stored preconditioner of an s x s statistic"""
    r = abs(c.get("comp", 0))
    return r + 2 if (r and r + 2 < s) else s


# ============================================================================ independent geometry (oracle side)
def _py_skip(c, shp):
    return len(shp) < c["skip_rank_lt"] or any(s > c["skip_dim_gt"] for s in shp)


def _py_merge(shape, m):
    """documented example: [1, 2, 512, 1, 2048, 1, 3, 4] -> [1024, 2048, 12] for 1024"""
    if shape and all(s == 1 for s in shape):
        return [1]
    out, p = [], 1
    for d in shape:
        if p * d <= m:
            p *= d
        else:
            if p > 1:
                out.append(p)
            p = d
    if p > 1:
        out.append(p)
    return out


def _py_tshape(c, shp):
    return _py_merge(list(shp), c["merge_block"]) if c["best_effort"] else list(shp)


def _py_should(c, rank):
    if c["ptype"] == "ALL" or rank <= 1:
        return [True] * rank
    if c["ptype"] == "INPUT":
        return [True] * (rank - 1) + [False]
    return [False] * (rank - 1) + [True]


def _py_ranges(d, B):
    return [(i, min(i + B, d)) for i in range(0, d, B)] if 0 < B < d else [(0, d)]


def _py_blocks(c, tshape):
    """block index ranges, first axis slowest"""
    return list(itertools.product(*[_py_ranges(d, c["block"]) for d in tshape]))


def _py_exponent(c, rank):
    return c["override"] if c["override"] else 2 * sum(_py_should(c, rank))


# ============================================================================ data
def _lr_at(c, t):
    import numpy as np
    if c["sched"]:
        f = c["sched"][min(t, len(c["sched"]) - 1)]
        return float(np.float32(float(Fraction(f)) * c["lr"]))
    return c["lr"]


def _make_data(c):
    import numpy as np
    names = sorted(c["shapes"])
    g = c["grad"]
    rs = np.random.RandomState(g["seed"] % (2 ** 31))
    params = {n: np.asarray(rs.randn(*c["shapes"][n]), np.float32) for n in names}
    grads = []
    if g["kind"] == "randn":
        for _t in range(c["T"]):
            grads.append({n: np.asarray(rs.randn(*c["shapes"][n]) * g["scale"], np.float32) for n in names})
    else:
        for _t in range(c["T"]):
            grads.append({n: np.asarray(rs.randint(-4, 5, size=tuple(c["shapes"][n])) * 2.0 ** g["pow"], np.float32)
                          for n in names})
    for t, n in c.get("zero", []):
        if t < len(grads):
            grads[t][n] = np.zeros(tuple(c["shapes"][n]), np.float32)
    return names, params, grads


# ============================================================================ implementation
def _build(c):
    import numpy as np
    import jax
    import jax.numpy as jnp
    from jax.sharding import Mesh, PartitionSpec as P
    from precondition import distributed_shampoo as ds
    sharded = c["mode"] == "sharded"
    if c["sched"]:
        tab = jnp.asarray([np.float32(float(Fraction(x)) * c["lr"]) for x in c["sched"]], jnp.float32)
        nt = len(c["sched"])
        lr = lambda step: tab[jnp.minimum(step, nt - 1)]  # noqa: E731
    else:
        lr = c["lr"]
    opt = ds.distributed_shampoo(
        lr, block_size=c["block"], beta1=c["beta1"], beta2=c["beta2"], diagonal_epsilon=c["diag_eps"],
        matrix_epsilon=c["mat_eps"], weight_decay=c["wd"], start_preconditioning_step=c["start"],
        preconditioning_compute_steps=c["pi"], statistics_compute_steps=c["si"],
        best_effort_shape_interpretation=c["best_effort"], graft_type=getattr(ds.GraftingType, c["graft"]),
        nesterov=c["nesterov"], exponent_override=c["override"], batch_axis_name=None,
        moving_average_for_momentum=c["mavg"], skip_preconditioning_dim_size_gt=c["skip_dim_gt"],
        clip_by_scaled_gradient_norm=c["clip"], relative_matrix_epsilon=c["rel_eps"],
        merge_small_dims_block_size=c["merge_block"], precondtioner_type=getattr(ds.PreconditionerType, c["ptype"]),
        skip_preconditioning_rank_lt=c["skip_rank_lt"], decoupled_learning_rate=c["dlr"],
        decoupled_weight_decay=c["dwd"], eigh=(c["root"] == "eigh"), compression_rank=c.get("comp", 0),
        shard_optimizer_states=sharded,
        statistics_partition_spec=P("x", None, None) if sharded else None,
        preconditioner_partition_spec=P("x", None, None) if sharded else None,
        num_devices_for_pjit=1 if sharded else None)
    mesh = Mesh(np.array(jax.devices()[:1]), ("x",)) if sharded else None
    return opt, mesh


def _view(state, names, sharded, c=None):
    """per parameter: statistics, preconditioners (cropped), first-order state, root metrics"""
    import numpy as np
    v = {"count": int(state.count)}
    for n in names:
        if sharded:
            loc = state.stats.local_stats[n]
            g = state.stats.global_stats
            i0 = int(loc.index_start)
            sizes = [int(x) for x in loc.sizes]
            Ss = [np.asarray(g.statistics[i0 + k])[:s, :s] for k, s in enumerate(sizes)]
            Ps = [np.asarray(g.preconditioners[i0 + k])[:s, :_pd(c or {}, s)] for k, s in enumerate(sizes)]
            ex = [int(x) for x in np.asarray(g.exponents)[i0:i0 + len(sizes)]]
        else:
            loc = state.stats[n]
            Ss = [np.asarray(x) for x in loc.statistics]
            Ps = [np.asarray(x) for x in loc.preconditioners]
            ex = None
        tm = loc.training_metrics

        def met(name, tm=tm, k=len(Ss)):
            try:
                a = np.asarray(getattr(tm, name), np.float64).reshape(-1)
                return [float(x) for x in a[:k]] if a.size >= k else None
            except Exception:  # noqa: BLE001
                return None
        v[n] = {"S": Ss, "P": Ps, "ex": ex,
                "diag": np.asarray(loc.diagonal_statistics.to_float()),
                "dmom": np.asarray(loc.diagonal_momentum.to_float()),
                "mom": np.asarray(loc.momentum.to_float()),
                "err": met("inverse_pth_root_errors"), "max_ev": met("max_eigen_value"),
                "retries": met("total_retries")}
    return v


def _run_impl(c, names, params, grads):
    import contextlib
    import numpy as np
    import jax
    import jax.numpy as jnp
    opt, mesh = _build(c)
    sharded = c["mode"] == "sharded"
    cm = mesh if mesh is not None else contextlib.nullcontext()
    jp = {n: jnp.asarray(params[n]) for n in names}
    ups, views = [], []
    with cm:
        state = opt.init(None).init_fn(jp) if sharded else opt.init(jp)
        upd = jax.jit(opt.update)
        views.append(_view(state, names, sharded, c))
        for g in grads:
            u, state = upd({n: jnp.asarray(g[n]) for n in names}, state, jp)
            ups.append({n: np.asarray(u[n]) for n in names})
            views.append(_view(state, names, sharded, c))
    return ups, views


# ============================================================================ numpy reference (float64, oracle side)
def _np_graft(graft, g, acc, beta2, deps, eps, clip):
    import numpy as np
    if graft in ("SGD", "NONE"):
        return g, acc
    if graft == "SQRT_N":
        return np.sign(g), acc
    sg = g / (np.linalg.norm(g) + eps) if graft.endswith("NORMALIZED") else g
    if graft.startswith("ADAGRAD"):
        acc = acc + sg * sg
    else:
        acc = beta2 * acc + (1.0 if beta2 == 1.0 else 1.0 - beta2) * sg * sg
    u = sg / (np.sqrt(acc) + deps)
    if clip is not None and graft.startswith("RMSPROP"):
        u = u / max(1.0, float(np.linalg.norm(u)) / math.sqrt(u.size) / clip)
    return u, acc


def _np_gram(x, a):
    import numpy as np
    m = np.moveaxis(x, a, 0).reshape(x.shape[a], -1)
    return m @ m.T


def _np_stats(c, shp, S, g, t):
    """documented recurrence on statistics steps; returns the list in slot order block*k + j"""
    import numpy as np
    if not (c["si"] <= 1 or t % c["si"] == 0):
        return [np.asarray(s, np.float64) for s in S]
    ts = _py_tshape(c, shp)
    x = np.asarray(g, np.float64).reshape(ts)
    should = _py_should(c, len(ts))
    w1 = c["beta2"]
    w2 = 1.0 if c["beta2"] == 1.0 else 1.0 - c["beta2"]
    out, ix = [], 0
    for blk in _py_blocks(c, ts):
        xb = x[tuple(slice(a, b) for a, b in blk)]
        for a in range(len(ts)):
            if should[a]:
                out.append(w1 * np.asarray(S[ix], np.float64) + w2 * _np_gram(xb, a))
                ix += 1
    return out


def _np_denote(P):
    """the matrix a stored preconditioner stands for: itself, or for a packed d x (r+2) one c (I - V V^T) + V diag(e) V^T
    (the identity when the has_zeros flag P[-1, -2] is set)"""
    import numpy as np
    P = np.asarray(P, np.float64)
    d, cdim = P.shape if P.ndim == 2 else (0, 0)
    if d == cdim:
        return P
    r = cdim - 2
    V, e, cc, flag = P[:, :r], P[:r, r], P[0, r + 1], P[d - 1, r] != 0
    if flag:
        return np.eye(d)
    return cc * (np.eye(d) - V @ V.T) + (V * e) @ V.T


def _np_precond(c, shp, P, g):
    """blocked mode products; returns (preconditioned gradient, amplification = max over blocks of
    prod ||P_a||_2 ||G_b||_F / ||PG_b||_F)"""
    import numpy as np
    ts = _py_tshape(c, shp)
    x = np.asarray(g, np.float64).reshape(ts)
    should = _py_should(c, len(ts))
    k = sum(should)
    out = np.zeros_like(x)
    amp = 1.0
    for b, blk in enumerate(_py_blocks(c, ts)):
        sl = tuple(slice(lo, hi) for lo, hi in blk)
        y = x[sl]
        j = 0
        bound = float(np.linalg.norm(y))
        for a in range(len(ts)):
            if should[a]:
                Pm = _np_denote(P[b * k + j])
                y = np.moveaxis(np.tensordot(Pm.T, y, axes=(1, a)), 0, a)
                bound *= float(np.linalg.norm(Pm, 2)) if Pm.size else 1.0
                j += 1
        out[sl] = y
        ny = float(np.linalg.norm(y))
        if ny > 0 and np.isfinite(bound):
            amp = max(amp, bound / ny)
        elif bound > 0:
            amp = float("inf")
    return out.reshape(tuple(shp)), amp


def _np_transform(c, t, skip, g, x, pg, st, eps):
    """documented pipeline after the preconditioned gradient; st = (diag, dmom, mom) float64"""
    import numpy as np
    lr = _lr_at(c, t)
    diag, dmom, mom = st
    gu, diag = _np_graft(c["graft"], g, diag, c["beta2"], c["diag_eps"], eps, c["clip"])
    gu = gu * (1.0 if c["dlr"] else lr)
    if skip:
        pg = gu
    mult = 1.0 if c["graft"] == "NONE" else float(np.linalg.norm(gu)) / (float(np.linalg.norm(pg)) + eps)
    su = pg * mult
    suw, guw = su, gu
    if c["wd"] != 0 and not c["dwd"]:
        suw = su + c["wd"] * x
        guw = gu + c["wd"] * x
    w = (1.0 - c["beta1"]) if c["mavg"] else 1.0
    b1 = abs(c["beta1"])
    # magnitudes of the terms entering the last additions (cancellation there is float32 noise, not a deviation)
    sc_mom = b1 * _mx(mom) + abs(w) * (_mx(su) + abs(c["wd"]) * _mx(x))
    sc_dmom = b1 * _mx(dmom) + abs(w) * (_mx(gu) + abs(c["wd"]) * _mx(x))
    mom = c["beta1"] * mom + w * suw
    dmom = c["beta1"] * dmom + w * guw
    if t >= c["start"]:
        m_, u_, sc_m, sc_u = mom, suw, sc_mom, _mx(su) + abs(c["wd"]) * _mx(x)
    else:
        m_, u_, sc_m, sc_u = dmom, guw, sc_dmom, _mx(gu) + abs(c["wd"]) * _mx(x)
    out = (w * u_ + c["beta1"] * m_) if c["nesterov"] else m_
    sc_out = (abs(w) * sc_u + b1 * sc_m) if c["nesterov"] else sc_m
    if c["wd"] != 0 and c["dwd"]:
        out = out + (1.0 if c["dlr"] else lr) * c["wd"] * x
        sc_out += abs((1.0 if c["dlr"] else lr) * c["wd"]) * _mx(x)
    mm = lr if c["dlr"] else 1.0
    _np_transform.scales = {"upd": abs(mm) * sc_out, "mom": sc_mom, "dmom": sc_dmom}
    return -mm * out, (diag, dmom, mom)


_PI_CACHE = {}


def _impl_max_ev(S32):
    """the package's own estimate of the largest eigenvalue (public `power_iteration`, as the root routines call it: 100
    iterations, tolerance 1e-6, fixed start vector). It is a Rayleigh quotient <= lambda_max and can stop at a NON-dominant
    eigenvalue when the fixed start vector is nearly one of its eigenvectors; the ridge actually used is eps * this value
    (C01: 'the ridge d actually used'), so the end-to-end reference takes the ridge from it."""
    import numpy as np
    import jax
    import jax.numpy as jnp
    from precondition import distributed_shampoo as ds
    a = jnp.asarray(np.asarray(S32, np.float32)).astype(jnp.float64)   # float32 when x64 is off, as in the package
    key = (a.shape[0], str(a.dtype))
    if key not in _PI_CACHE:
        _PI_CACHE[key] = jax.jit(lambda m: ds.power_iteration(m, num_iters=100, error_tolerance=1e-6)[1])
    return float(_PI_CACHE[key](a))


def _np_root(c, S, p, mev=None):
    """exact inverse p-th root of the ridge-regularised statistic (eigh root: ridge = eps * max(max_ev, 1e-6), max_ev the
    package's power-iteration estimate when given, else lambda_max); returns (root, condition number of the regularised matrix)"""
    import numpy as np
    w, v = np.linalg.eigh(np.asarray(S, np.float64))
    lam = (float(w.max()) if mev is None else float(mev)) if c["rel_eps"] else 1.0
    d = c["mat_eps"] * max(lam, 1e-6)
    wr = np.maximum(w + d, d)
    return (v * wr ** (-1.0 / p)) @ v.T, float(wr.max() / wr.min())


def _mx(a):
    import numpy as np
    a = np.asarray(a, np.float64)
    return float(np.max(np.abs(a))) if a.size else 0.0


def _dev(u, ref, scale=0.0):
    """max |u - ref| / max(max |ref|, scale) (inf when non-finite); `scale` = magnitude of the terms whose sum `ref` is"""
    import numpy as np
    u = np.asarray(u, np.float64).reshape(-1)
    ref = np.asarray(ref, np.float64).reshape(-1)
    if u.shape != ref.shape:
        return float("inf")
    if not u.size:
        return 0.0
    if not (np.isfinite(u).all() and np.isfinite(ref).all()):
        return float("inf")
    m = max(_mx(ref), float(scale or 0.0))
    d = _mx(u - ref)
    return d / m if m > 0 else (0.0 if d <= 1e-37 else float("inf"))


def _hexes(a):
    import numpy as np
    return [kit.f32_hex(x) for x in np.asarray(a, np.float32).reshape(-1)]


def _pjson(p_):
    """square: flat list; packed d x (r+2): object"""
    if p_.shape[0] == p_.shape[1]:
        return _hexes(p_)
    return {"rows": int(p_.shape[0]), "cols": int(p_.shape[1]), "data": _hexes(p_)}


TOL_STATE = 2e-5       # statistics, momenta, graft accumulators, updates on well-conditioned preconditioners
TOL_AMP = 4e-6         # times the amplification factor of the mode products


def _upd_tol(amp):
    return max(TOL_STATE, TOL_AMP * amp) if math.isfinite(amp) else float("inf")


# ============================================================================ worker
def _run_task(c):
    import numpy as np
    import jax
    jax.config.update("jax_enable_x64", bool(c.get("x64")))
    eps = float(consts.module_assign("distributed_shampoo.py", "_EPSILON"))
    thr = 0.1
    names, params, grads = _make_data(c)
    ups, views = _run_impl(c, names, params, grads)
    sharded = c["mode"] == "sharded"
    T = c["T"]
    fails, reqs, stats = [], [], {"steps": 0, "nontrivial": [], "e2e": 0, "e2e_inconclusive": 0, "root_checked": 0,
                                   "root_inconclusive": 0, "ill_conditioned_updates": 0, "worst_upd": 0.0,
                                   "worst_e2e": 0.0, "refresh_changed": 0}
    leaves = {}
    from precondition import distributed_shampoo as ds
    for n in names:
        shp = list(c["shapes"][n])
        skip = _py_skip(c, shp)
        ts = _py_tshape(c, shp)
        should = _py_should(c, len(ts))
        k = sum(should)
        nblocks = len(_py_blocks(c, ts))
        p = _py_exponent(c, len(ts))
        nst = 0 if skip else nblocks * k
        x = np.asarray(params[n], np.float64)
        L = {"shape": shp, "skip_py": skip, "nstats_impl": len(views[0][n]["S"]), "nstats_py": nst, "exp_py": p,
             "exp_impl": None, "dims_impl": [int(s.shape[0]) for s in views[0][n]["S"]], "steps": []}
        where0 = f"leaf {n}{shp} mode {c['mode']} root {c['root']} graft {c['graft']}"
        # ---- geometry / exponent as the implementation declares them
        try:
            pre = ds.Preconditioner(np.zeros(tuple(shp), np.float32), c["block"], c["merge_block"], c["best_effort"],
                                    getattr(ds.PreconditionerType, c["ptype"]), 0)
            e_impl = pre.exponent_for_preconditioner() if c["override"] == 0 else c["override"]
            if sharded and views[0][n]["ex"]:
                exs = set(views[0][n]["ex"])
                e_impl = exs.pop() if len(exs) == 1 else sorted(exs | {-1})
            L["exp_impl"] = e_impl
        except Exception as e:  # noqa: BLE001
            L["exp_impl"] = "exception " + type(e).__name__
        if L["nstats_impl"] != nst:
            fails.append({"what": f"{where0}: {L['nstats_impl']} statistics stored, the documented blocking gives {nst} "
                                  f"({nblocks} blocks x {k} preconditioned axes)", "leaf": n, "t": 0})
            leaves[n] = L
            continue
        if not skip and nst and L["exp_impl"] != p:
            fails.append({"what": f"{where0}: inverse root exponent {L['exp_impl']} != documented {p} "
                                  f"(2 x {k} preconditioned axes, override {c['override']})", "leaf": n, "t": 0})
        # initial state: L0 = eps I, P0 = I (packed: all zero; sharded + compression_rank starts EVERY preconditioner, also the
        # uncompressed small ones, at zero -- the statement does not fix P0, so this is only counted)
        if c.get("comp") and sharded and any(p_.shape[0] == p_.shape[1] and not np.any(p_ != 0) for p_ in views[0][n]["P"]):
            stats["sharded_compressed_small_statistic_starts_at_zero"] = stats.get("sharded_compressed_small_statistic_starts_at_zero", 0) + 1
        for s_, p_ in zip(views[0][n]["S"], views[0][n]["P"]):
            d_ = s_.shape[0]
            if _dev(s_, c["mat_eps"] * np.eye(d_)) > 1e-6 and c["mat_eps"] > 0 or \
                    (((_dev(p_, np.eye(d_)) > 0) and not (c.get("comp") and sharded and not np.any(p_ != 0)))
                     if p_.shape[1] == d_ else (p_.shape[1] != _pd(c, d_) or np.any(p_ != 0))):
                fails.append({"what": f"{where0}: initial statistic / preconditioner is not matrix_epsilon*I / I", "leaf": n, "t": 0})
                break
        # ---- end-to-end reference state (eigh only)
        e2e = None
        if c["root"] == "eigh" and not skip and nst and not c.get("comp"):
            e2e = {"S": [c["mat_eps"] * np.eye(d_) for d_ in L["dims_impl"]], "P": [np.eye(d_) for d_ in L["dims_impl"]],
                   "st": (np.zeros(tuple(shp)), np.zeros(tuple(shp)), np.zeros(tuple(shp))), "kappa": 1.0, "ok": True}
        for t in range(T):
            v0, v1 = views[t][n], views[t + 1][n]
            g = np.asarray(grads[t][n], np.float64)
            u = np.asarray(ups[t][n], np.float64)
            where = f"step {t} {where0}"
            rec = {"upd": [float(z) for z in u.reshape(-1)]}
            stats["steps"] += 1
            # (ii-a) statistics
            if not skip and nst:
                refS = _np_stats(c, shp, v0["S"], g, t)
                refresh = c["si"] <= 1 or t % c["si"] == 0
                for s in range(nst):
                    dv = _dev(v1["S"][s], refS[s])
                    if not refresh:
                        if not np.array_equal(v1["S"][s], v0["S"][s]):
                            fails.append({"what": f"{where}: statistic {s} changed on a non-statistics step", "leaf": n, "t": t})
                            break
                    elif not dv <= TOL_STATE:
                        b_, j_ = divmod(s, k)
                        fails.append({"what": f"{where}: statistic {s} (block {b_}, preconditioned axis #{j_}) deviates {dv:.3e} "
                                              f"from w1*L + w2*(G x_a G), w1 = {c['beta2']}, w2 = {1.0 if c['beta2'] == 1.0 else 1 - c['beta2']:.6g}",
                                      "leaf": n, "t": t})
                        break
            # (i) exponent / root residual where float32 conditioning allows
            if not skip and nst and c["root"] == "newton" and v1["err"] and v1["max_ev"] and v1["retries"]:
                for s in range(nst):
                    changed = not np.array_equal(v1["P"][s], v0["P"][s])
                    if not changed or v1["P"][s].shape[0] != v1["P"][s].shape[1]:
                        continue
                    stats["refresh_changed"] += 1
                    err = v1["err"][s]
                    if not (err == err and err < thr):
                        continue
                    S64 = np.asarray(v1["S"][s], np.float64)
                    mev = v1["max_ev"][s] if c["rel_eps"] else 1.0
                    d = c["mat_eps"] * max(mev, eps) * 10.0 ** (v1["retries"][s] - 1)
                    A = S64 + d * np.eye(S64.shape[0])
                    wv = np.linalg.eigvalsh(A)
                    kap = float(wv.max() / max(wv.min(), 1e-300))
                    tol = err + 2e-6 * p * kap + 1e-4
                    if not tol <= 0.1:
                        stats["root_inconclusive"] += 1
                        continue
                    P64 = np.asarray(v1["P"][s], np.float64)
                    res = _mx(np.linalg.matrix_power(P64, p) @ A - np.eye(A.shape[0]))
                    stats["root_checked"] += 1
                    if not res <= tol:
                        fails.append({"what": f"{where}: stored preconditioner {s} is not an inverse {p}-th root of its ridge-regularised "
                                              f"statistic: ||P^{p} (S + dI) - I||_max = {res:.3e} > {tol:.3e} (reported error {err:.3e}, "
                                              f"kappa {kap:.3g})", "leaf": n, "t": t})
                        break
            # (ii-b) update from the implementation's own state
            Pused = v0["P"] if sharded else v1["P"]
            if skip or not nst:
                pg, amp = g, 1.0
            else:
                pg, amp = _np_precond(c, shp, Pused, g)
            st0 = (np.asarray(v0["diag"], np.float64) if np.asarray(v0["diag"]).size else np.zeros(tuple(shp)),
                   np.asarray(v0["dmom"], np.float64), np.asarray(v0["mom"], np.float64))
            ru, (rdiag, rdmom, rmom) = _np_transform(c, t, skip, g, x, pg, st0, eps)
            sc = dict(_np_transform.scales)
            tol = _upd_tol(amp)
            finite_state = all(np.isfinite(np.asarray(a_, np.float64)).all() for a_ in [*Pused, *st0])
            if not finite_state or not math.isfinite(tol) or not np.isfinite(ru).all():
                stats["ill_conditioned_updates"] += 1
            else:
                if tol > 1e-3:
                    stats["ill_conditioned_updates"] += 1
                dv = _dev(u, ru, sc["upd"])
                stats["worst_upd"] = max(stats["worst_upd"], dv / tol if math.isfinite(dv) else 9e9)
                if not dv <= tol:
                    fails.append({"what": f"{where}: update deviates {dv:.3e} (> {tol:.2e}) from the documented pipeline applied to the "
                                          f"stored preconditioners ({'previous refresh' if sharded else 'after this step'}) and momenta; "
                                          f"lr {_lr_at(c, t):.6g} beta1 {c['beta1']} nesterov {c['nesterov']} mavg {c['mavg']} wd {c['wd']} "
                                          f"dwd {c['dwd']} dlr {c['dlr']} start {c['start']}", "leaf": n, "t": t})
                for nm, a_impl, a_ref, tl, sc_ in (("momentum", v1["mom"], rmom, tol, sc["mom"]),
                                                   ("diagonal_momentum", v1["dmom"], rdmom, TOL_STATE, sc["dmom"]),
                                                   ("diagonal_statistics", v1["diag"], rdiag, TOL_STATE, 0.0)):
                    if nm == "diagonal_statistics" and not np.asarray(v1["diag"]).size:
                        continue
                    dv2 = _dev(a_impl, a_ref, sc_)
                    if not dv2 <= tl:
                        fails.append({"what": f"{where}: new {nm} deviates {dv2:.3e} from the documented recurrence", "leaf": n, "t": t})
                if not skip and nst and t >= c["start"] and _mx(g) > 0:
                    cs = float(np.dot(pg.reshape(-1), g.reshape(-1)) / (np.linalg.norm(pg) * np.linalg.norm(g) + 1e-300))
                    if abs(cs) < 0.999:
                        stats["nontrivial"].append([n, t])
            # (iii) end to end with exact roots (eigh)
            if e2e is not None and e2e["ok"]:
                e2e["S"] = _np_stats(c, shp, e2e["S"], g, t)
                Pprev = e2e["P"]
                if t % c["pi"] == 0:
                    newP, kap = [], e2e["kappa"]
                    for s in range(nst):
                        err = v1["err"][s] if v1["err"] else 0.0
                        if err == err and err < thr:
                            mev = _impl_max_ev(v1["S"][s]) if c["rel_eps"] else None
                            if mev is not None:
                                lmax = float(np.linalg.eigvalsh(np.asarray(e2e["S"][s], np.float64)).max())
                                if mev < (1.0 - 1e-3) * lmax:
                                    stats["power_iteration_below_lambda_max"] = stats.get("power_iteration_below_lambda_max", 0) + 1
                            r_, kp_ = _np_root(c, e2e["S"][s], p, mev)
                            newP.append(r_)
                            kap = max(kap, kp_)
                        else:
                            newP.append(Pprev[s])
                    e2e["P"] = newP
                    e2e["kappa"] = kap
                Pe = Pprev if sharded else e2e["P"]
                pge, ampe = _np_precond(c, shp, Pe, g)
                rue, e2e["st"] = _np_transform(c, t, skip, g, x, pge, e2e["st"], eps)
                sce = _np_transform.scales["upd"]
                tole = 1e-3 * e2e["kappa"] ** (1.0 / p) * max(1.0, ampe / 30.0)
                if not (np.isfinite(rue).all() and math.isfinite(tole)) or tole > 0.05:
                    stats["e2e_inconclusive"] += 1
                    if not np.isfinite(rue).all():
                        e2e["ok"] = False
                else:
                    dv = _dev(u, rue, sce)
                    stats["e2e"] += 1
                    stats["worst_e2e"] = max(stats["worst_e2e"], dv / tole if math.isfinite(dv) else 9e9)
                    if not dv <= tole:
                        fails.append({"what": f"{where}: update deviates {dv:.3e} (> {tole:.2e}) from the END-TO-END documented Shampoo step "
                                              f"with exact inverse {p}-th roots (eigh root, kappa {e2e['kappa']:.3g})", "leaf": n, "t": t})
                        e2e["ok"] = False
            # ---- driver requests
            S0h = [_hexes(s_) for s_ in v0["S"]]
            req = {"op": "step", "shape": shp, "block": c["block"], "merge_block": c["merge_block"], "best_effort": c["best_effort"],
                   "ptype": c["ptype"], "rank_lt": c["skip_rank_lt"], "dim_gt": c["skip_dim_gt"], "graft": c["graft"],
                   "beta1": kit.f64_hex(c["beta1"]), "beta2": kit.f64_hex(c["beta2"]), "diag_eps": kit.f64_hex(c["diag_eps"]),
                   "eps": kit.f64_hex(eps), "lr": kit.f64_hex(_lr_at(c, t)), "dlr": c["dlr"],
                   "clip": (None if c["clip"] is None else kit.f64_hex(c["clip"])), "start": c["start"], "wd": kit.f64_hex(c["wd"]),
                   "dwd": c["dwd"], "nesterov": c["nesterov"], "mavg": c["mavg"], "step": t, "si": c["si"],
                   "g": _hexes(grads[t][n]), "param": _hexes(params[n]), "stats": S0h,
                   "preconds_before": [_pjson(p_) for p_ in v0["P"]], "preconds_after": [_pjson(p_) for p_ in v1["P"]],
                   "sharded": sharded,
                   "diag": _hexes(v0["diag"]), "dmom": _hexes(v0["dmom"]), "mom": _hexes(v0["mom"])}
            reqs.append({"leaf": n, "t": t, "kind": "step", "req": req})
            rec["S1"] = [[float(z) for z in s_.reshape(-1)] for s_ in v1["S"]]
            rec["diag"] = [float(z) for z in np.asarray(v1["diag"]).reshape(-1)]
            rec["dmom"] = [float(z) for z in v1["dmom"].reshape(-1)]
            rec["mom"] = [float(z) for z in v1["mom"].reshape(-1)]
            rec["tol"] = tol if math.isfinite(tol) and finite_state else None
            rec["packed"] = any(p_.shape[0] != p_.shape[1] for p_ in [*v0["P"], *v1["P"]])
            if rec["packed"]:
                stats["packed_steps"] = stats.get("packed_steps", 0) + 1
            rec["sc"] = {k_: (float(v_) if math.isfinite(v_) else 0.0) for k_, v_ in sc.items()}
            if c["grad"]["kind"] == "dyadic" and not skip and nst:
                reqs.append({"leaf": n, "t": t, "kind": "stats", "req": {
                    "op": "stats", "shape": shp, "block": c["block"], "merge_block": c["merge_block"], "best_effort": c["best_effort"],
                    "ptype": c["ptype"], "beta2": kit.rat_str(Fraction(c["beta2"])), "g": _hexes(grads[t][n]), "stats": S0h,
                    "si": c["si"], "step": t}})
                rec["S1hex"] = [_hexes(s_) for s_ in v1["S"]]
            L["steps"].append(rec)
        leaves[n] = L
        reqs.append({"leaf": n, "t": 0, "kind": "geom", "req": {
            "op": "geom", "shape": shp, "block": c["block"], "merge_block": c["merge_block"], "best_effort": c["best_effort"],
            "ptype": c["ptype"], "rank_lt": c["skip_rank_lt"], "dim_gt": c["skip_dim_gt"], "override": c["override"]}})
    return {"task": c, "leaves": leaves, "fails": fails, "stats": stats, "reqs": reqs}


def worker(chunk):
    import warnings
    warnings.filterwarnings("ignore")
    out = []
    for task in chunk:
        try:
            out.append(_run_task(task))
        except Exception as e:  # noqa: BLE001
            import traceback
            tb = traceback.format_exc()
            if isinstance(e, ValueError) and "precondition" in tb.split("\n")[-4] and len(str(e)) > 20:
                out.append({"task": task, "rejected": str(e)[:200], "fails": [], "reqs": [], "leaves": {}, "stats": {}})
                continue
            out.append({"task": task, "exception": type(e).__name__ + ": " + str(e)[:300], "trace": tb[-1500:],
                        "fails": [], "reqs": [], "leaves": {}, "stats": {}})
    try:
        import jax
        jax.clear_caches()
    except Exception:  # noqa: BLE001
        pass
    return out


# ============================================================================ comparison with the model
def _slim(task):
    return dict(task)


def _case(o, leaf=None, t=None):
    c = {"task": _slim(o["task"])}
    if leaf is not None:
        c["leaf"] = leaf
    if t is not None:
        c["t"] = t
    return c


def _f64s(l):
    import numpy as np
    return np.asarray([kit.hex_f64(x) for x in l], np.float64)


def compare(ctx, o, replies):
    import numpy as np
    if "exception" in o:
        ctx.disagree("accepted_configuration_runs", {"task": _slim(o["task"])}, o["exception"], "no exception", o.get("trace", "")[-600:])
        return
    for rq, rep in zip(o["reqs"], replies):
        leaf, t = rq["leaf"], rq["t"]
        L = o["leaves"][leaf]
        if "error" in rep:
            ctx.disagree("driver", _case(o, leaf, t), None, rep)
            continue
        if rq["kind"] == "geom":
            nm = "geometry.statistics_count[EXACT]"
            want = 0 if rep["skip"] else rep["nblocks"] * rep["k"]
            ok = want == L["nstats_impl"]
            ctx.corr(nm, ok)
            if not ok:
                ctx.disagree(nm, _case(o, leaf), L["nstats_impl"], want)
            nm = "geometry.excluded_from_preconditioning[EXACT]"
            ok = rep["skip"] == L["skip_py"]
            ctx.corr(nm, ok)
            if not ok:
                ctx.disagree(nm, _case(o, leaf), L["skip_py"], rep["skip"])
            if not rep["skip"] and rep["nblocks"] * rep["k"] and isinstance(L["exp_impl"], int):
                nm = "geometry.exponent[EXACT]"
                ok = rep["exponent"] == L["exp_impl"]
                ctx.corr(nm, ok)
                if not ok:
                    ctx.disagree(nm, _case(o, leaf), L["exp_impl"], rep["exponent"])
                nm = "geometry.statistics_dimensions[EXACT]"
                dims = []
                for bs in rep["block_shapes"]:
                    dims += [bs[a] for a in rep["pdims"]]
                ok = dims == L["dims_impl"]
                ctx.corr(nm, ok)
                if not ok:
                    ctx.disagree(nm, _case(o, leaf), L["dims_impl"], dims)
            nm = "geometry.low_slots_eq_spec_slots[EXACT]"
            ok = rep["slots_spec"] == rep["slots_low"]
            ctx.corr(nm, ok)
            if not ok:
                ctx.disagree(nm, _case(o, leaf), rep["slots_low"], rep["slots_spec"])
            continue
        rec = L["steps"][t]
        if rq["kind"] == "stats":
            nm = "statistics[EXACT-DYADIC]"
            nflag = 0
            for s, (vals, flags) in enumerate(zip(rep["stats_spec"], rep["ok"])):
                ih = rec["S1hex"][s]
                bad = [i for i in range(len(vals)) if flags[i] and kit.f32_hex(float(Fraction(vals[i]))) != ih[i]
                       and not (Fraction(vals[i]) == 0 and float(kit.hex_f32(ih[i])) == 0.0)]
                nflag += sum(1 for f in flags if f)
                if any(flags):
                    ctx.corr(nm, not bad)
                if bad:
                    i = bad[0]
                    ctx.disagree(nm, _case(o, leaf, t), float(kit.hex_f32(ih[i])), vals[i], f"statistic {s} entry {i}")
            ok = rep["stats_spec"] == rep["stats_low"] and rep["n_spec"] == rep["n_low"]
            ctx.corr("statistics.low_eq_spec[EXACT]", ok)
            if not ok:
                ctx.disagree("statistics.low_eq_spec[EXACT]", _case(o, leaf, t), "low", "spec")
            ctx.dist("exact_statistic_entries", nflag)
            continue
        # --- step (binary64)
        for which in ("stats_spec", "stats_low"):
            nm = f"statistics.{which[6:]}[TOL]"
            ms = rep[which]
            ok = len(ms) == len(rec["S1"]) and all(_dev(a, _f64s(b)) <= TOL_STATE for a, b in zip(rec["S1"], ms))
            ctx.corr(nm, ok)
            if not ok:
                ctx.disagree(nm, _case(o, leaf, t), [a[:4] for a in rec["S1"][:2]], [[float(z) for z in _f64s(b)[:4]] for b in ms[:2]])
        tol = rec["tol"]
        if rep["spec"] is not None and rep["low"] is not None and not rec.get("packed"):
            ok = all(rep["spec"][f_] == rep["low"][f_] for f_ in ("upd", "mom", "dmom", "diag")) and rep["pg_spec"] == rep["pg_low"] \
                and rep["stats_spec"] == rep["stats_low"]
            ctx.corr("model.low_eq_spec[EXACT]", ok)
            if not ok:
                ctx.disagree("model.low_eq_spec[EXACT]", _case(o, leaf, t), "Low", "Spec", "the two Lean models differ on this input")
        elif rep["spec"] is not None and rep["low"] is not None and rec["tol"] is not None:
            # packed application (Low) and dense application of the denoted matrix (Spec) round differently in binary64
            a_, b_ = _f64s(rep["low"]["upd"]), _f64s(rep["spec"]["upd"])
            ok = (not (np.isfinite(a_).all() and np.isfinite(b_).all())) or _dev(a_, b_, rec["sc"]["upd"]) <= 1e-9 * max(1.0, rec["tol"] / TOL_AMP)
            ctx.corr("model.low_packed_eq_spec_denoted[TOL 1e-9 amp]", ok)
            if not ok:
                ctx.disagree("model.low_packed_eq_spec_denoted[TOL 1e-9 amp]", _case(o, leaf, t), "Low", "Spec",
                             f"deviation {_dev(a_, b_, rec['sc']['upd']):.3e}")
        for which in ("spec", "low"):
            r = rep[which]
            if r is None:
                ctx.disagree(f"update.{which}", _case(o, leaf, t), "an update", "merge_partitions assert fails in the model")
                continue
            mu = _f64s(r["upd"])
            if tol is None or not np.isfinite(mu).all():
                ctx.dist("update.inconclusive_nonfinite_or_unbounded_amplification")
                continue
            nm = f"update.{which}[TOL]"
            dv = _dev(rec["upd"], mu, rec["sc"]["upd"])
            ok = dv <= tol
            ctx.corr(nm, ok)
            if not ok:
                ctx.disagree(nm, _case(o, leaf, t), rec["upd"][:4], [float(z) for z in mu[:4]], f"deviation {dv:.3e} > {tol:.2e}")
            for fld, tl in (("mom", tol), ("dmom", TOL_STATE), ("diag", TOL_STATE)):
                if fld == "diag" and not rec["diag"]:
                    continue
                nm = f"state.{fld}.{which}[TOL]"
                dv = _dev(rec[fld], _f64s(r[fld]), rec["sc"].get(fld, 0.0))
                ok = dv <= tl
                ctx.corr(nm, ok)
                if not ok:
                    ctx.disagree(nm, _case(o, leaf, t), rec[fld][:4], [float(z) for z in _f64s(r[fld])[:4]], f"deviation {dv:.3e}")


# ============================================================================ stages
def const_stage(ctx):
    eps = consts.module_assign("distributed_shampoo.py", "_EPSILON")
    if not (isinstance(eps, float) and 0 < eps <= 1e-24):
        ctx.const_fail("_EPSILON", f"_EPSILON = {eps!r}: the rescale theorems need 0 < eps and the tolerances eps <= 1e-24")
    thr = consts.func_default("distributed_shampoo.py", "distributed_shampoo", "inverse_failure_threshold")
    if thr != 0.1:
        ctx.const_fail("inverse_failure_threshold", f"default {thr!r} != 0.1 assumed by the root-residual oracle")
    ctx.cov["constants"] = {"_EPSILON": eps, "inverse_failure_threshold": thr}


def _tag(t):
    return f"{t['mode']}.{t['root']}" + (".compressed" if t.get("comp") else "") + \
        (".onesided_rank34" if (t["ptype"] != "ALL" and t["override"] == 0 and not t["best_effort"] or t.get("merge_block") == 1)
         and any(len(s_) >= 3 for s_ in t["shapes"].values()) and t["ptype"] != "ALL" else "") + (".x64" if t.get("x64") else "") + (".dyadic" if t["grad"]["kind"] == "dyadic" else "")


def _dev_filter(ctx, tasks):
    cap = os.environ.get("C02_MAXTASKS")
    only = os.environ.get("C02_ONLY")
    if not cap and not only:
        return tasks
    keep = [t for t in tasks if not only or t["mode"] in only.split(",") or ("comp" in only.split(",") and t.get("comp"))
            or ("onesided" in only.split(",") and t.get("merge_block") == 1)]
    if cap:
        keep = keep[:int(cap)]
    ctx.notes.append(f"DEV FILTER ACTIVE (C02_ONLY={only}, C02_MAXTASKS={cap}): {len(keep)} of {len(tasks)} tasks run")
    ctx.cov["dev_filter"] = {"only": only, "max": cap}
    return keep


def execute(ctx, tasks):
    nproc = min(14, int(os.environ.get("C02_NPROC", "14")))
    a = [t for t in tasks if not t.get("x64")]
    b = [t for t in tasks if t.get("x64")]
    chunks = []
    for grp in (a, b):
        per = max(1, min(4, math.ceil(len(grp) / nproc))) if grp else 1
        chunks += kit.chunked(grp, per)
    results = kit.parallel_map(worker, chunks, nproc=nproc)
    obs = [o for grp in results for o in grp]
    reqs, spans = [], []
    for o in obs:
        rq = [r["req"] for r in o["reqs"]]
        spans.append((len(reqs), len(reqs) + len(rq)))
        reqs.extend(rq)
    replies = ctx.driver(reqs) if reqs else []
    nrej = sum(1 for o in obs if "rejected" in o)
    if nrej > max(2, len(obs) // 10):
        ctx.disagree("accepted_configuration_runs", {"rejected": nrej, "of": len(obs)},
                     [o["rejected"] for o in obs if "rejected" in o][:3], "generated configurations are accepted")
    agg = {"worst_upd": 0.0, "worst_e2e": 0.0}
    for o, (i0, i1) in zip(obs, spans):
        task = o["task"]
        if "rejected" in o:
            ctx.dist("tasks.rejected_by_the_package." + _tag(task))
            ctx.notes.append(f"configuration rejected by the package ({o['rejected'][:120]})")
            continue
        ctx.dist("tasks." + _tag(task))
        ctx.dist("graft." + task["graft"])
        compare(ctx, o, replies[i0:i1])
        st = o.get("stats", {})
        ctx.evaluated(st.get("steps", 0))
        ctx.cov["search_evaluations"] += st.get("steps", 0)
        for k_ in ("e2e", "e2e_inconclusive", "root_checked", "root_inconclusive", "ill_conditioned_updates", "refresh_changed", "packed_steps",
                   "sharded_compressed_small_statistic_starts_at_zero", "power_iteration_below_lambda_max"):
            if st.get(k_):
                ctx.dist("steps." + k_, st[k_])
        for k_ in agg:
            agg[k_] = max(agg[k_], st.get(k_, 0.0))
        for leaf, t in st.get("nontrivial", []):
            ctx.nontrivial((task["mode"], task["root"], task["graft"], str(task["shapes"]), task["grad"]["seed"], leaf, t))
        for f in o["fails"][:6]:
            ctx.violation(f["what"], {"task": _slim(task), "leaf": f["leaf"], "t": f["t"]})
    ctx.cov["worst_deviation_over_tolerance"] = agg
    return obs


def run(ctx):
    if os.environ.get("C02_NOLEAN"):   # builder aid (mutation experiments only); recorded so it cannot pass for a full run
        ctx.notes.append("DEV: Lean stage skipped (C02_NOLEAN)")
        ctx.cov["dev_nolean"] = True
        ctx.cov["obligations"], ctx.cov["discharged"] = 1, 0
    else:
        kit.gen_stage(ctx)
        ctx.lean_stage(extra_props=("Gen", "Compose"))   # + PrecondVerif.ComposeProps.C02.* (Props/Compose.lean)
        ctx.notes.append("model tie #2: merge_small_dims, BlockPartitioner.__init__, should_precondition_dims, exponent_for_preconditioner, _preconds_for_grad regenerated from the source by harness/py2lean.py on this run; bridge theorems PrecondVerif.GenProps.C02.* (Props/Gen.lean) prove them equal to the Model/Shapes.lean functions Geom is built from")
    const_stage(ctx)
    tasks = gen_tasks(ctx.tier, ctx.seed)
    ctx.cov["rule"] = (
        "public distributed_shampoo(...).update under jit, float32 trees (10 trees, leaves of rank 0-4, blocked / merged / one-sided), "
        "replicated and sharded (one-device Mesh), Newton and eigh roots, jax_enable_x64 on (70%) and off; configurations sampled from "
        "7 graft types x beta1 x beta2 (incl. 1.0) x nesterov x moving_average_for_momentum x weight decay x decoupling x lr coupling / "
        "schedule x block size x merging x preconditioner type x exponent override x start step x statistics / preconditioner intervals "
        "x skip thresholds x matrix_epsilon (relative / absolute); histories of T = 6 (quick) to 20 steps of N(0,1) x scale or dyadic "
        "gradients, some all-zero. evaluations = (parameter, step) pairs checked by the factored oracle. A non-trivial case is a "
        "distinct (mode, root, graft, tree, history, parameter, step) with step >= start on a preconditioned parameter whose "
        "preconditioned gradient is not parallel to the gradient (|cos| < 0.999).")
    ctx.assumptions += [
        "factored comparison: the update is compared with the documented pipeline applied to the implementation's own stored statistics, "
        "preconditioners (after the step in replicated mode, before the step in sharded mode) and momenta; which root is stored is C01/C03",
        f"TOL: max|impl - ref| <= tol * max|ref| with tol = {TOL_STATE} for statistics, graft accumulators, graft momentum and "
        f"max({TOL_STATE}, {TOL_AMP} * amp) for updates and Shampoo momentum, amp = max over blocks of prod_a ||P_a||_2 ||G_b||_F / ||G_b x P||_F "
        "(float32 cancellation in the mode products); steps with tol > 1e-3 are counted ill-conditioned",
        "EXACT-DYADIC: on dyadic histories (small integers x 2^k, beta2 in {1, 1/2, 3/4}, matrix_epsilon a power of two) the driver evaluates the "
        "statistics recurrence at exact rationals and flags an entry when every intermediate is a float32 value; flagged entries must be bit-equal",
        "end to end (eigh): exact float64 roots with ridge matrix_epsilon * max(max_ev, 1e-6) where max_ev is the package's OWN power-iteration "
        "estimate on the stored statistic (the ridge actually used, C01; it is a Rayleigh quotient <= lambda_max and is counted under "
        "power_iteration_below_lambda_max when more than 0.1% below), gate decisions taken from the reported error; "
        "tol = 1e-3 kappa^(1/p) max(1, amp/30), steps with tol > 0.05 inconclusive",
        "root residual (Newton): ||P^p (S + dI) - I||_max <= reported error + 2e-6 p kappa + 1e-4 with d = matrix_epsilon * max_eigen_value * "
        "10^(total_retries - 1); checked only when that bound is <= 0.1",
    ]
    tasks = _dev_filter(ctx, tasks)
    obs = execute(ctx, tasks)
    picked = 0
    for o in obs:
        st = o.get("stats", {})
        if picked < 6 and st.get("nontrivial"):
            leaf, t = st["nontrivial"][0]
            ctx.sample({"task": o["task"], "leaf": leaf, "t": t, "update": o["leaves"][leaf]["steps"][t]["upd"][:6]})
            picked += 1


def replay(ctx, data):
    cases = [v["case"] for v in data.get("violations", [])]
    cases += [s["detail"]["case"] for s in data.get("stage_failures", [])
              if isinstance(s.get("detail"), dict) and isinstance(s["detail"].get("case"), dict)]
    tasks, seen = [], set()
    for c in cases:
        t = c.get("task")
        if not isinstance(t, dict) or "mode" not in t:
            continue
        key = repr(sorted(t.items(), key=lambda kv: kv[0]))
        if key in seen:
            continue
        seen.add(key)
        tasks.append(t)
    ctx.cov["rule"] = "replay of recorded cases"
    execute(ctx, tasks)
