"""C08 — block-diagonal semantics: blocks and parameters do not influence each other.

Implementation runs (public APIs only, real code imported from the working tree):
  * Distributed Shampoo (`distributed_shampoo.distributed_shampoo`, float32, Newton and `eigh=True`, a fraction under
    `jax_enable_x64` where the root routine runs in float64) and Tearfree Shampoo (`tearfree.shampoo.apply`, x64).
  * `blocks` tasks: a blocked tensor (1, 2 or 3 blocked axes, ragged last block for DS, per-block gradient scales
    1e-6..1e6, histories of several steps) against the same blocks as separate leaves of one tree.  Pre-graft directions
    are compared (DS: `GraftingType.NONE`, coupled learning rate, so update = -momentum(preconditioned gradient);
    Tearfree: the second-order transformation alone).  A second blocked run with a real graft type must be
    `-c * (direction assembled from the separate leaves)` for ONE scalar c per step: the parameter-level grafting norm
    is the only coupling the property allows.
  * `companions` tasks: leaves of interest alone against the same leaves inside trees with extra companion leaves of
    arbitrary rank, shape and gradient scale (they change max_size, the padding of every statistic, the batch and the
    tree order); any graft type, momentum, nesterov.  Updates and the complete per-leaf state are compared.
  * `rootpad` tasks: the public `matrix_inverse_pth_root(pad(A, N), p, padding_start=s)` against
    `matrix_inverse_pth_root(A, p)`: the hypothesis `root_padding_invariant` of the Lean theorems on the real routine.

Comparison policy: TOL(1e-5 x kappa) relative to the norm of the leaf's (block's) own update / state entry, kappa =
max(1, (lambda_max / max(lambda_min, ridge))^(1/p)) over the leaf's statistics (the conditioning of the inverse root:
a larger padded matmul / eigh sums in a different order); bitwise equality is recorded.  Discontinuities: before two
runs are compared on a leaf, the per-statistic `total_retries`, Newton iteration count and the acceptance decision
(`error < inverse_failure_threshold`) of both runs must agree at this and every earlier step; otherwise the (leaf, step)
is counted `branch-flip` / `gate-flip`, re-examined (each stored root must satisfy its own residual equation) and
never reported by itself.  Tearfree: a statistic eigenvalue within 1e-6 (relative) of the cut `eps * max(w)` makes the
step `cut-boundary`.

Correspondence with the Lean model (`Model/BlockDiag.lean`, driver `drv_c08`):
  * `ds_plan`: for a tree of shapes and a block size the model lists every statistic slot (leaf, block, axis, slice
    offsets, size), the exponent, max_size and the padding starts; compared EXACT with the state layout, and every
    slot's *content* is checked against a numpy Gram matrix of exactly that slice of the gradient history.
  * `tf_plan`: the same for Tearfree's blocks axis ([N, B, B] statistics; block n <-> slice offsets).
  * `tf_mask`: per-block eigenvalue cut on exact rational spectra (observable through zero root directions of diagonal
    statistics): EXACT; the model's `sharedMask` (D7, unrepaired) must differ on the D7 witness.
  * `newton_pad`: the model's masked coupled Newton iteration on pad(A, N) and on A, Float64 and Rat: the two model
    results must coincide exactly (the theorem, executed), and the real routine's root must agree with the Float run for
    the reported iteration count: TOL(1e-4 x kappa).
"""
import contextlib
import io
import json
import math
import os
import random
from fractions import Fraction

from harness import kit

DS_FILE = "distributed_shampoo.py"
TF_FILE = "tearfree/shampoo.py"
TOL = 1e-5
GRAFTS = ["SGD", "ADAGRAD", "RMSPROP", "RMSPROP_NORMALIZED", "SQRT_N", "ADAGRAD_NORMALIZED"]


# ============================================================================ deterministic materialisation
def split_sizes(d, block):
    """BlockPartitioner's split of one dimension."""
    if 0 < block < d:
        n = (d - 1) // block
        return [block] * n + [d - n * block]
    return [d]


def ds_blocks_of(shape, block):
    """list of slices tuples in BlockPartitioner.partition order (first split axis is the slowest index)"""
    import itertools
    per_axis = []
    for d in shape:
        sizes = split_sizes(d, block)
        offs, o = [], 0
        for s in sizes:
            offs.append((o, o + s))
            o += s
        per_axis.append(offs)
    return [tuple(t) for t in itertools.product(*per_axis)]


def tf_blocks_of(shape, block):
    """Tearfree: large axes (d >= block, divisible) are cut in d // block blocks; blocks axis index = l * r_blocks + r"""
    import itertools
    per_axis = []
    for d in shape:
        if d >= block:
            per_axis.append([(i * block, (i + 1) * block) for i in range(d // block)])
        else:
            per_axis.append([(0, d)])
    return [tuple(t) for t in itertools.product(*per_axis)]


def _sl(a, blk):
    return a[tuple(slice(lo, hi) for lo, hi in blk)]


def _block_scales(rs, nb, mode):
    import numpy as np
    if isinstance(mode, (list, tuple)):
        return np.array([float(x) for x in mode][:nb] + [1.0] * max(0, nb - len(mode)))
    if mode == "wide":
        return 10.0 ** rs.uniform(-6, 6, size=nb)
    if mode == "mid":
        return 10.0 ** rs.uniform(-3, 3, size=nb)
    if mode == "d7":                      # the D7 pattern: one block at 1, the others at 1e-4
        s = np.full(nb, 1e-4)
        s[rs.randint(nb)] = 1.0
        return s
    if mode == "extreme":
        return 10.0 ** rs.choice([-6.0, 6.0, 0.0, -3.0, 3.0], size=nb)
    return np.ones(nb)


def make_history(seed, shape, blocks, scales, T, dtype, lowrank=False):
    """T gradients; block b is N(0,1) x scales[b]; optionally one step with a zero block"""
    import numpy as np
    rs = np.random.RandomState(seed)
    out = []
    zero_step = rs.randint(T + 2)
    zero_blk = rs.randint(len(blocks))
    for t in range(T):
        g = rs.standard_normal(shape)
        for b, blk in enumerate(blocks):
            v = _sl(g, blk)
            v *= scales[b]
            if t == zero_step and b == zero_blk and len(blocks) > 1:
                v *= 0.0
        out.append(np.asarray(g, dtype))
    return out


# ============================================================================ workers: Distributed Shampoo
def paxes(rank, ptype):
    """axes of a (merged) block that get a preconditioner (Preconditioner.should_precondition_dims)"""
    if ptype in (None, "ALL") or rank <= 1:
        return list(range(rank))
    if ptype == "INPUT":
        return list(range(rank - 1))
    return [rank - 1]


def _ds_opt(c, graft, beta1=None):
    from precondition import distributed_shampoo as ds
    kw = {}
    if c["root"] == "eigh":
        kw["eigh"] = True
    if c.get("ptype"):
        kw["precondtioner_type"] = getattr(ds.PreconditionerType, c["ptype"])      # (sic) the package's spelling
    if c.get("comp"):
        kw["compression_rank"] = c["comp"]
    mode = c.get("mode", "replicated")
    if mode == "pmapq":
        kw.update(batch_axis_name="batch", best_effort_memory_usage_reduction=True)
    elif mode == "pmap":
        kw.update(batch_axis_name="batch")
    elif mode == "sharded":
        from jax.sharding import PartitionSpec as P
        spec = P("x", None, None)
        kw.update(shard_optimizer_states=True, statistics_partition_spec=spec, preconditioner_partition_spec=spec,
                  num_devices_for_pjit=1)
    return ds.distributed_shampoo(
        c.get("lr", 0.1), block_size=c["block"], beta1=(c.get("beta1", 0.0) if beta1 is None else beta1), beta2=c["beta2"],
        diagonal_epsilon=1e-10, matrix_epsilon=c.get("meps", 1e-6), weight_decay=0.0, start_preconditioning_step=0,
        preconditioning_compute_steps=c.get("pcs", 1), statistics_compute_steps=1,
        best_effort_shape_interpretation=False, graft_type=getattr(ds.GraftingType, graft),
        nesterov=c.get("nesterov", False), skip_preconditioning_rank_lt=1, decoupled_learning_rate=False,
        moving_average_for_momentum=c.get("mavg", False), generate_training_metrics=True, **kw)


def _np(x):
    import numpy as np
    return np.asarray(x)


def _dense(v, dev0):
    """float view of a statistic / preconditioner (plain array, or int-quantized value with per-column buckets)"""
    import numpy as np
    if hasattr(v, "quantized"):
        q = dev0(v.quantized)
        if q.dtype.kind == "i":
            d, b = dev0(v.diagonal), dev0(v.bucket_size)
            out = q.astype(np.float32) * b[np.newaxis, :]
            if d.size:
                out = out + np.diag(d)
            return out, q
        return q, None
    return dev0(v), None


def _ds_leaf_state(st, dev0=None, glob=None):
    """numpy view of one parameter's state; `glob` = (statistics, preconditioners) of the sharded global state"""
    import numpy as np
    dev0 = dev0 or (lambda x: np.asarray(x))
    m = st.training_metrics
    fl = lambda v: dev0(v.to_float()) if hasattr(v, "to_float") else dev0(v)   # noqa: E731
    d = {"mom": fl(st.momentum), "dmom": fl(st.diagonal_momentum), "payload": []}
    if glob is not None:
        i0 = int(st.index_start)
        sizes = [int(z) for z in st.sizes]
        d["index_start"] = i0
        d["stats"] = [np.asarray(glob[0][i0 + k])[:z, :z] for k, z in enumerate(sizes)]
        d["pre"] = [np.asarray(glob[1][i0 + k])[:z] for k, z in enumerate(sizes)]
        d["pre"] = [x[:, :z] if x.shape[1] >= z and not glob[2] else x for x, z in zip(d["pre"], sizes)]
        nst = len(sizes)
    else:
        d["stats"], d["pre"] = [], []
        for v in st.statistics:
            a, _q = _dense(v, dev0)
            d["stats"].append(a)
        for v in st.preconditioners:
            a, q = _dense(v, dev0)
            d["pre"].append(a)
            if q is not None:
                d["payload"].append(q)
        nst = len(st.statistics)
    ds_ = st.diagonal_statistics
    ds_ = ds_.to_float() if hasattr(ds_, "to_float") else ds_
    d["diag"] = dev0(ds_) if not isinstance(ds_, (list, tuple)) else np.zeros(0)
    if nst:
        d["err"] = dev0(m.inverse_pth_root_errors).reshape(-1)
        d["iters"] = dev0(m.inverse_pth_root_iters).reshape(-1)
        d["retries"] = dev0(m.total_retries).reshape(-1)
        d["maxev"] = dev0(m.max_eigen_value).reshape(-1)
    else:
        d["err"] = d["iters"] = d["retries"] = d["maxev"] = np.zeros(0)
    return d


def _own_root(ls, p, c):
    """every accepted stored root must be the inverse p-th root of ITS OWN statistic: max|X^p (S + ridge I) - I| small.
    Returns the offending slots.  Inconclusive slots (float32 and kS so large that rounding alone reaches 0.25) are skipped."""
    import numpy as np
    bad = []
    thr = c.get("thr", 0.1)
    meps = c.get("meps", 1e-6)
    floor = 1e-25 if c.get("root") == "newton" else 1e-6
    u = 2.0 ** -24          # the stored root is float32 even when the routine ran in float64 (x64)
    for k, (s_, x) in enumerate(zip(ls["stats"], ls["pre"])):
        e = float(ls["err"][k])
        s_ = np.asarray(s_, np.float64)
        x = np.asarray(x, np.float64)
        if not (e < thr) or x.shape != s_.shape or not np.all(np.isfinite(x)):
            continue
        n = len(s_)
        w = np.linalg.eigvalsh((s_ + s_.T) / 2)
        lmax = max(float(w[-1]), 0.0)
        r = int(ls["retries"][k]) - 1 if (n > 1 and ls["retries"][k] > 0) else 0
        # the ridge the routine really used: eps * max(max_ev, floor) with ITS power-iteration estimate of max_ev (reported for the
        # Newton path; it can be below lambda_max by a fraction of a percent when the top eigenvalues are close)
        mev = float(ls["maxev"][k]) if (len(ls.get("maxev", [])) > k and ls["maxev"][k] > 0) else lmax
        ridge = meps * max(mev, floor) * 10.0 ** r
        ks = (lmax + ridge) / (max(float(w[0]), 0.0) + ridge) if lmax > 0 else 1.0
        bound = max(20 * e, 512 * u * ks, 1e-3)
        if bound > 0.25:
            continue
        ls["ownroot_conclusive"] = ls.get("ownroot_conclusive", 0) + 1
        res = float(np.max(np.abs(np.linalg.matrix_power(x, p) @ (s_ + ridge * np.eye(n)) - np.eye(n))))
        if not res <= bound:
            bad.append({"k": k, "residual": res, "bound": bound, "size": n})
    return bad


def _collect_runs(rec, run_out, tag):
    """device agreement and own-root oracle over every leaf and step of one pmap run"""
    nconcl = 0
    for t, step in enumerate(run_out):
        for n, (_u, ls) in step.items():
            if ls.get("devdiff", 0.0) > TOL:
                rec["fails"].append({"what": "DS pmap: the devices hold different updates / states for the same leaf", "run": tag, "leaf": n,
                                     "t": t, "rel": ls["devdiff"]})
            for b in ls.get("ownroot_bad", [])[:2]:
                rec["fails"].append({"what": "DS pmap: a stored preconditioner is not the inverse root of its own statistic (slot mix-up)",
                                     "run": tag, "leaf": n, "t": t, **b})
            nconcl += ls.get("ownroot_conclusive", 0)
    rec["ownroot_checked"] = rec.get("ownroot_checked", 0) + nconcl


def ds_run(c, graft, shapes, hist, beta1=None):
    """hist: list over steps of {name: array}. Returns per step {name: (update, leaf_state)}.  Modes: replicated (jit),
    pmapq (int16-quantized statistics and preconditioners, pmap over c['ndev'] forced host devices), sharded (jit under a
    one-device mesh)"""
    import contextlib as _cl
    import numpy as np
    import jax
    import jax.numpy as jnp
    opt = _ds_opt(c, graft, beta1)
    names = sorted(shapes)
    params = {n: jnp.zeros(shapes[n], jnp.float32) for n in names}
    mode = c.get("mode", "replicated")
    out = []
    if mode in ("pmapq", "pmap"):
        devs = jax.devices()[:c.get("ndev", 1)]
        if len(devs) < c.get("ndev", 1):
            raise RuntimeError(f"only {len(devs)} host devices")
        nd = len(devs)
        rep = lambda t: jax.tree.map(lambda x: jnp.broadcast_to(x, (nd,) + x.shape), t)   # noqa: E731
        rparams = rep(params)
        state = jax.pmap(opt.init, axis_name="batch", devices=devs)(rparams)
        upd = jax.pmap(opt.update, axis_name="batch", devices=devs)
        dev0 = lambda x: np.asarray(x)[0]   # noqa: E731
        for g in hist:
            u, state = upd(rep({n: jnp.asarray(g[n], jnp.float32) for n in names}), state, rparams)
            step = {}
            for n in names:
                ls = _ds_leaf_state(jax.tree.map(lambda x: np.asarray(x)[0], state.stats[n]))
                # every device must hold the same update and the same state as device 0
                dd = 0.0
                un = np.asarray(u[n])
                for d_ in range(1, nd):
                    dd = max(dd, _rel(un[d_], un[0]))
                    if mode == "pmap":
                        for x in jax.tree_util.tree_leaves(state.stats[n]):
                            x = np.asarray(x)
                            if x.dtype.kind == "f" and x.shape[0] == nd:
                                dd = max(dd, _rel(x[d_], x[0]))
                ls["devdiff"] = dd
                if mode == "pmap" and len(shapes[n]) >= 1:
                    ls["ownroot_bad"] = _own_root(ls, 2 * len(paxes(len(shapes[n]), c.get("ptype"))), c)
                step[n] = (dev0(u[n]), ls)
            out.append(step)
        return out
    if mode == "sharded":
        from jax.sharding import Mesh
        mesh = Mesh(np.array(jax.devices()[:1]), ("x",))
        with mesh:
            state = opt.init(None).init_fn(params)
            upd = jax.jit(opt.update)
            for g in hist:
                u, state = upd({n: jnp.asarray(g[n], jnp.float32) for n in names}, state, params)
                gs = state.stats.global_stats
                glob = (np.asarray(gs.statistics), np.asarray(gs.preconditioners), bool(c.get("comp")))
                out.append({n: (_np(u[n]), _ds_leaf_state(state.stats.local_stats[n], None, glob)) for n in names})
        return out
    with _cl.nullcontext():
        state = opt.init(params)
        upd = jax.jit(opt.update)
        for g in hist:
            u, state = upd({n: jnp.asarray(g[n], jnp.float32) for n in names}, state, params)
            out.append({n: (_np(u[n]), _ds_leaf_state(state.stats[n])) for n in names})
    return out


def _rel(a, b):
    """|a - b| relative to |b| (0 when both vanish)"""
    import numpy as np
    a = np.asarray(a, np.float64)
    b = np.asarray(b, np.float64)
    if a.shape != b.shape:
        return float("inf")
    nb = float(np.linalg.norm(b))
    d = float(np.linalg.norm(a - b))
    if not np.isfinite(d):
        return 0.0 if (np.array_equal(np.isnan(a), np.isnan(b)) and np.array_equal(a[~np.isnan(a)], b[~np.isnan(b)])) else float("inf")
    if d == 0.0:
        return 0.0
    return d / nb if nb > 0 else float("inf")


def _kappa(stats, p, meps, floor, both=False):
    """conditioning of the inverse p-th root of (S + ridge I): kS = (lmax + ridge) / (lmin + ridge) and kS^(1/p), max over
    the statistics"""
    import numpy as np
    k = 1.0
    for s in stats:
        s = np.asarray(s, np.float64)
        if s.size == 0 or not np.all(np.isfinite(s)):
            continue
        w = np.linalg.eigvalsh((s + s.T) / 2)
        lmax = max(float(w[-1]), 0.0)
        ridge = meps * max(lmax, floor)
        lo = max(float(w[0]), 0.0) + ridge
        if lo > 0 and lmax > 0:
            k = max(k, (lmax + ridge) / lo)
    return (k ** (1.0 / p), k) if both else k ** (1.0 / p)


def _tols(stats, p, c, floor=None):
    """(kappa_root, tolerance for updates, tolerance for stored roots).  TOL(1e-5 x kS^(1/p)) as designed, widened to the
    rounding level of the root routine's own arithmetic (float32 unless x64): an eigenvalue lambda_i of S + ridge I is only
    known to u * lambda_max, i.e. its root to u * kS / p relative; a gradient that is part of the statistics excites
    direction i by at most sqrt(lambda_i), which leaves u * kS^(3/4).  The constants (128, 256) cover the dimension-dependent
    factors of LAPACK's float32 eigh / the Newton recursion (observed tail: 2e-5 at kS = 40 between a 7x7 and its 21x21 padding);
    under x64 these terms are < 1e-9 and TOL(1e-5 kS^(1/p)) decides."""
    if floor is None:
        floor = 1e-25 if c.get("root") == "newton" else 1e-6
    kr, ks = _kappa(stats, p, c.get("meps", 1e-6), floor, both=True)
    u = 2.0 ** -53 if c.get("x64") else 2.0 ** -24
    return kr, max(TOL * kr, 128 * u * ks ** 0.75), max(TOL * kr, 256 * u * ks)


def _mode_tols(c, kap, tol, tolp, nmax=8, naxes=2):
    """tolerances for (update, statistics, stored roots) in the optimizer modes"""
    tst = TOL
    if c.get("mode") == "pmapq":
        # int16 payloads: a rounding-level change of a root entry may move its payload by one unit = max|column| / 32767
        # (classified `payload.one-unit-flip`); an n x n root with such flips is off by <= n units in norm, a gradient may excite
        # the small directions of the root (factor kappa_root), one root per preconditioned axis
        q = 4.0 * max(nmax, 1) * max(naxes, 1) / 32767
        tol, tolp, tst = tol + q * kap, tolp + 8.0 / 32767, 1e-4
    if c.get("mode") == "sharded":
        # the sharded update applies the roots of the PREVIOUS refresh: the current gradient is not part of those statistics and
        # may excite their weakest directions fully, so the update is only as accurate as the stored roots
        tol = max(tol, tolp)
    if c.get("comp"):
        tolp = float("inf")     # packed roots: eigenvector signs are free; the update decides
    return tol, tst, tolp


def _gap_ok(stats, comp):
    """compression_rank: the retained eigen-directions are well separated from the averaged ones (C10's caveat)"""
    import numpy as np
    r = abs(comp)
    for s_ in stats:
        s_ = np.asarray(s_, np.float64)
        n = len(s_)
        if n <= r + 2:
            continue
        w = np.linalg.eigvalsh((s_ + s_.T) / 2)[::-1]
        if not w[0] > 0:
            return False
        gap = (w[r - 1] - w[r]) if comp > 0 else (w[n - r - 1] - w[n - r])
        if not gap >= 0.05 * w[0]:
            return False
    return True


def _payload_class(rec, a, b):
    import numpy as np
    for x, y in zip(a.get("payload", []), b.get("payload", [])):
        if x.shape != y.shape:
            continue
        d = int(np.max(np.abs(x.astype(np.int64) - y.astype(np.int64)))) if x.size else 0
        k = "payload.equal" if d == 0 else ("payload.one-unit-flip" if d == 1 else "payload.more-than-one-unit")
        rec["flips"][k] = rec["flips"].get(k, 0) + 1


def _decisions(ls, thr):
    import numpy as np
    e = ls["err"]
    return np.logical_or(np.isnan(e), e >= thr)


def _flip_class(a, b, thr):
    """a, b: lists (over the statistics that belong together) of metric dicts from the two runs"""
    import numpy as np
    if not np.array_equal(a["retries"], b["retries"]):
        return "branch-flip"
    if not np.array_equal(_decisions(a, thr), _decisions(b, thr)):
        return "gate-flip"
    if not np.array_equal(a["iters"], b["iters"]):
        # same ridge (total_retries agree), same gate decision, only the iteration counts differ: both roots solve the SAME
        # equation to within the residuals they report, so they are still comparable (re-examination by the property's own
        # oracle): the caller widens the tolerance by _iter_slack and keeps comparing
        return "iter-flip"
    return None


def _iter_slack(a, b, kap, nmax):
    """two Newton roots of the same damped matrix with reported residuals e_a, e_b differ by at most ~ n (e_a + e_b) kappa_root"""
    import numpy as np
    e = max([1e-6] + [float(x) for x in np.concatenate([np.asarray(a["err"]).ravel(), np.asarray(b["err"]).ravel()]) if np.isfinite(x)])
    return 4.0 * max(nmax, 1) * e * kap


def _cat_metrics(lst):
    import numpy as np
    return {k: np.concatenate([np.asarray(x[k]).reshape(-1) for x in lst]) if lst else np.zeros(0)
            for k in ("err", "iters", "retries", "maxev")}


def _reexamine(ls, p, meps, thr):
    """branch/gate flip: every accepted stored root must satisfy its own equation X^p (S + ridge 10^(r-1) I) ~ I within
    the error it reported (+ float32 slack); returns number of suspect roots"""
    import numpy as np
    bad = 0
    for k, (s, x) in enumerate(zip(ls["stats"], ls["pre"])):
        e = float(ls["err"][k])
        if not (e < thr) or np.asarray(x).shape != np.asarray(s).shape or ls.get("payload"):
            continue
        s = np.asarray(s, np.float64)
        x = np.asarray(x, np.float64)
        n = len(s)
        if n == 1 or ls["retries"][k] == 0:      # 1x1 / eigh: no ridge escalation reported
            r = 0
        else:
            r = int(ls["retries"][k]) - 1
        lmax = max(float(np.linalg.eigvalsh((s + s.T) / 2)[-1]), 0.0)
        ridge = meps * max(lmax, 1e-25) * 10.0 ** r
        res = float(np.max(np.abs(np.linalg.matrix_power(x, p) @ (s + ridge * np.eye(n)) - np.eye(n))))
        if not res <= max(10 * e, 5e-2):
            bad += 1
    return bad


def run_ds_blocks(c):
    """blocked tensor vs its blocks as separate leaves (+ a grafted blocked run)"""
    import numpy as np
    import jax
    jax.config.update("jax_enable_x64", bool(c.get("x64")))
    shape, block, T = tuple(c["shape"]), c["block"], c["T"]
    blocks = ds_blocks_of(shape, block)
    nb = len(blocks)
    rs = np.random.RandomState(c["seed"])
    scales = _block_scales(rs, nb, c["scales"])
    hist = make_history(c["seed"] + 1, shape, blocks, scales, T, np.float32)
    names = ["b%03d" % i for i in range(nb)]
    thr = c["thr"]
    rank = len(shape)
    pax = paxes(rank, c.get("ptype"))
    p = 2 * len(pax)
    rec = {"task": c, "fails": [], "rows": [], "flips": {}, "bitwise": 0, "compared": 0, "nontrivial": [], "plan": None,
           "maxrel": 0.0, "reexam_suspect": 0}
    whole = ds_run(c, "NONE", {"w": shape}, [{"w": g} for g in hist])
    sep = ds_run(c, "NONE", {n: tuple(hi - lo for lo, hi in blk) for n, blk in zip(names, blocks)},
                 [{n: _sl(g, blk) for n, blk in zip(names, blocks)} for g in hist])
    graft = c.get("graft")
    grafted = ds_run(c, graft, {"w": shape}, [{"w": g} for g in hist], beta1=0.0) if graft else None
    if c.get("mode") in ("pmap", "pmapq"):
        _collect_runs(rec, whole, "blocked")
        _collect_runs(rec, sep, "separate")
    nst = len(pax)
    dead = [False] * nb
    prev_tol = [0.0] * nb
    slack = [0.0] * nb
    rec["streams"] = nb
    # ---- plan observation (layout of the blocked leaf's state)
    rec["plan"] = {"nstats": len(whole[0]["w"][1]["stats"]), "sizes": [int(s.shape[0]) for s in whole[0]["w"][1]["stats"]]}
    # ---- slot contents: statistic (block b, axis a) is the decayed Gram matrix of exactly that slice
    w2 = 1.0 if c["beta2"] == 1.0 else 1.0 - c["beta2"]
    ref = [[c.get("meps", 1e-6) * np.eye(blk[a][1] - blk[a][0]) for a in pax] for blk in blocks]
    ctol = 5e-4 if c.get("mode") == "pmapq" else 2e-5
    for t in range(T):
        uW, sW = whole[t]["w"]
        for b, blk in enumerate(blocks):
            gb = np.asarray(_sl(hist[t], blk), np.float64)
            for k_, a in enumerate(pax):
                m = np.moveaxis(gb, a, 0).reshape(gb.shape[a], -1)
                ref[b][k_] = c["beta2"] * ref[b][k_] + w2 * (m @ m.T)
                got = sW["stats"][b * nst + k_]
                r = _rel(got, ref[b][k_])
                if not r <= ctol:
                    rec["fails"].append({"what": "DS statistic slot does not hold the Gram matrix of its own block slice",
                                         "t": t, "block": b, "axis": a, "rel": r})
        mw = sW
        for b, (n, blk) in enumerate(zip(names, blocks)):
            uS, sS = sep[t][n]
            sub = {k: mw[k][b * nst:(b + 1) * nst] for k in ("err", "iters", "retries", "maxev")}
            fl = _flip_class(sub, sS, thr)
            if fl == "iter-flip":
                if not dead[b]:
                    rec["flips"][fl] = rec["flips"].get(fl, 0) + 1
                    kap_, _, _ = _tols(sS["stats"], p, c)
                    slack[b] = max(slack[b], _iter_slack(sub, sS, kap_, max([x.shape[0] for x in sS["stats"]] + [1])))
                fl = None
            if fl and not dead[b]:
                dead[b] = True
                rec["flips"][fl] = rec["flips"].get(fl, 0) + 1
                if fl == "gate-flip" and c["root"] == "eigh":
                    _, tol_, _ = _tols(sS["stats"], p, c)
                    r_ = _rel(_sl(uW, blk), uS)
                    if not r_ <= tol_:
                        rec.setdefault("k8", []).append({"block": b, "t": t, "rel": r_, "tol": tol_,
                                                         "errors_blocked": [float(x) for x in sub["err"]],
                                                         "errors_separate": [float(x) for x in sS["err"]]})
                rec["reexam_suspect"] += _reexamine(sS, p, c.get("meps", 1e-6), thr)
                rec["reexam_suspect"] += _reexamine({"stats": sW["stats"][b * nst:(b + 1) * nst], "pre": sW["pre"][b * nst:(b + 1) * nst],
                                                     "err": sub["err"], "retries": sub["retries"]}, p, c.get("meps", 1e-6), thr)
            if not dead[b] and c.get("comp") and not _gap_ok(sS["stats"], c["comp"]):
                dead[b] = True
                rec["flips"]["gap-small"] = rec["flips"].get("gap-small", 0) + 1
            if dead[b]:
                continue
            kap, tol, tolp = _tols(sS["stats"], p, c)
            tol, tst, tolp = _mode_tols(c, kap, tol, tolp, max([x.shape[0] for x in sS["stats"]] + [1]), nst)
            if c.get("mode") == "sharded":
                tol, prev_tol[b] = max(tol, prev_tol[b]), tol
            tol, tolp = tol + slack[b], tolp + slack[b]
            _payload_class(rec, {"payload": sW.get("payload", [])[b * nst:(b + 1) * nst]}, sS)
            a_, b_ = _sl(uW, blk), uS
            r = _rel(a_, b_)
            rec["compared"] += 1
            rec["maxrel"] = max(rec["maxrel"], r / kap)
            bit = bool(np.array_equal(a_, b_))
            rec["bitwise"] += bit
            if not r <= tol:
                rec["fails"].append({"what": "DS blocked tensor: update of a block differs from the update of the block as a separate leaf",
                                     "t": t, "block": b, "rel": r, "tol": tol, "scale": float(scales[b])})
            # state of the block
            for a in range(nst):
                for key, tl in (("stats", tst), ("pre", tolp)):
                    if tl == float("inf"):
                        continue
                    rr = _rel(sW[key][b * nst + a], sS[key][a])
                    if not rr <= tl:
                        rec["fails"].append({"what": f"DS blocked tensor: {key}[block,axis] differs from the separate leaf's", "t": t,
                                             "block": b, "axis": a, "rel": rr, "tol": tl})
            rr = _rel(_sl(sW["mom"], blk), sS["mom"]) if c.get("mode") != "pmapq" else 0.0   # int8 momentum: per-parameter column scales
            if not rr <= tol:
                rec["fails"].append({"what": "DS blocked tensor: momentum of a block differs from the separate leaf's", "t": t, "block": b,
                                     "rel": rr, "tol": tol})
            if float(np.linalg.norm(b_)) > 0 and nb > 1 and max(scales) / min(scales) >= 10:
                rec["nontrivial"].append((b, t))
        # ---- grafted blocked run: one scalar per step
        if grafted is not None and not any(dead):
            uG, sG = grafted[t]["w"]
            # the grafted run has its own roots: its flips against `whole` must be classified as well
            fl = _flip_class(sG, sW, thr)
            if fl:
                rec["flips"][fl + "(graft)"] = rec["flips"].get(fl + "(graft)", 0) + 1
                grafted = None
                continue
            # beta1 = 0 in the grafted run; pre-graft direction P (no momentum) comes from the separate leaves when beta1 = 0
            if c.get("beta1", 0.0) == 0.0:
                P = np.zeros(shape, np.float64)
                for n, blk in zip(names, blocks):
                    P[tuple(slice(lo, hi) for lo, hi in blk)] = -np.asarray(sep[t][n][0], np.float64)
                U = np.asarray(uG, np.float64)
                pp = float(np.vdot(P, P))
                if pp > 0 and np.all(np.isfinite(U)):
                    cfit = float(np.vdot(U, P)) / pp
                    tg = 4 * max(_tols(sep[t][n][1]["stats"], p, c)[1] for n in names)
                    res = float(np.linalg.norm(U - cfit * P)) / max(float(np.linalg.norm(U)), 1e-300)
                    rec["compared"] += 1
                    if not res <= tg:
                        rec["fails"].append({"what": "DS blocked tensor with grafting: update is not (one scalar) x (directions of the separate blocks)",
                                             "t": t, "graft": graft, "rel": res, "tol": tg})
                    if graft == "SGD":
                        want = -c.get("lr", 0.1) * float(np.linalg.norm(hist[t])) / (math.sqrt(pp) + 1e-25)
                        if not abs(cfit - want) <= 1e-4 * abs(want):
                            rec["fails"].append({"what": "DS blocked tensor, SGD graft: the scalar is not the parameter-level norm ratio",
                                                 "t": t, "c": cfit, "want": want})
    rec["scales"] = [float(s) for s in scales]
    return rec


def _companion_sets(c):
    return c["companions"]


def run_ds_companions(c):
    """leaves of interest alone vs inside trees with companion leaves"""
    import numpy as np
    import jax
    jax.config.update("jax_enable_x64", bool(c.get("x64")))
    T, thr, graft = c["T"], c["thr"], c["graft"]
    leaves = {n: tuple(s) for n, s in c["leaves"].items()}
    rs = np.random.RandomState(c["seed"])
    hist = {}
    k8rs = None
    if c.get("recipe") == "k8":          # the witness of known finding K8 (corpus/reproducers/k8_eigh_gate_absolute_error.py)
        k8rs = np.random.RandomState(c["seed"])
        hist["w"] = [np.asarray(k8rs.randn(5, 5) * 460., np.float32) for _ in range(T)]
    else:
        for i, n in enumerate(sorted(leaves)):
            blocks = ds_blocks_of(leaves[n], c["block"])
            sc = _block_scales(rs, len(blocks), c["scales"]) * 10.0 ** (rs.uniform(-3, -1) if c.get("small") else rs.uniform(-1.5, 0.7) if c.get("moderate") else rs.uniform(-3, 3))
            hist[n] = make_history(c["seed"] + 7 * i + 1, leaves[n], blocks, sc, T, np.float32)
    rec = {"task": c, "fails": [], "flips": {}, "bitwise": 0, "compared": 0, "nontrivial": [], "maxrel": 0.0,
           "reexam_suspect": 0, "layouts": []}
    base = ds_run(c, graft, leaves, [{n: hist[n][t] for n in leaves} for t in range(T)])
    if c.get("mode") in ("pmap", "pmapq"):
        _collect_runs(rec, base, "alone")
    for vi, comp in enumerate(c["companions"]):
        cshapes = {n: tuple(s) for n, s, _ in comp}
        ch = {}
        for j, (n, s, sc) in enumerate(comp):
            r2 = k8rs if k8rs is not None else np.random.RandomState(c["seed"] + 1000 * (vi + 1) + j)
            ch[n] = [np.asarray(r2.randn(*tuple(s)) * sc, np.float32) for _ in range(T)]
        shapes = dict(leaves)
        shapes.update(cshapes)
        full = ds_run(c, graft, shapes, [{**{n: hist[n][t] for n in leaves}, **{n: ch[n][t] for n in cshapes}} for t in range(T)])
        if c.get("mode") in ("pmap", "pmapq"):
            _collect_runs(rec, full, "with companions %d" % vi)
        for n in sorted(leaves):
            dead = False
            prev_tol = 0.0
            slack = 0.0
            rec["streams"] = rec.get("streams", 0) + 1
            rank = len(leaves[n])
            p = 2 * max(len(paxes(rank, c.get("ptype"))), 1)
            for t in range(T):
                uA, sA = base[t][n]
                uB, sB = full[t][n]
                if len(sA["stats"]) != len(sB["stats"]) or any(x.shape != y.shape for x, y in zip(sA["stats"], sB["stats"])):
                    rec["fails"].append({"what": "DS: state layout of a leaf depends on the other leaves", "leaf": n, "variant": vi})
                    dead = True
                    break
                fl = _flip_class(sA, sB, thr)
                if fl == "iter-flip":
                    rec["flips"][fl] = rec["flips"].get(fl, 0) + 1
                    kap_, _, _ = _tols(sA["stats"], p, c)
                    slack = max(slack, _iter_slack(sA, sB, kap_, max([x.shape[0] for x in sA["stats"]] + [1])))
                    fl = None
                if fl and not dead:
                    dead = True
                    rec["flips"][fl] = rec["flips"].get(fl, 0) + 1
                    rec["reexam_suspect"] += _reexamine(sA, p, c.get("meps", 1e-6), thr) + _reexamine(sB, p, c.get("meps", 1e-6), thr)
                    if fl == "gate-flip" and c["root"] == "eigh":
                        # known finding K8: the absolute eigh residual straddles inverse_failure_threshold; one run stored the new
                        # root, the other kept the old one.  Reported when the pair really differs beyond tolerance.
                        _, tol_, _ = _tols(sA["stats"], p, c)
                        r_ = _rel(uB, uA)
                        if not r_ <= tol_:
                            rec.setdefault("k8", []).append({"leaf": n, "variant": vi, "t": t, "rel": r_, "tol": tol_,
                                                             "errors_alone": [float(x) for x in sA["err"]],
                                                             "errors_with_companions": [float(x) for x in sB["err"]]})
                if not dead and c.get("comp") and not _gap_ok(sA["stats"], c["comp"]):
                    dead = True
                    rec["flips"]["gap-small"] = rec["flips"].get("gap-small", 0) + 1
                if dead:
                    break
                kap, tol, tolp = _tols(sA["stats"], p, c)
                tol, tst, tolp = _mode_tols(c, kap, tol, tolp, max([x.shape[0] for x in sA["stats"]] + [1]), len(paxes(rank, c.get("ptype"))))
                if c.get("mode") == "sharded":
                    tol, prev_tol = max(tol, prev_tol), tol
                tol, tolp = tol + slack, tolp + slack
                _payload_class(rec, sA, sB)
                if "index_start" in sA and sA["index_start"] != sB["index_start"]:
                    rec["flips"]["sharded.index_start_shifted"] = rec["flips"].get("sharded.index_start_shifted", 0) + 1
                r = _rel(uB, uA)
                rec["compared"] += 1
                rec["maxrel"] = max(rec["maxrel"], r / kap)
                rec["bitwise"] += bool(np.array_equal(uA, uB))
                if not r <= tol:
                    rec["fails"].append({"what": "DS: update of a leaf changes when other leaves are added to the tree", "leaf": n,
                                         "variant": vi, "t": t, "rel": r, "tol": tol})
                for key, tl in (("stats", tst), ("pre", tolp)):
                    if tl == float("inf"):
                        continue
                    for k, (x, y) in enumerate(zip(sA[key], sB[key])):
                        rr = _rel(y, x)
                        if not rr <= tl:
                            rec["fails"].append({"what": f"DS: state ({key}) of a leaf changes when other leaves are added", "leaf": n,
                                                 "variant": vi, "t": t, "k": k, "rel": rr, "tol": tl})
                for key in (("diag",) if c.get("mode") == "pmapq" else ("mom", "dmom", "diag")):   # pmapq: momenta are int8-quantized
                    rr = _rel(sB[key], sA[key])
                    if not rr <= tol:
                        rec["fails"].append({"what": f"DS: state ({key}) of a leaf changes when other leaves are added", "leaf": n,
                                             "variant": vi, "t": t, "rel": rr, "tol": tol})
                if float(np.linalg.norm(uA)) > 0 and len(sA["stats"]):
                    rec["nontrivial"].append((n, vi, t))
        mx = max([0] + [x.shape[0] for n in shapes for x in full[0][n][1]["stats"]])
        rec["layouts"].append({"variant": vi, "max_size": int(mx), "own_max": int(max([0] + [x.shape[0] for n in leaves for x in base[0][n][1]["stats"]])),
                               "nstats": int(sum(len(full[0][n][1]["stats"]) for n in shapes)),
                               "index_start": ({n: full[0][n][1]["index_start"] for n in sorted(shapes)}
                                               if c.get("mode") == "sharded" else None)})
    return rec


# ============================================================================ workers: root padding (public matrix_inverse_pth_root)
def run_rootpad(c):
    import numpy as np
    import jax
    import jax.numpy as jnp
    jax.config.update("jax_enable_x64", bool(c.get("x64")))
    from precondition import distributed_shampoo as ds
    rs = np.random.RandomState(c["seed"])
    s, N, p = c["s"], c["N"], c["p"]
    k = c["rank"]
    G = rs.standard_normal((s, k)) * 10.0 ** c["logscale"]
    A = (G @ G.T + c["diag"] * np.eye(s)).astype(np.float32)
    Ap = np.asarray(ds.pad_square_matrix(jnp.asarray(A), N))
    eigh = c["root"] == "eigh"
    fa = jax.jit(lambda m: ds.matrix_inverse_pth_root(m, p, ridge_epsilon=c.get("meps", 1e-6), eigh=eigh))
    fb = jax.jit(lambda m, ps: ds.matrix_inverse_pth_root(m, p, ridge_epsilon=c.get("meps", 1e-6), eigh=eigh, padding_start=ps))
    Xa, ma = fa(jnp.asarray(A))
    Xb, mb = fb(jnp.asarray(Ap), jnp.asarray(s, jnp.int32))
    Xa, Xb = np.asarray(Xa), np.asarray(Xb)
    rec = {"task": c, "fails": [], "flips": {}, "bitwise": 0, "compared": 1, "nontrivial": [], "maxrel": 0.0, "reexam_suspect": 0}
    met = lambda m: {"err": _np(m.inverse_pth_root_errors).reshape(-1), "iters": _np(m.inverse_pth_root_iters).reshape(-1),
                     "retries": _np(m.total_retries).reshape(-1), "maxev": _np(m.max_eigen_value).reshape(-1)}
    A_, B_ = met(ma), met(mb)
    rec["metrics"] = {"iters": float(A_["iters"][0]), "retries": float(A_["retries"][0]), "err": float(A_["err"][0]),
                      "maxev": float(A_["maxev"][0]), "maxev_pad": float(B_["maxev"][0])}
    rec["root"] = Xa.astype(np.float64).ravel().tolist()
    rec["A"] = A.astype(np.float64).ravel().tolist()
    outside = np.array(Xb, copy=True)
    outside[:s, :s] = 0
    if np.any(outside != 0):
        rec["fails"].append({"what": "matrix_inverse_pth_root: padded rows/columns of the root are not zero",
                             "max": float(np.max(np.abs(outside)))})
    if not eigh and s > 1 and not abs(rec["metrics"]["maxev_pad"] - rec["metrics"]["maxev"]) <= 1e-4 * abs(rec["metrics"]["maxev"]):
        rec["fails"].append({"what": "matrix_inverse_pth_root: max_eigen_value (power iteration) of the padded statistic differs",
                             "maxev": rec["metrics"]["maxev"], "maxev_pad": rec["metrics"]["maxev_pad"]})
    fl = _flip_class(A_, B_, 0.1)
    extra = 0.0
    if fl == "iter-flip":
        rec["flips"][fl] = 1
        extra = _iter_slack(A_, B_, _tols([A], p, c)[0], s)
        fl = None
    if fl:
        rec["flips"][fl] = 1
        return rec
    kap, _, tolp = _tols([A], p, c)
    tolp += extra
    r = _rel(Xb[:s, :s], Xa)
    rec["maxrel"] = r / kap
    rec["tol"] = tolp
    rec["bitwise"] = int(np.array_equal(Xb[:s, :s], Xa))
    if not r <= tolp:
        rec["fails"].append({"what": "matrix_inverse_pth_root: root of the padded statistic differs from the root of the statistic",
                             "rel": r, "tol": tolp})
    if N > s:
        rec["nontrivial"].append((s, N))
    return rec


# ============================================================================ workers: Tearfree Shampoo
def tf_run(c, shapes, hist):
    import jax
    import jax.numpy as jnp
    from precondition.tearfree import shampoo
    opt = shampoo.apply(shampoo.Options(block_size=c["block"], update_preconditioners_freq=c.get("pfreq", 1),
                                        update_statistics_freq=c.get("sfreq", 1), second_moment_decay=c["decay"]))
    names = sorted(shapes)
    params = {n: jnp.zeros(shapes[n]) for n in names}
    out = []
    with contextlib.redirect_stdout(io.StringIO()):
        state = opt.init(params)
        upd = jax.jit(opt.update) if c.get("jit", True) else opt.update
        for g in hist:
            u, state = upd({n: jnp.asarray(g[n]) for n in names}, state, params)
            out.append({n: (_np(u[n]), [_np(x) for x in state.blocks[n].stats], [_np(x) for x in state.blocks[n].roots]) for n in names})
    return out


def _tf_cut_boundary(stats_list, eps):
    """any eigenvalue within 1e-6 (relative) of eps * max(w) of its block"""
    import numpy as np
    for st in stats_list:
        for blk in np.asarray(st, np.float64):
            w = np.linalg.eigvalsh((blk + blk.T) / 2)
            cut = eps * w[-1]
            if cut > 0 and np.any(np.abs(w / cut - 1.0) < 1e-6):
                return True
    return False


def run_tf_blocks(c):
    import numpy as np
    import jax
    jax.config.update("jax_enable_x64", True)
    shape, block, T = tuple(c["shape"]), c["block"], c["T"]
    blocks = tf_blocks_of(shape, block)
    nb = len(blocks)
    rs = np.random.RandomState(c["seed"])
    scales = _block_scales(rs, nb, c["scales"])
    hist = make_history(c["seed"] + 1, shape, blocks, scales, T, np.float64)
    names = ["b%03d" % i for i in range(nb)]
    rank = len(shape)
    rec = {"task": c, "fails": [], "flips": {}, "bitwise": 0, "compared": 0, "nontrivial": [], "maxrel": 0.0, "reexam_suspect": 0}
    whole = tf_run(c, {"w": shape}, [{"w": g} for g in hist])
    sep = tf_run(c, {n: tuple(hi - lo for lo, hi in blk) for n, blk in zip(names, blocks)},
                 [{n: _sl(g, blk) for n, blk in zip(names, blocks)} for g in hist])
    comp = None
    if c.get("companions"):
        cs = {n: tuple(s) for n, s, _ in c["companions"]}
        ch = {n: [np.random.RandomState(c["seed"] + 50 + j).standard_normal(tuple(s)) * sc for _ in range(T)]
              for j, (n, s, sc) in enumerate(c["companions"])}
        comp = tf_run(c, {"w": shape, **cs}, [{"w": g, **{n: ch[n][t] for n in cs}} for t, g in enumerate(hist)])
    rec["plan"] = {"stats_shapes": [list(x.shape) for x in whole[0]["w"][1]]}
    eps = c["cut"]
    decay = c["decay"]
    sfreq = c.get("sfreq", 1)
    ref = [[np.zeros((hi - lo, hi - lo)) for lo, hi in blk] for blk in blocks]
    dead = False
    for t in range(T):
        uW, stW, rtW = whole[t]["w"]
        if t % sfreq == 0:
            for b, blk in enumerate(blocks):
                gb = _sl(hist[t], blk)
                for a in range(rank):
                    m = np.moveaxis(gb, a, 0).reshape(gb.shape[a], -1)
                    new = m @ m.T
                    ref[b][a] = ref[b][a] + new if decay == 1.0 else ref[b][a] * decay + new * (1 - decay)
        for b in range(nb):
            for a in range(rank):
                r = _rel(stW[a][b], ref[b][a])
                if not r <= 1e-10:
                    rec["fails"].append({"what": "Tearfree statistic [n] does not hold the Gram matrix of its own block slice",
                                         "t": t, "block": b, "axis": a, "rel": r})
        if _tf_cut_boundary(stW, eps):
            rec["flips"]["cut-boundary"] = rec["flips"].get("cut-boundary", 0) + 1
            dead = True
        if dead:
            break
        p = 2 * rank
        for b, (n, blk) in enumerate(zip(names, blocks)):
            uS, stS, rtS = sep[t][n]
            # kappa of the cut root: (lmax / lmin_kept)^(1/(2p)) squared = ^(1/p)
            kap = 1.0
            for a in range(rank):
                w = np.linalg.eigvalsh(stS[a][0])
                kept = w[w > eps * w[-1]] if w[-1] > 0 else w[:0]
                if len(kept):
                    kap = max(kap, (kept[-1] / kept[0]) ** (1.0 / p))
            tol = TOL * kap
            r = _rel(_sl(uW, blk), uS)
            rec["compared"] += 1
            rec["maxrel"] = max(rec["maxrel"], r / kap)
            rec["bitwise"] += bool(np.array_equal(_sl(uW, blk), uS))
            if not r <= tol:
                rec["fails"].append({"what": "Tearfree blocked tensor: update of a block differs from the update of the block as a separate leaf",
                                     "t": t, "block": b, "rel": r, "tol": tol, "scale": float(scales[b])})
            for a in range(rank):
                rr = _rel(rtW[a][b], rtS[a][0])
                if not rr <= tol:
                    rec["fails"].append({"what": "Tearfree blocked tensor: root [n] differs from the separate leaf's root",
                                         "t": t, "block": b, "axis": a, "rel": rr, "tol": tol})
            if float(np.linalg.norm(uS)) > 0 and nb > 1 and max(scales) / min(scales) >= 10:
                rec["nontrivial"].append((b, t))
        if comp is not None:
            uC, stC, rtC = comp[t]["w"]
            r = _rel(uC, uW)
            rec["compared"] += 1
            if not r <= TOL:
                rec["fails"].append({"what": "Tearfree: update of a leaf changes when other leaves are added to the tree", "t": t, "rel": r})
            for a in range(rank):
                if not (_rel(stC[a], stW[a]) <= TOL and _rel(rtC[a], rtW[a]) <= TOL):
                    rec["fails"].append({"what": "Tearfree: state of a leaf changes when other leaves are added to the tree", "t": t, "axis": a})
    rec["scales"] = [float(s) for s in scales]
    return rec


def run_tf_mask(c):
    """diagonal statistics with exact spectra: which root directions are cut (zero)"""
    import numpy as np
    import jax
    jax.config.update("jax_enable_x64", True)
    block, nb = c["block"], c["nb"]
    d = np.array(c["d"], np.float64).reshape(nb, block)       # per-block singular values (dyadic)
    g = np.zeros((nb * block, block))
    for b in range(nb):
        g[b * block:(b + 1) * block] = np.diag(d[b])
    cc = dict(c, decay=1.0)
    out = tf_run(cc, {"w": g.shape}, [{"w": g}])
    u, st, rt = out[0]["w"]
    zero = [[bool(rt[0][b][i, i] == 0.0) for i in range(block)] for b in range(nb)]
    offdiag = max(float(np.max(np.abs(rt[0][b] - np.diag(np.diag(rt[0][b]))))) for b in range(nb))
    return {"task": c, "fails": [], "flips": {}, "bitwise": 0, "compared": 0, "nontrivial": [], "maxrel": 0.0, "reexam_suspect": 0,
            "zero": zero, "offdiag": offdiag, "update": np.asarray(u).ravel().tolist()}


# ============================================================================ worker entry
RUNNERS = {"ds_blocks": run_ds_blocks, "ds_companions": run_ds_companions, "rootpad": run_rootpad,
           "tf_blocks": run_tf_blocks, "tf_mask": run_tf_mask}


def worker(chunk):
    import warnings
    warnings.filterwarnings("ignore")
    import logging
    logging.disable(logging.CRITICAL)
    out = []
    for task in chunk:
        try:
            out.append(RUNNERS[task["kind"]](task))
        except Exception as e:  # noqa: BLE001
            import traceback
            out.append({"task": task, "exception": type(e).__name__ + ": " + str(e)[:300], "trace": traceback.format_exc()[-1500:]})
    try:
        import jax
        jax.clear_caches()
    except Exception:  # noqa: BLE001
        pass
    return out


# ============================================================================ generators
def _shape_for_blocks(rng, tf=False):
    """(shape, block) with at least two blocks; DS: ragged allowed, 1..3 blocked axes; Tearfree: <= 2 large axes, divisible"""
    while True:
        rank = rng.choice([1, 2, 2, 2, 3])
        block = rng.choice([2, 3, 4, 5])
        if tf:
            rank = rng.choice([2, 2, 2, 3])
            shape = []
            nlarge = 0
            want_large = rng.choice([1, 2])
            for a in range(rank):
                if nlarge < want_large and (rng.random() < 0.7 or a >= rank - (want_large - nlarge)):
                    shape.append(block * rng.choice([1, 2, 2, 3]))
                    nlarge += 1
                else:
                    shape.append(rng.randint(2, block - 1) if block > 2 else None)
            if None in shape:
                continue
            nb = len(tf_blocks_of(shape, block))
        else:
            shape = [rng.randint(2, 11) for _ in range(rank)]
            nb = len(ds_blocks_of(shape, block))
        if 2 <= nb <= (9 if not tf else 9) and math.prod(shape) <= 400:
            return shape, block


def _rand_companions(rng, n):
    out = []
    for i in range(n):
        rank = rng.choice([0, 1, 1, 2, 2, 2, 3])
        shape = [rng.choice([1, 2, 3, 5, 7, 9, 13, 17, 21]) for _ in range(rank)]
        if math.prod(shape) > 700:
            shape = shape[:2]
        name = rng.choice(["a", "m", "z"]) + "_c%d" % i       # before / between / after the leaves of interest in tree order
        out.append([name, shape, 10.0 ** rng.uniform(-6, 6)])
    return out


def gen_tasks(tier, seed, thr, cut):
    rng = random.Random(1000003 * seed + 8)
    quick = tier == "quick"
    tasks = []
    n_blocks = 24 if quick else 90
    n_comp = 18 if quick else 70
    n_tf = 20 if quick else 80
    n_root = 30 if quick else 150
    for i in range(n_blocks):
        shape, block = _shape_for_blocks(rng)
        root = "eigh" if i % 2 else "newton"
        tasks.append({"kind": "ds_blocks", "seed": rng.randrange(1 << 30), "shape": shape, "block": block, "root": root,
                      "T": rng.choice([2, 3, 4]), "beta2": rng.choice([1.0, 0.9, 0.5, 0.999]), "beta1": rng.choice([0.0, 0.0, 0.9]),
                      "scales": rng.choice(["wide", "wide", "wide", "d7", "extreme"]), "graft": rng.choice(GRAFTS + [None]),
                      "x64": rng.random() < 0.4, "thr": thr, "pcs": rng.choice([1, 1, 2]),
                      "meps": rng.choice([1e-6, 1e-6, 1e-3, 1e-2])})
    for i in range(n_comp):
        nl = rng.choice([1, 1, 2])
        leaves = {}
        block = rng.choice([4, 8, 12, 16, 32, 32])
        for j in range(nl):
            rank = rng.choice([1, 2, 2, 3])
            leaves["k%d" % j] = [rng.randint(2, 9) for _ in range(rank)]
        own = max(min(d, block) for sh in leaves.values() for d in sh)
        comps = [_rand_companions(rng, rng.choice([1, 2, 4])) for _ in range(2)]
        if own < block:      # one variant certainly raises max_size (every statistic of the leaves of interest gets padded)
            big = min(block, own + rng.choice([1, 2, 5, 11]))
            comps[1][0] = [comps[1][0][0], [big, rng.choice([2, 3])] if rng.random() < 0.7 else [big], comps[1][0][2]]
        tasks.append({"kind": "ds_companions", "seed": rng.randrange(1 << 30), "leaves": leaves, "block": block,
                      "root": "eigh" if i % 2 else "newton", "T": rng.choice([2, 3, 4]), "beta2": rng.choice([1.0, 0.9, 0.999]),
                      "beta1": rng.choice([0.0, 0.9]), "nesterov": rng.random() < 0.5, "scales": rng.choice(["wide", "one"]),
                      "graft": rng.choice(GRAFTS + ["NONE"]), "x64": rng.random() < 0.4, "thr": thr,
                      "meps": rng.choice([1e-6, 1e-6, 1e-3, 1e-2]), "companions": comps})
    for i in range(n_tf):
        shape, block = _shape_for_blocks(rng, tf=True)
        tasks.append({"kind": "tf_blocks", "seed": rng.randrange(1 << 30), "shape": shape, "block": block,
                      "T": rng.choice([1, 2, 3, 4]), "decay": rng.choice([1.0, 0.999, 0.5, 0.0]), "cut": cut,
                      "scales": rng.choice(["wide", "wide", "d7", "extreme"]), "pfreq": rng.choice([1, 1, 2]),
                      "sfreq": rng.choice([1, 1, 2]), "jit": rng.random() < 0.8,
                      "companions": _rand_companions(rng, 2) if rng.random() < 0.4 else None})
    for i in range(n_root):
        s = rng.randint(1, 9)
        tasks.append({"kind": "rootpad", "seed": rng.randrange(1 << 30), "s": s, "N": s + rng.choice([0, 1, 1, 2, 3, 7, 12]),
                      "p": rng.choice([1, 2, 2, 4, 4, 6]), "rank": rng.randint(1, s + 1), "logscale": rng.uniform(-4, 2.2),
                      "diag": rng.choice([0.0, 1e-6, 1e-3]), "root": "eigh" if i % 2 else "newton", "x64": rng.random() < 0.4,
                      "meps": rng.choice([1e-6, 1e-6, 1e-3, 1e-2])})
    # ---- optimizer modes: PreconditionerType INPUT / OUTPUT, int16-quantized pmap, compression_rank, sharded
    n_modes = 20 if quick else 80
    for i in range(n_modes):
        variant = ["ptype", "pmapq", "comp", "sharded", "pmap"][i % 5]
        kind = "ds_blocks" if (i // 5) % 2 == 0 else "ds_companions"
        extra = {}
        if variant == "ptype":
            extra = {"ptype": rng.choice(["INPUT", "OUTPUT"])}
        elif variant == "pmapq":
            extra = {"mode": "pmapq", "ndev": rng.choice([1, 2])}
        elif variant == "comp":
            extra = {"comp": rng.choice([1, 2, 2, -1])}
        elif variant == "pmap":
            extra = {"mode": "pmap", "ndev": rng.choice([2, 3, 4])}
        else:
            extra = {"mode": "sharded"}
            if rng.random() < 0.3:
                extra["ptype"] = rng.choice(["INPUT", "OUTPUT"])
        root = "eigh" if rng.random() < 0.4 else "newton"
        x64 = False if variant in ("pmapq",) else rng.random() < 0.4
        # moderate gradient scales for the packed / quantized / eigh-gated paths (the acceptance gate of the eigh-based routines
        # is absolute: known finding K8), wide ones elsewhere
        scales = "wide" if variant in ("ptype", "sharded") and root == "newton" else rng.choice(["one", [1.0, 0.03, 5.0, 0.2, 1.0, 0.5, 2.0, 0.1, 1.0]])
        if variant == "pmap":
            root, scales = "newton", "mid"       # Newton: the reported residual is relative (no K8 gate noise)
        base = {"seed": rng.randrange(1 << 30), "root": root, "T": rng.choice([2, 3]), "beta2": rng.choice([1.0, 0.9, 0.999]),
                "x64": x64, "thr": thr, "meps": rng.choice([1e-6, 1e-3]), "modes": variant}
        if variant == "pmap":
            base["meps"] = rng.choice([1e-3, 1e-2])    # kS <= 1e3: keeps the own-root oracle conclusive (stored roots are float32)
        if kind == "ds_blocks":
            if variant == "comp":
                block = rng.choice([6, 7, 8])
                shape = [rng.choice([block + rng.randint(1, 5), 2 * block]), rng.randint(5, block)]
                if rng.random() < 0.5:
                    shape = shape[::-1]
            elif variant == "pmap":
                # more statistics than devices, not a multiple of the device count, a ragged last block
                while True:
                    shape, block = _shape_for_blocks(rng)
                    nstat = len(ds_blocks_of(shape, block)) * len(shape)
                    if nstat > extra["ndev"] and nstat % extra["ndev"] and any(d % block for d in shape if d > block):
                        break
            else:
                shape, block = _shape_for_blocks(rng)
                while len(shape) < 2 and variant == "ptype":
                    shape, block = _shape_for_blocks(rng)
            tasks.append(dict(base, kind="ds_blocks", shape=shape, block=block, beta1=(0.0 if variant == "pmapq" else rng.choice([0.0, 0.9])), scales=scales,
                              graft=rng.choice(["SGD", "RMSPROP", None]), pcs=1, **extra))
        else:
            block = rng.choice([8, 12, 32])
            leaves = {"k0": [rng.randint(5, 9), rng.randint(5, 9)]}
            single = variant in ("pmapq", "sharded", "comp") and rng.random() < 0.6
            if single:
                # one statistic size only (a vector or a square matrix): alone it is not padded at all, with companions it is;
                # small gradients and a visible ridge, so that anything the padding adds to max_ev / the ridge shows in the roots
                d_ = rng.randint(6, 8)
                leaves = {"k0": [d_] if rng.random() < 0.5 else [d_, d_]}
                base["meps"] = rng.choice([1e-3, 1e-2])
                base["small"] = True
            elif rng.random() < 0.5:
                leaves["k1"] = [rng.randint(5, 9)] if variant != "ptype" else [rng.randint(3, 6), rng.randint(3, 6), 2]
            own = max(min(d, block) for sh in leaves.values() for d in sh)
            comps = [_rand_companions(rng, rng.choice([1, 2, 3])) for _ in range(2)]
            if own < block:
                comps[1][0] = [comps[1][0][0], [min(block, own + rng.choice([1, 2, 5])), 3], comps[1][0][2]]
            if variant in ("comp", "pmapq") or root == "eigh":
                comps = [[[n, sh, 10.0 ** rng.uniform(-1.5, 0.7)] for n, sh, _ in cp] for cp in comps]
            if variant == "pmap":
                # the companions change the number of statistics N, hence which device computes which slot: N > D, D does not divide N
                def _nst(tree):
                    return sum(len(ds_blocks_of(sh, block)) * len(sh) for sh in tree)
                for ci in range(len(comps)):
                    for _try in range(50):
                        nfull = _nst(list(leaves.values()) + [sh for _n, sh, _s in comps[ci]])
                        if nfull > extra["ndev"] and nfull % extra["ndev"] and nfull != _nst(leaves.values()):
                            break
                        comps[ci] = [[n, sh, 10.0 ** rng.uniform(-3, 3)] for n, sh, _ in _rand_companions(rng, rng.choice([1, 2, 3]))]
            tasks.append(dict(base, kind="ds_companions", leaves=leaves, block=block, beta1=(0.0 if variant == "pmapq" else rng.choice([0.0, 0.9])),
                              nesterov=rng.random() < 0.5, scales=("one" if scales != "wide" else "wide"), graft=rng.choice(GRAFTS + ["NONE"]),
                              companions=comps, moderate=scales not in ("wide", "mid"), **extra))
    # Tearfree companions must not contain unit dims / too many large dims: filter here (the package rejects them explicitly)
    for t in tasks:
        if t["kind"] == "tf_blocks" and t["companions"]:
            ok = []
            for n, s, sc in t["companions"]:
                s = [d for d in s if d != 1]
                if not s or sum(d >= t["block"] for d in s) > 2 or any(d >= t["block"] and d % t["block"] for d in s):
                    continue
                ok.append([n, s, sc])
            t["companions"] = ok or None
    return tasks


def gen_mask_tasks(tier, seed, cut):
    rng = random.Random(7919 * seed + 5)
    out = [{"kind": "tf_mask", "block": 2, "nb": 2, "d": [1.0, 1.0, 2.0 ** -13, 2.0 ** -13], "cut": cut, "d7": True, "jit": True}]
    for _ in range(5 if tier == "quick" else 30):
        block = rng.choice([2, 3, 4])
        nb = rng.choice([2, 3])
        base = [rng.randint(-14, 14) for _ in range(nb)]
        d = []
        for b in range(nb):
            for _i in range(block):
                d.append(0.0 if rng.random() < 0.1 else 2.0 ** (base[b] - rng.choice([0, 0, 1, 3, 9, 10, 11, 14])))
        out.append({"kind": "tf_mask", "block": block, "nb": nb, "d": d, "cut": cut, "jit": rng.random() < 0.5})
    return out


# ============================================================================ constants
def const_stage(ctx):
    import ast
    from harness import consts
    eps = consts.func_local(TF_FILE, "_pth_inv_root", "eps")
    thr = consts.func_default(DS_FILE, "distributed_shampoo", "inverse_failure_threshold")
    ctx.cov["constants"] = {"tearfree_cut_eps": eps, "inverse_failure_threshold": thr}
    if not (isinstance(eps, float) and 0 < eps < 1):
        ctx.const_fail("tearfree eigenvalue cut eps in (0,1)", {"eps": eps})
        eps = 1e-6
    if not (isinstance(thr, float) and 0 < thr):
        ctx.const_fail("inverse_failure_threshold > 0", {"thr": thr})
        thr = 0.1
    # the cut must be taken per block: jnp.max(w, axis=-1, keepdims=True) (hypothesis of tearfree_blocks_local; D7 otherwise)
    f = consts._find_func(consts._tree(TF_FILE), "_pth_inv_root")
    per_block = False
    for node in ast.walk(f):
        if isinstance(node, ast.Call) and isinstance(node.func, ast.Attribute) and node.func.attr in ("max", "amax"):
            kw = {k.arg: consts._lit(k.value) for k in node.keywords}
            if kw.get("axis") in (-1, 1, (-1,), (1,)) and kw.get("keepdims") is True:
                per_block = True
    ctx.cov["constants"]["tearfree_cut_max_is_per_block(axis=-1)"] = per_block
    if not per_block:
        ctx.const_fail("tearfree_blocks_local: the eigenvalue cut is relative to the block's own maximum (jnp.max(w, axis=-1, keepdims=True))",
                       "no max(..., axis=-1, keepdims=True) call found in tearfree/shampoo._pth_inv_root")
    # power_iteration's start vector is a prefix of one fixed sequence (so it is padding invariant)
    import numpy as np
    ok = all(np.array_equal(np.random.RandomState(1729).uniform(-1.0, 1.0, n)[:s], np.random.RandomState(1729).uniform(-1.0, 1.0, s))
             for n, s in ((5, 2), (33, 7), (128, 128)))
    if not ok:
        ctx.const_fail("power_iteration start vector is prefix-stable", "numpy RandomState.uniform prefix property failed")
    return eps, thr


# ============================================================================ model requests and comparison
def _py_slots(blocks, ptype=None):
    out = []
    for n, blk in enumerate(blocks):
        for a in paxes(len(blk), ptype):
            lo, hi = blk[a]
            out.append({"block": n, "axis": a, "slice": [[l, h - l] for l, h in blk], "size": hi - lo})
    return out


def model_requests(rec):
    t = rec["task"]
    k = t["kind"]
    if k == "ds_blocks":
        return [{"op": "ds_plan", "leaves": [list(t["shape"])], "block": t["block"], "ptype": t.get("ptype") or "ALL"}]
    if k == "ds_companions":
        names = sorted(t["leaves"])
        reqs = []
        for comp in t["companions"]:
            shapes = {n: list(t["leaves"][n]) for n in names}
            shapes.update({n: list(s) for n, s, _ in comp})
            reqs.append({"op": "ds_plan", "leaves": [shapes[n] for n in sorted(shapes)], "block": t["block"],
                         "ptype": t.get("ptype") or "ALL", "names": sorted(shapes)})
        return reqs
    if k == "tf_blocks":
        return [{"op": "tf_plan", "shape": list(t["shape"]), "block": t["block"]}]
    if k == "tf_mask":
        d = t["d"]
        B, nb = t["block"], t["nb"]
        ws = [[kit.rat_str(Fraction(d[b * B + i]) ** 2) for i in range(B)] for b in range(nb)]
        return [{"op": "tf_mask", "ws": ws, "eps": kit.rat_str(Fraction(t["cut"]))}]
    if k == "rootpad" and t["root"] == "newton" and "metrics" in rec:
        m = rec["metrics"]
        ridge = t.get("meps", 1e-6) * max(m["maxev"], 1e-25)
        if t["s"] == 1:
            return []
        return [{"op": "newton_pad", "ty": "float", "s": t["s"], "N": t["N"], "p": t["p"], "fuel": 100, "tries": 6,
                 "A": [kit.f64_hex(v) for v in rec["A"]], "ridge": kit.f64_hex(ridge), "tol": kit.f64_hex(1e-6),
                 "max_ratio": kit.f64_hex(1.2), "retry_thr": kit.f64_hex(0.05)}]
    return []


def compare_model(ctx, rec, replies):
    import numpy as np
    t = rec["task"]
    k = t["kind"]
    slim = {a: b for a, b in t.items() if a != "companions"}
    if k == "ds_blocks":
        r = replies[0]
        leaf = r["leaves"][0]
        want = _py_slots(ds_blocks_of(tuple(t["shape"]), t["block"]), t.get("ptype"))
        ok = leaf["slots"] == want and leaf["exponent"] == 2 * len(paxes(len(t["shape"]), t.get("ptype")))
        ok = ok and rec["plan"]["nstats"] == len(leaf["slots"]) and rec["plan"]["sizes"] == [s["size"] for s in leaf["slots"]]
        ctx.corr("ds_plan", ok)
        if not ok:
            ctx.disagree("ds_plan", slim, {"state": rec["plan"], "py_slots": want[:6]}, leaf, "statistic slots of a blocked leaf")
    elif k == "ds_companions":
        for r, lay in zip(replies, rec["layouts"]):
            ok = r["max_size"] == lay["max_size"] and sum(r["counts"]) == lay["nstats"] and len(r["paddings"]) == lay["nstats"]
            ctx.corr("ds_plan.max_size", ok)
            if not ok:
                ctx.disagree("ds_plan.max_size", slim, lay, {"max_size": r["max_size"], "counts": r["counts"]}, "tree-wide max_size / statistic count")
            if lay["max_size"] > lay["own_max"]:
                ctx.dist("companions.max_size_raised")
            if lay.get("index_start") is not None:
                names = sorted(lay["index_start"])
                got = [lay["index_start"][n] for n in names]
                oki = got == r["index_start"]
                ctx.corr("ds_plan.sharded_index_start(EXACT)", oki)
                if not oki:
                    ctx.disagree("ds_plan.index_start", slim, got, r["index_start"], "index_start of every leaf in the sharded global statistics")
    elif k == "tf_blocks":
        r = replies[0]
        want = _py_slots(tf_blocks_of(tuple(t["shape"]), t["block"]))
        shapes = [[r["nblocks"], b, b] for b in r["block_sizes"]]
        ok = r["slots"] == want and rec["plan"]["stats_shapes"] == shapes
        ctx.corr("tf_plan", ok)
        if not ok:
            ctx.disagree("tf_plan", slim, {"state": rec["plan"], "py_slots": want[:6]}, r, "Tearfree blocks-axis slots")
    elif k == "tf_mask":
        r = replies[0]
        ok = r["local"] == rec["zero"] and r["local"] == r["map_local"] and rec["offdiag"] == 0.0
        ctx.corr("tf_mask", ok)
        if not ok:
            ctx.disagree("tf_mask", slim, rec["zero"], r, "which root directions are cut (zero)")
        if t.get("d7"):
            sep = r["shared"] != r["local"]
            ctx.corr("tf_mask.d7_witness_separates_shared_from_local", sep)
            if not sep:
                ctx.disagree("tf_mask.d7", slim, rec["zero"], r, "the D7 witness no longer separates the shared-max model")
        if r["shared"] != r["local"]:
            ctx.nontrivial(("tf_mask", tuple(t["d"])))
    elif k == "rootpad" and replies:
        r = replies[0]
        ok = r["same"] and r["outside_zero"]
        ctx.corr("newton_pad.model_padded_equals_plain(EXACT)", ok)
        if not ok:
            ctx.disagree("newton_pad.model", slim, None, {"same": r["same"], "outside_zero": r["outside_zero"]},
                         "executed instance of root_padding_invariant_newton fails")
        m = rec["metrics"]
        if r["plain"]["retries"] != int(m["retries"]) or r["plain"]["iters"] != int(m["iters"]):
            ctx.dist("newton_pad.model_vs_impl.branch-flip")
            return
        s = t["s"]
        H = np.array([kit.hex_f64(x) for x in r["plain"]["h"]]).reshape(s, s)
        X = np.array(rec["root"]).reshape(s, s)
        rel = _rel(X, H)
        tol = max(rec.get("tol", 0.0), 1e-4) * 2
        okv = rel <= tol
        ctx.corr("newton_pad.impl_vs_model(TOL)", bool(okv))
        if not okv:
            ctx.disagree("newton_pad.impl_vs_model", slim, {"root": rec["root"][:9]}, {"h": H.ravel().tolist()[:9]}, f"rel {rel:.3g} tol {tol:.3g}")


def rat_requests(seed, n):
    rng = random.Random(31 * seed + 3)
    reqs = []
    for _ in range(n):
        s = rng.choice([1, 2, 2, 3])
        N = s + rng.choice([0, 1, 2, 3])
        g = [[rng.randint(-2, 2) for _ in range(s)] for _ in range(s)]
        A = [[sum(g[i][k] * g[j][k] for k in range(s)) + (1 if i == j else 0) for j in range(s)] for i in range(s)]
        reqs.append({"op": "newton_pad", "ty": "rat", "s": s, "N": N, "p": rng.choice([1, 2, 4]), "fuel": rng.choice([1, 2]),
                     "tries": rng.choice([1, 2]), "A": [str(x) for row in A for x in row], "ridge": rng.choice(["1/1000", "0", "1/10"]),
                     "tol": "1/1000000", "max_ratio": "6/5", "retry_thr": rng.choice(["1/20", "1000"])})
    return reqs


# ============================================================================ orchestration
def _slim(t):
    return t


def execute(ctx, tasks, rat_n=0):
    nproc = min(14, int(os.environ.get("C08_NPROC", "14")))
    order = sorted(range(len(tasks)), key=lambda i: {"ds_blocks": 0, "ds_companions": 1, "tf_blocks": 2}.get(tasks[i]["kind"], 3))
    heavy = [tasks[i] for i in order if tasks[i]["kind"] in ("ds_blocks", "ds_companions", "tf_blocks")]
    light = [tasks[i] for i in order if tasks[i]["kind"] not in ("ds_blocks", "ds_companions", "tf_blocks")]
    pm = [t for t in heavy if t.get("mode") in ("pmapq", "pmap")]
    heavy = [t for t in heavy if t.get("mode") not in ("pmapq", "pmap")]
    chunks = [[t] for t in heavy] + kit.chunked(light, 6)
    results = kit.parallel_map(worker, chunks, nproc=nproc)
    if pm:
        results += kit.parallel_map(worker, [[t] for t in pm], nproc=min(nproc, len(pm)), ndev=4)
    recs = [r for grp in results for r in grp]
    reqs, spans = [], []
    for r in recs:
        rq = model_requests(r) if "exception" not in r else []
        spans.append((len(reqs), len(reqs) + len(rq)))
        reqs.extend(rq)
    rq_rat = rat_requests(ctx.seed, rat_n)
    replies = ctx.driver(reqs + rq_rat, timeout=900) if (reqs or rq_rat) else []
    for rp in replies:
        if isinstance(rp, dict) and "error" in rp:
            raise kit.InfraError("driver error: " + str(rp)[:300])
    for rq, rp in zip(rq_rat, replies[len(reqs):]):
        ok = rp["same"] and rp["outside_zero"]
        ctx.corr("newton_pad.rat_padded_equals_plain(EXACT)", ok)
        if int(rq["N"]) > int(rq["s"]):
            ctx.nontrivial(("rat", json.dumps(rq, sort_keys=True)))
        if not ok:
            ctx.disagree("newton_pad.rat", rq, None, {"same": rp["same"], "outside_zero": rp["outside_zero"]},
                         "executed rational instance of root_padding_invariant_newton fails")
    nexc = 0
    for r, (i0, i1) in zip(recs, spans):
        t = r["task"]
        k = t["kind"]
        if "exception" in r:
            nexc += 1
            ctx.notes.append(f"task raised {r['exception'][:200]} :: {json.dumps(t, default=str)[:300]}")
            if nexc <= 3:
                ctx.violation("run raised an exception: " + r["exception"][:200], {"task": t})
            continue
        ctx.dist("tasks." + k + ("." + t["root"] if "root" in t else "") + (".x64" if t.get("x64") else ""))
        if t.get("modes"):
            if r.get("ownroot_checked"):
                ctx.dist("own_root_oracle.slots_checked", r["ownroot_checked"])
            ctx.dist("modes." + t["modes"] + "." + k + ((".ndev%d" % t["ndev"]) if t.get("ndev") else "") + (("." + t["ptype"]) if t.get("ptype") else "")
                     + ((".rank%+d" % t["comp"]) if t.get("comp") else ""))
        n = max(r["compared"], 1)
        ctx.evaluated(n)
        ctx.cov["search_evaluations"] += n
        ctx.dist("compared." + k, r["compared"])
        ctx.dist("bitwise_equal." + k, r["bitwise"])
        for f, c in r["flips"].items():
            ctx.dist("classified." + f, c)
            if k in ("ds_blocks", "ds_companions") and f in ("branch-flip", "gate-flip"):
                ctx.cov["flip_streams"] = ctx.cov.get("flip_streams", 0) + c
        if k in ("ds_blocks", "ds_companions"):
            ctx.cov["streams"] = ctx.cov.get("streams", 0) + r.get("streams", 0)
        if r.get("reexam_suspect"):
            ctx.dist("flip_reexamination.suspect_roots", r["reexam_suspect"])
            ctx.notes.append(f"flip re-examination: {r['reexam_suspect']} stored root(s) do not meet their own residual bound: "
                             + json.dumps({a: b for a, b in t.items() if a != 'companions'}, default=str)[:300])
        key = json.dumps({a: b for a, b in t.items() if a not in ("thr", "cut")}, sort_keys=True, default=str)
        for nt in r["nontrivial"]:
            ctx.nontrivial((k, key, tuple(nt) if isinstance(nt, (list, tuple)) else nt))
        for f in r["fails"][:5]:
            ctx.violation(f["what"], {"task": t, "detail": {a: b for a, b in f.items() if a != "what"}})
        for hit in r.get("k8", [])[:3]:
            ctx.dist("known_finding.K8_gate_flip_with_differing_update")
            what = ("eigh=True: absolute eigh residual straddles inverse_failure_threshold, the gate decision flips with the padding / batch "
                    f"(errors {hit.get('errors_alone', hit.get('errors_blocked'))} vs {hit.get('errors_with_companions', hit.get('errors_separate'))}) "
                    f"and the leaf's update differs by {hit['rel']:.3g} (tolerance {hit['tol']:.3g})")
            if "K8" in ctx.known_ids():
                ctx.known_finding("K8", what if not ctx.known_hits else "eigh=True gate flip (absolute residual vs inverse_failure_threshold) changes a leaf's update when other leaves / blocks are added")
                ctx.cov.setdefault("known_finding_cases", [])
                if len(ctx.cov["known_finding_cases"]) < 5:
                    ctx.cov["known_finding_cases"].append({"task": {a: b for a, b in t.items() if a != "companions"}, "hit": hit})
            else:
                ctx.violation("DS eigh=True: acceptance gate flips between two runs of the same statistics and the leaf's update differs: " + what,
                              {"task": t, "detail": hit})
        compare_model(ctx, r, replies[i0:i1])
    return recs


def corpus_tasks(cut, thr):
    d = os.path.join(kit.ROOT, "corpus", "C08")
    out = []
    if os.path.isdir(d):
        for f in sorted(os.listdir(d)):
            if f.endswith(".json"):
                for t in json.load(open(os.path.join(d, f))).get("tasks", []):
                    t = dict(t)
                    if t["kind"].startswith("tf"):
                        t["cut"] = cut
                    else:
                        t["thr"] = thr
                    out.append(t)
    return out


def run(ctx):
    if os.environ.get("C08_NOLEAN"):   # builder aid for mutation experiments; recorded so that it cannot pass for a full run
        ctx.notes.append("DEV: Lean stage skipped (C08_NOLEAN)")
        ctx.cov["dev_nolean"] = True
        ctx.cov["obligations"], ctx.cov["discharged"] = 1, 0
    else:
        ctx.lean_stage()
    cut, thr = const_stage(ctx)
    tasks = corpus_tasks(cut, thr) + gen_tasks(ctx.tier, ctx.seed, thr, cut) + gen_mask_tasks(ctx.tier, ctx.seed, cut)
    only = os.environ.get("C08_ONLY")
    if only:
        tasks = [t for t in tasks if t["kind"] in only.split(",")]
        ctx.notes.append(f"DEV FILTER ACTIVE (C08_ONLY={only})")
        ctx.cov["dev_filter"] = only
    ctx.cov["rule"] = (
        "evaluations = (leaf or block, step) pairs whose update (and state) was compared between two runs of the real optimizer, plus "
        "root-padding pairs. A non-trivial case is a distinct (task, block/leaf, step) where the compared update is non-zero and the "
        "locality claim has content: blocks tasks with at least two blocks whose gradient scales differ by >= 10x; companion tasks "
        "on a leaf that has statistics; root-padding with N > s; tf_mask spectra on which the shared-max model and the per-block model "
        "differ; rational newton_pad instances with N > s.")
    ctx.assumptions += [
        "TOL: update / state entries are compared relative to the leaf's (block's) own norm; tolerance max(1e-5 kS^(1/p), 128 u kS^(3/4)) "
        "for updates and max(1e-5 kS^(1/p), 256 u kS) for stored roots, kS = (lmax + ridge) / (lmin + ridge) of the leaf's statistics, "
        "u = 2^-24 (2^-53 under x64, where the root routine runs in float64); statistics 1e-5",
        "discontinuities: (leaf, step) pairs are compared only while total_retries and the acceptance decisions (error < "
        "inverse_failure_threshold) of both runs agree; when only the Newton iteration counts differ (iter-flip: same ridge, same equation) "
        "the pair is still compared with the tolerance widened by 4 n max(reported residuals) kappa_root; otherwise counted as branch-flip / "
        "gate-flip, the stored roots re-examined "
        "against their own equation, never a violation by itself (DESIGN 2.3). Exception: an eigh=True gate flip (the reported eigh residual "
        "is absolute, so it straddles the threshold for statistics of magnitude ~1e5..1e6 in float32) whose pair really differs beyond "
        "tolerance is known finding K8 (KNOWN-FINDING line; a violation if K8 is no longer listed)",
        "Tearfree: a step where an eigenvalue lies within 1e-6 (relative) of eps*max(w) is cut-boundary (not compared)",
        "pmap (non-quantized, 2-4 forced host devices, same gradients on every device, more statistics than devices and not a multiple): "
        "all devices must hold the same update / state; every accepted stored root must satisfy max|X^p (S + ridge I) - I| <= max(20 err, "
        "512 u kS, 1e-3) against ITS OWN statistic (slots where that bound exceeds 0.25 are inconclusive and skipped)",
        "modes: PreconditionerType INPUT/OUTPUT (p = 2 x #preconditioned axes); int16-quantized pmap on 1 or 2 forced host devices with "
        "beta1 = 0 (momentum buffers are int8 with per-PARAMETER column scales, a parameter-level coupling of blocks by design: not compared), "
        "tolerance widened by 4 n #axes kappa_root / 32767, payload differences classified (equal / one-unit-flip / more); compression_rank: "
        "updates compared only while the spectral gap at the cut is >= 5% of lambda_max (gap-small otherwise), packed roots not compared "
        "(eigenvector signs); sharded (jit, one-device mesh): update tolerance = stored-root tolerance of this and the previous refresh, "
        "index_start of every leaf compared EXACT with the model",
        "Lean hypotheses checked on the source: the Tearfree cut uses max(w, axis=-1, keepdims=True); 0 < eps < 1; exponent p = 2 * rank >= 1; "
        "power_iteration's start vector is prefix-stable (numpy RandomState) and max_eigen_value of padded / unpadded statistics agree",
    ]
    recs = execute(ctx, tasks, rat_n=12 if ctx.tier == "quick" else 60)
    st_, fl_ = ctx.cov.get("streams", 0), ctx.cov.get("flip_streams", 0)
    if st_ >= 40 and fl_ > 0.25 * st_:
        ctx.disagree("flip_rate", {"streams": st_, "classified_flips": fl_}, fl_, "< 25% of the compared (leaf, history) streams",
                     "two runs of the same statistics take different root branches / gate decisions too often for the comparison to mean anything")
    mr = {}
    for r in recs:
        if "exception" in r:
            continue
        t = r["task"]
        key = t["kind"] + ("/" + t["root"] if "root" in t else "") + ("/x64" if t.get("x64") else "")
        mr[key] = max(mr.get(key, 0.0), r["maxrel"])
    ctx.cov["max_rel_difference_over_kappa_root"] = mr
    picked = 0
    for r in recs:
        if "exception" not in r and r["nontrivial"] and picked < 6 and r["task"]["kind"] in ("ds_blocks", "tf_blocks", "ds_companions"):
            ctx.sample({"task": {a: b for a, b in r["task"].items() if a != "companions"}, "scales": r.get("scales"),
                        "compared": r["compared"], "bitwise_equal": r["bitwise"], "max_rel_over_kappa": r["maxrel"], "flips": r["flips"]})
            picked += 1


def replay(ctx, data):
    cases = [v["case"] for v in data.get("violations", [])]
    cut, thr = const_stage(ctx)
    tasks, seen = [], set()
    for c in cases:
        t = c.get("task") if isinstance(c, dict) else None
        if not isinstance(t, dict) or "kind" not in t:
            continue
        key = json.dumps(t, sort_keys=True, default=str)
        if key in seen:
            continue
        seen.add(key)
        tasks.append(t)
    ctx.cov["rule"] = "replay of recorded cases"
    execute(ctx, tasks)
