"""C10 — the low-rank packed preconditioner agrees with the dense matrix it denotes.

All implementation calls are direct calls of the real functions of `precondition.distributed_shampoo` under
`jax_enable_x64` with float64 inputs (eager, a fraction also under `jit`).

Correspondence (K), against the Lean model `Model/LowRank.lean` (driver `drv_c10`):
  * `_precond_dim` / `_should_compress` on a grid of ranks (both signs, 0) and dims: EXACT.
  * `_fd_low_rank_pack` / `_fd_low_rank_unpack` / `_low_rank_pack` / `_low_rank_unpack`: the packed matrix and all
    unpacked fields are compared as IEEE bit patterns with the `Float` run of the model (values are only moved):
    EXACT; inadmissible sizes (r + 2 >= d) must be rejected by the code's asserts exactly when the model says so.
  * `Preconditioner._precondition_block` (direct) and `Preconditioner.preconditioned_grad` (public path, one block)
    for gradients of rank 1..3, every axis, packed / dense / skipped axes, both signs of compression_rank, flagged
    (`has_zeros`) packed preconditioners:
      - EXACT-DYADIC: small integers and dyadic scalars, every intermediate exactly representable; the output must
        equal the `Rat` run of the model bit for bit (the instance the theorems speak about; the `Rat` run of
        "packed" and "every packed preconditioner replaced by the dense matrix it denotes" must coincide);
      - generic float64 inputs (orthonormal and arbitrary V): TOL(1e-12 x norm bound) against the `Float` run.
  * `_low_rank_root`: the model computes the matrix handed to `eigh` (`regularized_input`), numpy's `eigh` of that
    matrix is the external kernel (its specification U U' = 1, U diag(e) U' = M is checked at run time), and the model
    computes the packed root (`low_rank_root`, `Float`); the dense matrices denoted by the implementation's and the
    model's packed roots, the retained inverse eigenvalues and the constant are compared with TOL(1e-12 x kappa),
    kappa = 1 + lambda_max / (gap at the cut) + lambda_max / lambda_min, resp. lambda_max / lambda_i.  `max_ev` is the value the real
    `power_iteration` returns (an external kernel for this property, deterministic).

  * zero ridge + singular statistics (D26, `matrix_epsilon = 0`): positive rank -> only the retained part V diag(e) V' and the
    retained roots are compared (the null directions' values are ill-posed in floats), negative rank / rank above the matrix
    rank -> finiteness of the implementation's and of the Float model's root.
  * exact rational stream (`rootq`, p = 1, absolute epsilon): statistics U diag(lam) U' with U a rational orthogonal matrix
    (signed permutation, optionally times two Householder reflections of integer vectors), so the eigendecomposition handed to
    the `Rat` run of the model is EXACT (U U' = 1 and U diag(e) U' = the model's regularized input are checked in exact
    arithmetic) and the `Rat` run is literally an instance of `low_rank_root_denotes`.  Signed permutations with powers of two
    (incl. exact zeros with a zero ridge): the implementation must agree bit for bit (V V', V diag(e) V', retained roots,
    correctly rounded const): EXACT.  Householder: TOL(1e-12 x kappa) against the exact values.
  * `preconditioned_grad` through `BlockPartitioner` with several ragged blocks (block_size 4..6, dims not multiples of it,
    rank 1..3, ALL / INPUT / OUTPUT): every block against the model (`Rat` EXACT-DYADIC / `Float` TOL), partition order and
    `shapes_for_preconditioners` EXACT.

Search oracle (S), numpy only, no reference to the model:
  * unpack(pack(F)) = F bit for bit; pack(unpack(P)) = P for matrices whose unused slots are zero and whose flag is 0/1;
    `_precond_dim(r, d) != d  <=>  _should_compress(r, d)`, `_precond_dim in {d, |r| + 2}`;
  * the packed application equals g x_a (c (I - V V') + V diag(e) V') along every packed axis (g unchanged along a
    flagged axis, the dense matrix along a dense axis), bit for bit on dyadic inputs, TOL(1e-12 x norm bound) otherwise;
  * the dense matrix denoted by the packed root equals, on the unpadded dimensions, Q diag(f) Q' with Q, lambda = numpy's
    eigendecomposition of (masked statistics + ridge I), f_i = max(lambda_i, ridge)^(-1/p) on the |r| retained (largest; smallest
    for r < 0) directions and the mean of the others elsewhere; unpadded-to-padded blocks vanish: TOL(1e-12 x kappa).
"""
import json
import os
import random
from collections import Counter
from fractions import Fraction

from harness import kit

FILE = "distributed_shampoo.py"
ROOT_TOL = 1e-12          # x kappa (measured errors stay below 1e-3 of this allowance)


# ----------------------------------------------------------------------------- number transport
def hx(a):
    import numpy as np
    return ["0x%016x" % int(v) for v in np.ascontiguousarray(np.asarray(a, np.float64)).ravel().view(np.uint64)]


def unhx(lst, shape=None):
    import numpy as np
    a = np.array([int(s, 16) for s in lst], dtype=np.uint64).view(np.float64)
    return a.reshape(shape) if shape is not None else a


def rats(a):
    import numpy as np
    return [kit.rat_str(Fraction(float(v))) for v in np.asarray(a, np.float64).ravel()]


def pdim(r, d):
    """|r| + 2 < d (admissible for packing)"""
    return abs(r) + 2 < d


# ----------------------------------------------------------------------------- case materialisation (deterministic)
def _vals(rs, n, cls):
    import numpy as np
    if cls == "ints":            # distinct recognisable integers: a slot mix-up is visible
        return rs.permutation(np.arange(1, 4 * n + 5))[:n].astype(np.float64) * rs.choice([-1.0, 1.0], size=n)
    if cls == "dyadic":
        return rs.randint(-8, 9, size=n) / 4.0
    if cls == "special":
        pool = np.array([-0.0, 0.0, 1.0, -1.0, 5e-324, -2.2250738585072014e-308, 1.7976931348623157e308, 1e-300, 0.1, 3.0])
        return pool[rs.randint(0, len(pool), size=n)]
    return rs.standard_normal(n) * 10.0 ** rs.randint(-3, 4)


def mat_pack(case):
    """inputs of a pack case"""
    import numpy as np
    rs = np.random.RandomState(case["seed"])
    d, r, cls = case["d"], abs(case["rank"]), case["cls"]
    V = _vals(rs, d * r, cls).reshape(d, r)
    ev, ie = _vals(rs, r, cls), _vals(rs, r, cls)
    c, t = float(_vals(rs, 1, cls)[0]), float(_vals(rs, 1, cls)[0])
    hz = bool(rs.randint(0, 2))
    Q = _vals(rs, d * (r + 2), cls).reshape(d, r + 2)
    if cls == "special":         # a flag slot that is -0.0 / NaN-free non-zero
        Q[-1, -2] = [-0.0, 0.0, 1e-300, 2.0][rs.randint(0, 4)]
    Z = Q.copy()
    if pdim(r, d):
        Z[r:d - 1, -2] = 0.0
        Z[2:d - r, -1] = 0.0
        Z[d - 1, -2] = float(rs.randint(0, 2))
    return V, ev, ie, c, t, hz, Q, Z


def _orth(rs, n):
    import numpy as np
    q, rr = np.linalg.qr(rs.standard_normal((n, n)))
    return q * np.sign(np.diag(rr))


def mat_apply(case):
    """gradient and, per axis, the numpy description of the op: ('roll',), ('dense', P), ('packed', V, e, c, tail, ev, flag)"""
    import numpy as np
    rs = np.random.RandomState(case["seed"])
    shape, r = case["shape"], abs(case["rank"])
    dy = case["ty"] == "rat"
    if dy:
        g = rs.randint(-3, 4, size=shape).astype(np.float64) * 2.0 ** rs.randint(-2, 3)
    else:
        g = rs.standard_normal(shape) * 10.0 ** rs.randint(-2, 3)
    if case.get("lowrank_g"):    # gradient of low matrix rank along the first axis
        k = case["lowrank_g"]
        flat = g.reshape(shape[0], -1)
        basis = flat[:k]
        coef = rs.randint(-2, 3, size=(shape[0], k)).astype(np.float64)
        g = (coef @ basis).reshape(shape)
    axes = [_axis_np(rs, d, r, kind, dy) for d, kind in zip(shape, case["kinds"])]
    return g, axes


def _axis_np(rs, d, r, kind, dy):
    import numpy as np
    if kind == "roll":
        return ("roll",)
    if kind == "dense":
        P = rs.randint(-2, 3, size=(d, d)).astype(np.float64) if dy else rs.standard_normal((d, d))
        return ("dense", P)
    if dy:
        V = rs.randint(-1, 2, size=(d, r)).astype(np.float64)
        e = rs.randint(-4, 5, size=r) / 2.0
        c = float(rs.randint(-4, 5)) / 2.0
        tail, ev = float(rs.randint(1, 9)), rs.randint(1, 9, size=r).astype(np.float64)
    else:
        V = _orth(rs, d)[:, :r] if rs.rand() < 0.7 else rs.standard_normal((d, r)) * 0.7
        e = np.abs(rs.standard_normal(r)) * 10.0 ** rs.randint(-2, 3) + 0.01
        c = float(abs(rs.standard_normal()) * 10.0 ** rs.randint(-2, 2) + 0.01)
        tail, ev = float(rs.rand() + 0.5), rs.rand(r) + 0.5
    return ("packed", V, e, c, tail, ev, kind == "packed_flagged")


def block_layout(shape, b):
    """blocks of BlockPartitioner in itertools.product order (first axis slowest): list of tuples of slices"""
    import itertools
    per_axis = []
    for d in shape:
        if b <= 0 or d <= b:
            per_axis.append([slice(0, d)])
        else:
            cuts = list(range(0, d, b))
            per_axis.append([slice(c0, min(c0 + b, d)) for c0 in cuts])
    return list(itertools.product(*per_axis))


def spd_of(ptype, nd):
    if ptype == "ALL" or nd <= 1:
        return [True] * nd
    return [True] * (nd - 1) + [False] if ptype == "INPUT" else [False] * (nd - 1) + [True]


def mat_mblock(case):
    """gradient, and per block (product order) its slices and per-axis ops"""
    import numpy as np
    rs = np.random.RandomState(case["seed"])
    shape, r, b = case["shape"], abs(case["rank"]), case["block"]
    dy = case["ty"] == "rat"
    g = rs.randint(-3, 4, size=shape).astype(np.float64) * 2.0 ** rs.randint(-2, 3) if dy else rs.standard_normal(shape) * 10.0 ** rs.randint(-2, 3)
    spd = spd_of(case["ptype"], len(shape))
    blocks = []
    for sl in block_layout(shape, b):
        axes = []
        for s_, on in zip(sl, spd):
            bd = s_.stop - s_.start
            kind = "roll" if not on else (("packed_flagged" if rs.rand() < 0.15 else "packed") if pdim(r, bd) else "dense")
            axes.append(_axis_np(rs, bd, r, kind, dy))
        blocks.append((sl, axes))
    return g, blocks


# ---- exact rational statistics with a known exact eigendecomposition (p = 1)
def _fmm(A, B):
    return [[sum(A[i][k] * B[k][j] for k in range(len(B))) for j in range(len(B[0]))] for i in range(len(A))]


def _ft(A):
    return [list(r) for r in zip(*A)]


def mat_rootq(case):
    """(U n x n rational orthogonal, lam ascending, A d x d) as Fractions; A[:n,:n] = U diag(lam) U'"""
    F = Fraction
    rg = random.Random(case["seed"])
    n, d = case["n"], case["d"]
    lam = [F(x) for x in case["spectrum"]]
    perm = list(range(n))
    rg.shuffle(perm)
    U = [[F(0)] * n for _ in range(n)]
    for j in range(n):
        U[perm[j]][j] = F(rg.choice([-1, 1]))
    if case["sub"] == "house":
        for _ in range(2):
            v = [F(rg.randint(-2, 2)) for _ in range(n)]
            if not any(v):
                v[0] = F(1)
            vv = sum(x * x for x in v)
            H = [[(F(1) if i == j else F(0)) - 2 * v[i] * v[j] / vv for j in range(n)] for i in range(n)]
            U = _fmm(H, U)
    UL = [[U[i][j] * lam[j] for j in range(n)] for i in range(n)]
    An = _fmm(UL, _ft(U))
    A = [[F(0)] * d for _ in range(d)]
    if case.get("garbage") and n < d:
        for i in range(d):
            for j in range(i, d):
                A[i][j] = A[j][i] = F(rg.randint(-8, 8), 4)
    for i in range(n):
        for j in range(n):
            A[i][j] = An[i][j]
    return U, lam, A


def mat_root(case):
    """statistics matrix (d x d) with a known spectrum on the unpadded block"""
    import numpy as np
    rs = np.random.RandomState(case["seed"])
    d, n = case["d"], case["n"]
    lam = np.array(case["spectrum"], np.float64)
    Q = _orth(rs, n)
    B = (Q * lam) @ Q.T
    B = (B + B.T) / 2.0
    A = np.zeros((d, d))
    A[:n, :n] = B
    if case.get("garbage") and n < d:
        G = rs.standard_normal((d, d))
        G = G + G.T
        keep = A[:n, :n].copy()
        A = G
        A[:n, :n] = keep
    return A


# ----------------------------------------------------------------------------- generators
def gen_pack(rng, i):
    d = rng.randint(3, 14)
    if rng.random() < 0.15:
        r = rng.randint(max(1, d - 2), d + 1)          # inadmissible: r + 2 >= d
    else:
        r = rng.randint(1, max(1, d - 3))
    return {"kind": "pack", "id": f"p{i}", "d": d, "rank": r * rng.choice([1, -1]),
            "cls": rng.choice(["ints", "ints", "generic", "special", "dyadic"]), "seed": rng.randint(0, 2 ** 31 - 1)}


def gen_apply(rng, i, tier):
    nd = rng.choice([1, 2, 2, 2, 3, 3])
    r = rng.choice([1, 1, 2, 2, 3, 4])
    ty = rng.choice(["rat", "f64"])
    cap = 10 if ty == "rat" else 12
    while True:
        shape = [rng.choice([1, 2, 3, r + 2, r + 3, r + 3, r + 4, r + 5, cap]) for _ in range(nd)]
        shape = [min(s, cap) for s in shape]
        n = 1
        for s in shape:
            n *= s
        if n <= 400 and any(pdim(r, s) for s in shape):
            break
    path = rng.choice(["block", "block", "grad"])
    if path == "grad":
        ptype = rng.choice(["ALL", "ALL", "INPUT", "OUTPUT"])
        if ptype == "ALL" or nd <= 1:
            spd = [True] * nd
        elif ptype == "INPUT":
            spd = [True] * (nd - 1) + [False]
        else:
            spd = [False] * (nd - 1) + [True]
        kinds = []
        for s, on in zip(shape, spd):
            kinds.append("roll" if not on else ("packed" if pdim(r, s) else "dense"))
    else:
        ptype = "ALL"
        kinds = []
        for s in shape:
            u = rng.random()
            if u < 0.2:
                kinds.append("roll")
            elif pdim(r, s) and u < 0.8:
                kinds.append("packed")
            else:
                kinds.append("dense")
    kinds = [("packed_flagged" if k == "packed" and rng.random() < 0.2 else k) for k in kinds]
    case = {"kind": "apply", "id": f"a{i}", "shape": shape, "rank": r * rng.choice([1, -1]), "ty": ty, "path": path,
            "ptype": ptype, "kinds": kinds, "jit": rng.random() < 0.15, "seed": rng.randint(0, 2 ** 31 - 1)}
    if ty == "rat" and rng.random() < 0.3 and shape[0] > 1:
        case["lowrank_g"] = rng.randint(1, min(3, shape[0]))
    return case


def gen_root(rng, i):
    d = rng.randint(4, 12)
    r = rng.randint(1, d - 3)
    neg = rng.random() < 0.5
    if rng.random() < (0.75 if neg else 0.6):
        n = rng.randint(r + 3, d)                      # padding_start, |r| + 2 < n <= d
        ps = n
    else:
        n, ps = d, None
    p = rng.choice([1, 2, 2, 3, 4, 4, 6, 8])
    kind = rng.choice(["geometric", "clustered", "rankdef", "uniform", "uniform", "singular0"])
    scale = 10.0 ** rng.choice([-3, 0, 0, 2])
    cut = r if neg else n - r                          # ascending index where the retained set starts / ends
    if kind == "geometric":
        step = rng.choice([0.3, 0.5, 1.0])
        lam = sorted(10.0 ** (-step * k) for k in range(n))
    elif kind == "clustered":
        lo = [0.5 * (1 + 1e-9 * rng.randint(0, 5)) for _ in range(cut)]
        hi = [5.0 * (1 + 1e-9 * rng.randint(0, 5)) for _ in range(n - cut)]
        lam = sorted(lo + hi)
    elif kind in ("rankdef", "singular0"):
        nz = rng.randint(1, cut) if cut >= 1 else 0
        lam = sorted([0.0] * nz + [rng.uniform(0.5, 1.0) for _ in range(cut - nz)] + [rng.uniform(2.0, 6.0) for _ in range(n - cut)])
    else:
        lam = sorted([rng.uniform(0.05, 1.0) for _ in range(cut)] + [rng.uniform(1.5, 6.0) for _ in range(n - cut)])
    lam = [x * scale for x in lam]
    ridge_eps = rng.choice([1e-6, 1e-6, 1e-3, 1e-12, 0.0])
    if kind == "rankdef" and ridge_eps < 1e-6:
        ridge_eps = 1e-6
    mode = "full"
    if kind == "singular0":      # matrix_epsilon = 0 and singular statistics (D26): the null directions are ill-posed
        ridge_eps = 0.0
        mode = "finite" if neg else "retained"
    return {"kind": "root", "mode": mode, "id": f"r{i}", "d": d, "n": n, "ps": ps, "rank": -r if neg else r, "p": p,
            "spectrum": lam, "spec_kind": kind, "ridge_eps": ridge_eps, "rel": rng.random() < 0.6,
            "garbage": rng.random() < 0.3, "jit": rng.random() < 0.25, "seed": rng.randint(0, 2 ** 31 - 1)}


def gen_mblock(rng, i):
    """public path with several ragged blocks and compression"""
    r = rng.choice([1, 1, 2])
    b = rng.choice([r + 3, r + 3, r + 4])
    nd = rng.choice([1, 2, 2, 3])
    while True:
        shape = [rng.choice([b + 1, b + 2, 2 * b - 1, 2 * b + 1, 2 * b + 3, 3 * b - 2, r + 2, 3]) for _ in range(nd)]
        n = 1
        for x in shape:
            n *= x
        if n <= 600 and any(x > b for x in shape):
            break
    return {"kind": "mblock", "id": f"m{i}", "shape": shape, "block": b, "rank": r * rng.choice([1, -1]),
            "ty": rng.choice(["rat", "f64"]), "ptype": rng.choice(["ALL", "ALL", "ALL", "INPUT", "OUTPUT"]),
            "jit": rng.random() < 0.15, "seed": rng.randint(0, 2 ** 31 - 1)}


def gen_rootq(rng, i):
    """rational statistics with an exactly known eigendecomposition, p = 1, absolute epsilon"""
    F = Fraction
    sub = rng.choice(["perm", "perm", "house"])
    d = rng.randint(4, 8 if sub == "perm" else 7)
    r = rng.randint(1, d - 3)
    neg = rng.random() < 0.5
    if rng.random() < 0.6:
        n = rng.randint(r + 3, d)
        ps = n
    else:
        n, ps = d, None
    if sub == "perm":
        ridge = rng.choice([F(0), F(0), F(1, 1024)])
        ks = sorted(rng.sample(range(-4, 6), n))
        e = [F(2) ** k for k in ks]                     # eigenvalues of the regularized statistics: powers of two
        if ridge == 0:                                  # singular statistics with a zero ridge, exactly (D26)
            zmax = (n - r) if not neg else (r if n == d else 0)
            z = rng.randint(0, zmax) if rng.random() < 0.6 else 0
            e = [F(0)] * z + e[z:]
    else:
        ridge = rng.choice([F(0), F(1, 1024), F(1, 2 ** 20)])
        cut = r if neg else n - r
        e, x = [], F(rng.randint(1, 4), 8)
        for k in range(n):
            e.append(x)
            x += F(rng.randint(8, 16), 8) if k + 1 == cut else F(rng.randint(1, 6), 8)
    lam = [x - ridge if x != 0 else F(0) for x in e]
    return {"kind": "rootq", "id": f"q{i}", "sub": sub, "d": d, "n": n, "ps": ps, "rank": -r if neg else r,
            "spectrum": [kit.rat_str(x) for x in lam], "ridge": kit.rat_str(ridge), "garbage": rng.random() < 0.3,
            "jit": rng.random() < 0.2, "seed": rng.randint(0, 2 ** 31 - 1)}


def corpus_cases():
    out = []
    d = os.path.join(kit.ROOT, "corpus", "C10")
    if os.path.isdir(d):
        for f in sorted(os.listdir(d)):
            if f.endswith(".json"):
                for c in json.load(open(os.path.join(d, f))).get("cases", []):
                    c = dict(c)
                    c["id"] = "corpus:" + f + ":" + str(c.get("id", ""))
                    out.append(c)
    return out


# ----------------------------------------------------------------------------- implementation runner (worker process)
def _build_precond(ds, jnp, ax, rank):
    if ax[0] == "dense":
        return jnp.asarray(ax[1])
    _, V, e, c, tail, ev, flag = ax
    if flag:    # only the frequent-directions packer can set the flag; decoys in the eigvals / tail slots
        return ds._fd_low_rank_pack(jnp.asarray(V), jnp.asarray(ev), jnp.asarray(e), c, tail, True, rank)
    return ds._low_rank_pack(jnp.asarray(V), jnp.asarray(e), c, rank)


def _impl_pack(ds, jnp, np, case):
    V, ev, ie, c, t, hz, Q, Z = mat_pack(case)
    rank = case["rank"]
    obs = {}
    try:
        P = np.asarray(ds._fd_low_rank_pack(jnp.asarray(V), jnp.asarray(ev), jnp.asarray(ie), c, t, hz, rank))
        obs["P"] = hx(P)
        obs["P_shape"] = list(P.shape)
        obs["P_dtype"] = str(P.dtype)
        F = ds._fd_low_rank_unpack(jnp.asarray(P), rank)
        obs["F"] = [hx(F[0]), hx(F[1]), hx(F[2]), hx(F[3]), hx(F[4]), bool(F[5])]
        Plr = np.asarray(ds._low_rank_pack(jnp.asarray(V), jnp.asarray(ie), c, rank))
        obs["Plr"] = hx(Plr)
        L = ds._low_rank_unpack(jnp.asarray(Plr), rank)
        obs["L"] = [hx(L[0]), hx(L[1]), hx(L[2]), bool(L[3])]
        FQ = ds._fd_low_rank_unpack(jnp.asarray(Q), rank)
        obs["FQ"] = [hx(FQ[0]), hx(FQ[1]), hx(FQ[2]), hx(FQ[3]), hx(FQ[4]), bool(FQ[5])]
        FZ = ds._fd_low_rank_unpack(jnp.asarray(Z), rank)
        obs["PZ"] = hx(ds._fd_low_rank_pack(FZ[0], FZ[1], FZ[2], FZ[3], FZ[4], FZ[5], rank))
    except AssertionError as e:
        obs["assertion"] = str(e)[:100]
    return obs


def _impl_apply(ds, jax, jnp, np, case):
    g, axes = mat_apply(case)
    rank = case["rank"]
    pre = ds.Preconditioner(jnp.zeros(case["shape"]), 64, 1, False, getattr(ds.PreconditionerType, case["ptype"]), rank)
    preconds = [None if ax[0] == "roll" else _build_precond(ds, jnp, ax, rank) for ax in axes]
    spd = [ax[0] != "roll" for ax in axes]
    obs = {"preconds": [None if p is None else {"shape": list(p.shape), "data": hx(p)} for p in preconds]}
    if case["path"] == "grad":
        obs["spd"] = [bool(x) for x in pre.should_precondition_dims()]
        obs["pshapes"] = [list(map(int, s)) for s in pre.shapes_for_preconditioners()]
        plist = [p for p in preconds if p is not None]
        fn = lambda gg, pl: pre.preconditioned_grad(gg, pl)   # noqa: E731
    else:
        plist = preconds
        fn = lambda gg, pl: pre._precondition_block(gg, spd, pl)   # noqa: E731
    if case["jit"]:
        fn = jax.jit(fn)
    out = np.asarray(fn(jnp.asarray(g), plist))
    obs["out"] = hx(out)
    obs["out_shape"] = list(out.shape)
    return obs


def _impl_root(ds, jax, jnp, np, case, tol):
    A = mat_root(case)
    d, ps, p, rank = case["d"], case["ps"], case["p"], case["rank"]
    Am = A.copy()
    if ps is not None:
        Am[ps:, :] = 0.0
        Am[:, ps:] = 0.0
    _, mev = ds.power_iteration(jnp.asarray(Am), num_iters=100, error_tolerance=tol,
                                precision=jax.lax.Precision.HIGHEST, padding_start=ps)
    kw = dict(compression_rank=rank, ridge_epsilon=case["ridge_eps"], error_tolerance=tol,
              relative_matrix_epsilon=case["rel"])
    if case["jit"] and ps is not None:
        f = jax.jit(lambda a, s: ds._low_rank_root(a, p, padding_start=s, **kw)[0])
        P = f(jnp.asarray(A), jnp.asarray(ps, jnp.int32))
    else:
        P = ds._low_rank_root(jnp.asarray(A), p, padding_start=ps, **kw)[0]
    P = np.asarray(P)
    V, e, c, skip = ds._low_rank_unpack(jnp.asarray(P), rank)
    return {"P": hx(P), "P_shape": list(P.shape), "max_ev": hx([float(mev)])[0],
            "V": hx(V), "e": hx(e), "c": hx([float(c)])[0], "skip": bool(skip)}


def _impl_mblock(ds, jax, jnp, np, case):
    g, blocks = mat_mblock(case)
    rank = case["rank"]
    pre = ds.Preconditioner(jnp.zeros(case["shape"]), case["block"], 1, False, getattr(ds.PreconditionerType, case["ptype"]), rank)
    preconds = [[None if ax[0] == "roll" else _build_precond(ds, jnp, ax, rank) for ax in axes] for _sl, axes in blocks]
    plist = [p_ for blk in preconds for p_ in blk if p_ is not None]
    fn = lambda gg, pl: pre.preconditioned_grad(gg, pl)   # noqa: E731
    if case["jit"]:
        fn = jax.jit(fn)
    out = np.asarray(fn(jnp.asarray(g), plist))
    parts = pre._partitioner.partition(jnp.asarray(g))
    return {"out": hx(out), "out_shape": list(out.shape),
            "preconds": [[None if p_ is None else {"shape": list(p_.shape), "data": hx(p_)} for p_ in blk] for blk in preconds],
            "pshapes": [list(map(int, s_)) for s_ in pre.shapes_for_preconditioners()],
            "spd": [bool(x) for x in pre.should_precondition_dims()],
            "parts": [{"shape": list(t.shape), "data": hx(t)} for t in parts]}


def _impl_rootq(ds, jax, jnp, np, case, tol):
    _U, _lam, A = mat_rootq(case)
    Af = np.array([[float(x) for x in row] for row in A])
    ps, rank, ridge = case["ps"], case["rank"], float(Fraction(case["ridge"]))
    kw = dict(compression_rank=rank, ridge_epsilon=ridge, error_tolerance=tol, relative_matrix_epsilon=False)
    if case["jit"] and ps is not None:
        P = jax.jit(lambda a, s_: ds._low_rank_root(a, 1, padding_start=s_, **kw)[0])(jnp.asarray(Af), jnp.asarray(ps, jnp.int32))
    else:
        P = ds._low_rank_root(jnp.asarray(Af), 1, padding_start=ps, **kw)[0]
    P = np.asarray(P)
    return {"P": hx(P), "P_shape": list(P.shape), "A_exact": all(Fraction(float(x)) == x for row in A for x in row)}


def run_impl(task):
    import contextlib
    import io
    import numpy as np
    import jax
    jax.config.update("jax_enable_x64", True)
    import jax.numpy as jnp
    from precondition import distributed_shampoo as ds
    out = []
    for case in task["cases"]:
        try:
            with contextlib.redirect_stdout(io.StringIO()):
                if case["kind"] == "pd":
                    obs = {"grid": [[r, d, int(ds._precond_dim(r, d)), bool(ds._should_compress(r, d))]
                                    for r in range(-case["R"], case["R"] + 1) for d in range(0, case["D"] + 1)]}
                elif case["kind"] == "pack":
                    obs = _impl_pack(ds, jnp, np, case)
                elif case["kind"] == "apply":
                    obs = _impl_apply(ds, jax, jnp, np, case)
                elif case["kind"] == "mblock":
                    obs = _impl_mblock(ds, jax, jnp, np, case)
                elif case["kind"] == "rootq":
                    obs = _impl_rootq(ds, jax, jnp, np, case, task["tol"])
                else:
                    obs = _impl_root(ds, jax, jnp, np, case, task["tol"])
        except Exception as e:  # noqa: BLE001
            import traceback
            src = os.path.realpath(kit.repo_src())
            frames = [f for f in traceback.extract_tb(e.__traceback__) if os.path.realpath(f.filename).startswith(src)]
            obs = {"exception": type(e).__name__ + ": " + str(e)[:300],
                   "raised_in": [f"{os.path.basename(f.filename)}:{f.lineno} {f.name}" for f in frames[-2:]]}
        out.append(obs)
    jax.clear_caches()
    return out


# ----------------------------------------------------------------------------- numpy oracles
def denote_np(V, e, c):
    import numpy as np
    d = V.shape[0]
    return c * (np.eye(d) - V @ V.T) + (V * e) @ V.T


def apply_expected(g, axes):
    """g x_a M_a for every axis, and a norm bound of the computation (for the tolerance)"""
    import numpy as np
    out = g
    bound = float(np.max(np.abs(g))) if g.size else 0.0
    for a, ax in enumerate(axes):
        if ax[0] == "roll":
            continue
        if ax[0] == "dense":
            M = ax[1]
            nb = np.abs(M).sum(axis=0).max()
        else:
            _, V, e, c, _tail, _ev, flag = ax
            if flag:
                continue
            M = denote_np(V, e, c)
            aV = np.abs(V)
            nb = (abs(c) * (np.eye(V.shape[0]) + aV @ aV.T) + (aV * np.abs(e)) @ aV.T).sum(axis=0).max()
        out = np.moveaxis(np.tensordot(out, M, axes=[[a], [0]]), -1, a)
        bound *= float(nb)
    return out, bound


def root_expected(case, A, max_ev, tol):
    """independent numpy evaluation of the statement for `_low_rank_root`"""
    import numpy as np
    n, p, rank = case["n"], case["p"], case["rank"]
    r = abs(rank)
    ridge = case["ridge_eps"] * (max(max_ev, tol) if case["rel"] else max(1.0, tol))
    B = A[:n, :n] + ridge * np.eye(n)
    lam, Q = np.linalg.eigh(B)
    cl = np.maximum(lam, ridge)
    with np.errstate(divide="ignore", invalid="ignore"):
        f = np.where((lam == 0.0) | (cl <= 0.0), 0.0, np.where(cl > 0, cl, 1.0) ** (-1.0 / p))
    keep = np.arange(n - r, n) if rank > 0 else np.arange(0, r)
    other = np.setdiff1d(np.arange(n), keep)
    c = float(np.mean(f[other]))
    Qk = Q[:, keep]
    D = (Qk * f[keep]) @ Qk.T + c * (np.eye(n) - Qk @ Qk.T)
    gap = float(lam[n - r] - lam[n - r - 1]) if rank > 0 else float(lam[r] - lam[r - 1])
    lmax = float(lam[-1])
    return {"D": D, "R": (Qk * f[keep]) @ Qk.T, "f_keep": np.sort(f[keep]), "lam_keep": lam[keep][np.argsort(f[keep])], "c": c,
            "ridge": ridge, "gap": gap, "lmax": lmax, "lmin": float(max(lam[0], ridge, 1e-300)), "fmax": float(f.max()),
            "fmax_keep": float(f[keep].max())}


# ----------------------------------------------------------------------------- evaluation
def _fail_infra(ctx, case, obs, stats=None):
    """An exception raised inside the implementation on an admissible input means no result was delivered: violation.
    Anything else is harness trouble."""
    if obs.get("raised_in"):
        ctx.evaluated()
        ctx.cov["search_evaluations"] += 1
        if stats is not None:
            stats["violations:exception"] += 1
        ctx.violation(f"implementation raised {obs['exception']} at {obs['raised_in']} on an admissible {case['kind']} input", {"case": case})
        return
    raise kit.InfraError(f"case {case['id']}: {obs['exception']}")


def _cmp(ctx, op, ok, case=None, impl=None, model=None, note=""):
    """count an agreement, or record the disagreement (which counts itself)"""
    if ok:
        ctx.corr(op, True)
    else:
        ctx.disagree(op, case, impl, model, note)


def eval_pd(ctx, case, obs, rep, stats):
    if "exception" in obs:
        return _fail_infra(ctx, case, obs)
    for (r, d, pdv, sc), m in zip(obs["grid"], rep):
        ctx.evaluated()
        ok = m.get("precond_dim") == pdv and m.get("should_compress") == sc
        _cmp(ctx, "precond_dim/should_compress [EXACT]", ok, {"rank": r, "dim": d}, [pdv, sc], m)
        ctx.cov["search_evaluations"] += 1
        bad = []
        if (pdv != d) != sc:
            bad.append(f"_precond_dim({r},{d})={pdv} but _should_compress={sc}")
        if pdv not in (d, abs(r) + 2) or pdv > d:
            bad.append(f"_precond_dim({r},{d})={pdv} is neither dim nor |rank|+2 (or exceeds dim)")
        if sc != (r != 0 and abs(r) + 2 < d):
            bad.append(f"_should_compress({r},{d})={sc}: packing needs |rank| + 2 < dim (slot disjointness)")
        if bad:
            stats["violations:precond_dim"] += 1
            ctx.violation("; ".join(bad), {"kind": "pd1", "rank": r, "dim": d})
        if sc:
            ctx.nontrivial(("pd", r, d))


def pack_requests(case, obs):
    V, ev, ie, c, t, hz, Q, Z = mat_pack(case)
    d, r = case["d"], abs(case["rank"])
    base = {"ty": "f64", "d": d, "r": r}
    reqs = [dict(base, op="pack", eigvecs=hx(V), eigvals=hx(ev), inv=hx(ie), const=hx([c])[0], tail=hx([t])[0], has_zeros=hz),
            dict(base, op="lr_pack", eigvecs=hx(V), inv=hx(ie), const=hx([c])[0]),
            dict(base, op="unpack", P=hx(Q))]
    reqs.append(dict(base, op="lr_unpack", P=obs["Plr"]) if "Plr" in obs else {"op": "precond_dim", "rank": 0, "dim": 0})
    return reqs


def eval_pack(ctx, case, obs, reps, stats):
    if "exception" in obs:
        return _fail_infra(ctx, case, obs, stats)
    V, ev, ie, c, t, hz, Q, Z = mat_pack(case)
    d, r = case["d"], abs(case["rank"])
    ctx.evaluated()
    ctx.dist("pack:" + case["cls"] + (":admissible" if pdim(r, d) else ":inadmissible"))
    rp, rlp, ru, rlu = reps
    if "assertion" in obs or not pdim(r, d):
        ok = ("assertion" in obs) and rp.get("err") == "inadmissible" and ru.get("err") == "inadmissible" and not pdim(r, d)
        _cmp(ctx, "pack rejects r + 2 >= d", ok, case, obs.get("assertion", "accepted"), [rp, ru])
        return
    ctx.nontrivial(("pack", d, case["rank"], case["cls"], case["seed"]))
    checks = [("_fd_low_rank_pack", obs["P"], rp.get("P")),
              ("_low_rank_pack", obs["Plr"], rlp.get("P")),
              ("_fd_low_rank_unpack", obs["FQ"], [ru.get("eigvecs"), ru.get("eigvals"), ru.get("inv"), [ru.get("const")], [ru.get("tail")], ru.get("has_zeros")]),
              ("_low_rank_unpack", obs["L"], [rlu.get("eigvecs"), rlu.get("inv"), [rlu.get("const")], rlu.get("has_zeros")])]
    for name, impl, model in checks:
        ok = impl == model
        _cmp(ctx, name + " [EXACT]", ok, case, impl, model)
    # ---- direct oracle: the two round trips, on the implementation alone
    ctx.cov["search_evaluations"] += 1
    bad = []
    if obs["P_shape"] != [d, r + 2]:
        bad.append(f"packed shape {obs['P_shape']} != [{d}, {r + 2}]")
    if obs["F"] != [hx(V), hx(ev), hx(ie), hx([c]), hx([t]), hz]:
        names = ["eigvecs", "eigvals", "inverted_eigvals", "const", "tail", "has_zeros"]
        diff = [nm for nm, a, b in zip(names, obs["F"], [hx(V), hx(ev), hx(ie), hx([c]), hx([t]), hz]) if a != b]
        bad.append(f"_fd_low_rank_unpack(_fd_low_rank_pack(F)) != F in fields {diff}")
    if obs["L"] != [hx(V), hx(ie), hx([c]), False]:
        bad.append("_low_rank_unpack(_low_rank_pack(V, e, c)) != (V, e, c, False)")
    if obs["PZ"] != hx(Z):
        bad.append("_fd_low_rank_pack(_fd_low_rank_unpack(P)) != P for P with zero unused slots and a 0/1 flag")
    if bad:
        stats["violations:pack"] += 1
        ctx.violation("; ".join(bad), {"case": case})


def apply_request(case, obs):
    g, axes = mat_apply(case)
    enc = rats if case["ty"] == "rat" else hx
    ops = []
    for ax, d, pr in zip(axes, case["shape"], obs["preconds"]):
        if ax[0] == "roll":
            ops.append({"kind": "roll"})
            continue
        P = unhx(pr["data"])
        if pr["shape"][0] != pr["shape"][1]:
            ops.append({"kind": "packed", "r": abs(case["rank"]), "P": enc(P)})
        else:
            ops.append({"kind": "dense", "d": d, "P": enc(P)})
    return {"op": "apply_block", "ty": case["ty"], "shape": case["shape"], "g": enc(g), "ops": ops}


def eval_apply(ctx, case, obs, rep, stats):
    import numpy as np
    if "exception" in obs:
        return _fail_infra(ctx, case, obs, stats)
    g, axes = mat_apply(case)
    shape = case["shape"]
    ctx.evaluated()
    npacked = sum(1 for k in case["kinds"] if k.startswith("packed"))
    ctx.dist(f"apply:{case['ty']}:{case['path']}:rank{len(shape)}:packed_axes{npacked}" + (":jit" if case["jit"] else ""))
    if "error" in rep:
        raise kit.InfraError(f"driver: {rep['error']} on case {case['id']}")
    out = unhx(obs["out"], obs["out_shape"])
    shape_ok = obs["out_shape"] == shape
    if case["path"] == "grad":
        # the public path chose the layout: must be the one the case was generated for
        want = [[d, abs(case["rank"]) + 2 if pdim(case["rank"], d) else d] for d, k in zip(shape, case["kinds"]) if k != "roll"]
        lay_ok = obs["pshapes"] == want and obs["spd"] == [k != "roll" for k in case["kinds"]]
        _cmp(ctx, "shapes_for_preconditioners uses precond_dim [EXACT]", lay_ok, case, [obs["pshapes"], obs["spd"]], want)
    exp, bound = apply_expected(g, axes)
    tol = 1e-12 * bound
    if case["ty"] == "rat":
        impl_r = rats(out) if shape_ok else None
        ok = impl_r == rep["packed"]
        _cmp(ctx, "_precondition_block vs Rat model [EXACT-DYADIC]", ok, case, impl_r and impl_r[:40], rep["packed"][:40])
        inst = rep["packed"] == rep["denoted"]
        _cmp(ctx, "Rat instance: packed loop == denoted dense loop", inst, case, None, [rep["packed"][:20], rep["denoted"][:20]])
        good = shape_ok and np.array_equal(out, exp)
        err = float(np.max(np.abs(out - exp))) if shape_ok and out.size else 0.0
    else:
        mp = unhx(rep["packed"], shape)
        md = unhx(rep["denoted"], shape)
        e1 = float(np.max(np.abs(out - mp))) if shape_ok and out.size else float("inf")
        ok = shape_ok and e1 <= tol
        _cmp(ctx, "_precondition_block vs Float model [TOL 1e-12 x bound]", ok, case, hx(out)[:20], rep["packed"][:20], f"max abs diff {e1} > {tol}")
        e2 = float(np.max(np.abs(mp - md))) if mp.size else 0.0
        _cmp(ctx, "Float model: packed loop ~ denoted dense loop", e2 <= tol, case, None, None, f"{e2} > {tol}")
        err = float(np.max(np.abs(out - exp))) if shape_ok and out.size else (0.0 if shape_ok else float("inf"))
        good = shape_ok and err <= tol
    ctx.cov["search_evaluations"] += 1
    if not good:
        stats["violations:apply"] += 1
        ctx.violation(f"packed application differs from g x_a (c(I - VV') + V diag(e) V') "
                      f"(shape {shape}, axes {case['kinds']}, compression_rank {case['rank']}, path {case['path']}): "
                      f"out shape {obs['out_shape']}, max abs diff {err} (allowed {0.0 if case['ty'] == 'rat' else tol})", {"case": case})
    stats["apply_max_rel_err"] = max(stats.get("apply_max_rel_err", 0.0), err / bound if bound else 0.0)
    if npacked and any(k == "packed" for k in case["kinds"]):
        ctx.nontrivial(("apply", tuple(shape), case["rank"], tuple(case["kinds"]), case["ty"], case["path"], case["seed"]))


def root_req1(case, obs, tol):
    A = mat_root(case)
    return {"op": "regularized_input", "ty": "f64", "d": case["d"], "A": hx(A), "ps": case["ps"],
            "ridge_eps": hx([case["ridge_eps"]])[0], "max_ev": obs["max_ev"] if case["rel"] else hx([1.0])[0], "tol": hx([tol])[0]}


def root_req2(case, rep1, stats):
    """external kernel: numpy's eigh of the model's matrix; specification checked here"""
    import numpy as np
    d = case["d"]
    M = unhx(rep1["M"], (d, d))
    e, U = np.linalg.eigh(M)
    sc = max(1.0, float(np.max(np.abs(M))))
    res = max(float(np.max(np.abs(U @ U.T - np.eye(d)))), float(np.max(np.abs((U * e) @ U.T - M))) / sc)
    stats["eigh_spec_max_residual"] = max(stats.get("eigh_spec_max_residual", 0.0), res)
    if res > 1e-10 or np.any(np.diff(e) < 0):
        raise kit.InfraError(f"numpy eigh violates its specification on case {case['id']}: residual {res}")
    return {"op": "low_rank_root", "ty": "f64", "d": d, "r": abs(case["rank"]), "neg": case["rank"] < 0, "ps": case["ps"],
            "ridge": rep1["ridge"], "p": case["p"], "e": hx(e), "U": hx(U)}


def eval_root(ctx, case, obs, rep1, rep2, tol, stats):
    import numpy as np
    if "exception" in obs:
        return _fail_infra(ctx, case, obs, stats)
    for rep in (rep1, rep2):
        if "error" in rep or "err" in rep:
            raise kit.InfraError(f"driver: {rep} on case {case['id']}")
    d, n, rank = case["d"], case["n"], case["rank"]
    r = abs(rank)
    ctx.evaluated()
    ctx.dist(f"root:{'neg' if rank < 0 else 'pos'}:{'padded' if n < d else ('ps=d' if case['ps'] else 'nopad')}:{case['spec_kind']}:p{case['p']}" + (":jit" if case["jit"] else ""))
    A = mat_root(case)
    Am = A.copy()
    Am[n:, :] = 0.0
    Am[:, n:] = 0.0
    X = root_expected(case, Am, kit.hex_f64(obs["max_ev"]), tol)
    mode = case.get("mode", "full")
    P = unhx(obs["P"], obs["P_shape"])
    V, e, c = unhx(obs["V"], (d, r)), unhx(obs["e"]), kit.hex_f64(obs["c"])
    Pm = unhx(rep2["P"], (d, r + 2))
    Vm, em, cm = Pm[:, :r], Pm[:r, -2], Pm[0, -1]
    shape_ok = obs["P_shape"] == [d, r + 2]
    rest_i, rest_m = P.copy(), Pm.copy()      # slots the root never writes are zero in both
    for M in (rest_i, rest_m):
        M[:, :r] = 0
        M[:r, -2] = 0
        M[0, -1] = 0
    basic = []
    if obs["skip"]:
        basic.append("packed root is flagged has_zeros")
    if not np.all(np.isfinite(P)):
        basic.append("packed root is not finite")
    if not shape_ok:
        basic.append(f"packed root has shape {obs['P_shape']}")
    ctx.cov["search_evaluations"] += 1
    if mode == "finite":
        # zero ridge, singular statistics, null directions among the retained ones: their root values are ill-posed
        # (0 for a rounding-negative eigenvalue, huge for a rounding-positive one); the statement left is finiteness.
        _cmp(ctx, "zero ridge, singular: Float model root finite", bool(np.all(np.isfinite(Pm))) and not rest_m.any(), case, None, None)
        if basic or rest_i.any():
            stats["violations:root"] += 1
            ctx.violation("; ".join(basic or ["unused slots of the packed root are not zero"]) +
                          f" (zero ridge, singular statistics; d={d}, padding_start={case['ps']}, compression_rank={rank}, p={case['p']})", {"case": case})
        ctx.nontrivial(("root", d, case["ps"], rank, case["p"], case["spec_kind"], case["seed"]))
        return
    # conditioning: rotation of the retained subspace (gap at the cut) and relative accuracy of the smallest eigenvalue
    lam_keep_min = float(max(np.min(X["lam_keep"]), 1e-300))
    if mode == "retained":
        kappa = 1.0 + X["lmax"] / max(X["gap"], 1e-300) + X["lmax"] / lam_keep_min
        tolD = ROOT_TOL * X["fmax_keep"] * kappa
        tolc = float("inf")
        D, Dm, Dx = (V * e) @ V.T, (Vm * em) @ Vm.T, X["R"]
    else:
        kappa = 1.0 + X["lmax"] / max(X["gap"], 1e-300) + X["lmax"] / X["lmin"]
        tolD = ROOT_TOL * X["fmax"] * kappa
        tolc = ROOT_TOL * X["fmax"] * (X["lmax"] / X["lmin"])
        D, Dm, Dx = denote_np(V, e, c), denote_np(Vm, em, cm), X["D"]
    # ---- correspondence with the Float model (numpy eigh as the kernel)
    tole = ROOT_TOL * np.sort(e) * (X["lmax"] / np.maximum(X["lam_keep"], 1e-300))
    errs = {"dense": float(np.max(np.abs(D - Dm))), "inv": float(np.max(np.abs(np.sort(e) - np.sort(em)) - tole)),
            "const": abs(c - cm) if mode == "full" else 0.0}
    ok = shape_ok and errs["dense"] <= tolD and errs["inv"] <= 0 and errs["const"] <= tolc
    ok = ok and not rest_i.any() and not rest_m.any() and bool(np.all(np.isfinite(Pm)))
    _cmp(ctx, "_low_rank_root vs Float model [TOL 1e-12 x kappa]", ok, case, {"e": list(map(float, e)), "c": c}, {"e": list(map(float, em)), "c": float(cm)},
         f"errors {errs}, allowed dense {tolD}, const {tolc}, mode {mode}")
    # ---- direct oracle
    bad = list(basic)
    eD = float(np.max(np.abs(D[:n, :n] - Dx)))
    what = "dense matrix denoted by the packed root" if mode == "full" else "retained part V diag(e) V' of the packed root"
    if eD > tolD:
        bad.append(f"{what} differs from Q diag(f) Q' on the unpadded block by {eD} (allowed {tolD})")
    if n < d:
        eo = float(np.max(np.abs(D[:n, n:])))
        if eo > tolD:
            bad.append(f"unpadded/padded block of the denoted matrix is {eo} (allowed {tolD})")
    ef = np.abs(np.sort(e) - X["f_keep"])
    tolf = ROOT_TOL * X["f_keep"] * (X["lmax"] / np.maximum(X["lam_keep"], 1e-300))
    if np.any(ef > tolf):
        bad.append(f"retained inverse roots {list(np.sort(e))} differ from lambda^(-1/p) = {list(X['f_keep'])}")
    if mode == "full" and abs(c - X["c"]) > tolc:
        bad.append(f"const {c} differs from the mean {X['c']} of the other roots over the unpadded dimensions")
    stats["root_max_err_over_tol"] = max(stats.get("root_max_err_over_tol", 0.0), eD / tolD)
    if mode == "full" and tolc > 0:
        stats["root_const_max_err_over_tol"] = max(stats.get("root_const_max_err_over_tol", 0.0), abs(c - X["c"]) / tolc)
    stats["root_inv_max_err_over_tol"] = max(stats.get("root_inv_max_err_over_tol", 0.0), float(np.max(ef / np.maximum(tolf, 1e-300))))
    if bad:
        stats["violations:root"] += 1
        ctx.violation("; ".join(bad[:3]) + f" (d={d}, padding_start={case['ps']}, compression_rank={rank}, p={case['p']}, mode={mode})", {"case": case})
    ctx.nontrivial(("root", d, case["ps"], rank, case["p"], case["spec_kind"], case["seed"]))


# ----------------------------------------------------------------------------- multi-block public path
def _block_req(ty, bshape, axes, pobs, rank):
    enc = rats if ty == "rat" else hx
    ops = []
    for ax, d, pr in zip(axes, bshape, pobs):
        if ax[0] == "roll":
            ops.append({"kind": "roll"})
            continue
        P = unhx(pr["data"])
        if pr["shape"][0] != pr["shape"][1]:
            ops.append({"kind": "packed", "r": abs(rank), "P": enc(P)})
        else:
            ops.append({"kind": "dense", "d": d, "P": enc(P)})
    return ops


def mblock_requests(case, obs):
    g, blocks = mat_mblock(case)
    enc = rats if case["ty"] == "rat" else hx
    reqs = []
    for (sl, axes), pobs in zip(blocks, obs["preconds"]):
        gb = g[sl]
        reqs.append({"op": "apply_block", "ty": case["ty"], "shape": list(gb.shape), "g": enc(gb),
                     "ops": _block_req(case["ty"], gb.shape, axes, pobs, case["rank"])})
    return reqs


def eval_mblock(ctx, case, obs, reps, stats):
    import numpy as np
    if "exception" in obs:
        return _fail_infra(ctx, case, obs, stats)
    g, blocks = mat_mblock(case)
    shape, r = case["shape"], abs(case["rank"])
    ctx.evaluated()
    npk = sum(1 for _sl, axes in blocks for ax in axes if ax[0] == "packed" and not ax[6])
    ctx.dist(f"mblock:{case['ty']}:rank{len(shape)}:blocks{len(blocks)}:{case['ptype']}" + (":jit" if case["jit"] else ""))
    spd = spd_of(case["ptype"], len(shape))
    want = [[s_.stop - s_.start, (r + 2) if pdim(r, s_.stop - s_.start) else s_.stop - s_.start]
            for sl, _ in blocks for s_, on in zip(sl, spd) if on]
    parts_ok = len(obs["parts"]) == len(blocks) and all(
        pt["shape"] == list(g[sl].shape) and pt["data"] == hx(g[sl]) for pt, (sl, _a) in zip(obs["parts"], blocks))
    lay_ok = obs["pshapes"] == want and obs["spd"] == spd and parts_ok
    _cmp(ctx, "multi-block layout: partition order and shapes_for_preconditioners [EXACT]", lay_ok, case, [obs["pshapes"], obs["spd"]], want)
    shape_ok = obs["out_shape"] == shape
    out = unhx(obs["out"], obs["out_shape"])
    exp = np.zeros(shape)
    bound = 0.0
    for sl, axes in blocks:
        eb, bb = apply_expected(g[sl], axes)
        exp[sl] = eb
        bound = max(bound, bb)
    tol = 1e-12 * bound
    name = "preconditioned_grad (several blocks) vs %s model per block [%s]" % (("Rat", "EXACT-DYADIC") if case["ty"] == "rat" else ("Float", "TOL 1e-12 x bound"))
    ok = shape_ok
    if shape_ok:
        for (sl, _axes), rep in zip(blocks, reps):
            ob = out[sl]
            if case["ty"] == "rat":
                ok = ok and rats(ob) == rep["packed"] and rep["packed"] == rep["denoted"]
            else:
                ok = ok and float(np.max(np.abs(ob - unhx(rep["packed"], ob.shape)))) <= tol
    _cmp(ctx, name, ok, case, hx(out)[:20], [rp["packed"][:8] for rp in reps][:4])
    ctx.cov["search_evaluations"] += 1
    if case["ty"] == "rat":
        good = shape_ok and np.array_equal(out, exp)
    else:
        good = shape_ok and float(np.max(np.abs(out - exp))) <= tol
    if not good:
        err = float(np.max(np.abs(out - exp))) if shape_ok else float("inf")
        stats["violations:mblock"] += 1
        ctx.violation(f"preconditioned_grad over {len(blocks)} blocks (shape {shape}, block_size {case['block']}, compression_rank {case['rank']}, "
                      f"{case['ptype']}) differs from the blockwise g x_a (c(I - VV') + V diag(e) V'): max abs diff {err} "
                      f"(allowed {0.0 if case['ty'] == 'rat' else tol})", {"case": case})
    if npk:
        ctx.nontrivial(("mblock", tuple(shape), case["block"], case["rank"], case["ty"], case["ptype"], case["seed"]))


# ----------------------------------------------------------------------------- exact rational root stream (p = 1)
def rootq_req1(case, tol):
    _U, _lam, A = mat_rootq(case)
    return {"op": "regularized_input", "ty": "rat", "d": case["d"], "A": [kit.rat_str(x) for row in A for x in row], "ps": case["ps"],
            "ridge_eps": case["ridge"], "max_ev": "1", "tol": kit.rat_str(Fraction(tol))}


def rootq_eig(case):
    """exact eigendecomposition of the regularized, masked statistics: the d - n padded coordinates first (eigenvalue 0),
    then the columns of U with lam + ridge ascending"""
    F = Fraction
    U, lam, _A = mat_rootq(case)
    d, n = case["d"], case["n"]
    ridge = F(case["ridge"])
    e = [F(0)] * (d - n) + [x + ridge for x in lam]
    Uf = [[F(0)] * d for _ in range(d)]
    for k in range(d - n):
        Uf[n + k][k] = F(1)
    for i in range(n):
        for j in range(n):
            Uf[i][d - n + j] = U[i][j]
    return e, Uf


def rootq_req2(case, rep1):
    """the exact `eigh`: specification checked exactly against the matrix the Rat model built"""
    F = Fraction
    d = case["d"]
    e, Uf = rootq_eig(case)
    M = [[F(rep1["M"][i * d + j]) for j in range(d)] for i in range(d)]
    I = [[F(1) if i == j else F(0) for j in range(d)] for i in range(d)]
    UE = [[Uf[i][j] * e[j] for j in range(d)] for i in range(d)]
    spec = _fmm(Uf, _ft(Uf)) == I and _fmm(UE, _ft(Uf)) == M and all(e[k] <= e[k + 1] for k in range(d - 1)) \
        and F(rep1["ridge"]) == F(case["ridge"])
    return spec, {"op": "low_rank_root", "ty": "rat", "d": d, "r": abs(case["rank"]), "neg": case["rank"] < 0, "ps": case["ps"],
                  "ridge": rep1["ridge"], "p": 1, "e": [kit.rat_str(x) for x in e], "U": [kit.rat_str(x) for row in Uf for x in row]}


def eval_rootq(ctx, case, obs, spec_ok, rep2, stats):
    import numpy as np
    F = Fraction
    if "exception" in obs:
        return _fail_infra(ctx, case, obs, stats)
    if "error" in rep2 or "err" in rep2:
        raise kit.InfraError(f"driver: {rep2} on case {case['id']}")
    d, n, rank = case["d"], case["n"], case["rank"]
    r = abs(rank)
    ctx.evaluated()
    ctx.dist(f"rootq:{case['sub']}:{'neg' if rank < 0 else 'pos'}:{'padded' if n < d else 'full'}:ridge{case['ridge']}")
    _cmp(ctx, "exact eigh of the Rat model's regularized input satisfies the specification [EXACT]", spec_ok, case, None, None)
    if not spec_ok:
        return
    Pm = [[F(rep2["P"][i * (r + 2) + j]) for j in range(r + 2)] for i in range(d)]
    Vm = [row[:r] for row in Pm]
    em = [Pm[q][r] for q in range(r)]
    cm = Pm[0][r + 1]
    P = unhx(obs["P"], obs["P_shape"])
    shape_ok = obs["P_shape"] == [d, r + 2] and bool(np.all(np.isfinite(P)))
    ctx.cov["search_evaluations"] += 1
    if not shape_ok:
        stats["violations:rootq"] += 1
        ctx.violation(f"packed root has shape {obs['P_shape']} / is not finite on exact rational statistics", {"case": case})
        return
    V, e, c = P[:, :r], P[:r, -2], float(P[0, -1])
    rest = P.copy()
    rest[:, :r] = 0
    rest[:r, -2] = 0
    rest[0, -1] = 0
    if case["sub"] == "perm":
        # everything is exactly representable: the implementation must reproduce the proven Rat instance bit for bit
        # (eigenvector signs and the order inside an eigenspace are free: compare V V' and V diag(e) V')
        Vi = [[F(float(x)) for x in row] for row in V]
        ei = [F(float(x)) for x in e]
        VVi = _fmm(Vi, _ft(Vi))
        VEi = _fmm([[Vi[a][q] * ei[q] for q in range(r)] for a in range(d)], _ft(Vi))
        VVm = _fmm(Vm, _ft(Vm))
        VEm = _fmm([[Vm[a][q] * em[q] for q in range(r)] for a in range(d)], _ft(Vm))
        ok = obs["A_exact"] and VVi == VVm and VEi == VEm and sorted(ei) == sorted(em) and c == float(cm) and not rest.any()
        _cmp(ctx, "_low_rank_root vs Rat model, exact eigh, p = 1 [EXACT]", ok, case,
             {"e": list(map(float, e)), "c": c}, {"e": [str(x) for x in em], "c": str(cm)},
             "V V', V diag(e) V', the retained roots as a multiset and the correctly rounded const must coincide")
        if ok and any(F(x) == 0 for x in case["spectrum"]) and F(case["ridge"]) == 0:
            stats["exact_zero_ridge_singular"] += 1
    else:
        ev = sorted(float(x + F(case["ridge"])) for x in (F(y) for y in case["spectrum"]))
        cut = r if rank < 0 else n - r
        gap = ev[cut] - ev[cut - 1]
        fmax = 1.0 / ev[0]
        kappa = 1.0 + ev[-1] / gap + ev[-1] / ev[0]
        tolD = ROOT_TOL * fmax * kappa
        Vmf = np.array([[float(x) for x in row] for row in Vm])
        emf = np.array([float(x) for x in em])
        Dm = denote_np(Vmf, emf, float(cm))
        D = denote_np(V, e, c)
        errD = float(np.max(np.abs(D - Dm)))
        erre = float(np.max(np.abs(np.sort(e) - np.sort(emf)) / np.sort(emf)))
        ok = errD <= tolD and erre <= ROOT_TOL * ev[-1] / ev[0] and abs(c - float(cm)) <= tolD and not rest.any()
        stats["rootq_house_max_err_over_tol"] = max(stats.get("rootq_house_max_err_over_tol", 0.0), errD / tolD)
        _cmp(ctx, "_low_rank_root vs Rat model, exact eigh, p = 1 [TOL 1e-12 x kappa]", ok, case,
             {"e": list(map(float, e)), "c": c}, {"e": list(map(float, emf)), "c": float(cm)}, f"dense diff {errD} allowed {tolD}")
    ctx.nontrivial(("rootq", case["sub"], d, case["ps"], rank, case["seed"]))


# ----------------------------------------------------------------------------- orchestration
def execute(ctx, cases, stats, tol):
    cases = [c for c in cases if c.get("kind") in ("pd", "pack", "apply", "root", "mblock", "rootq")]
    by = {}
    for c in cases:
        by.setdefault(c["kind"], []).append(c)
    tasks = []
    for kind, cs in by.items():
        per = {"pd": 1, "pack": 40, "apply": 24, "root": 16, "mblock": 12, "rootq": 16}[kind]
        if kind in ("root", "rootq"):       # few distinct sizes per worker task: fewer XLA compilations
            cs = sorted(cs, key=lambda c: (c["d"], abs(c["rank"])))
        for ch in kit.chunked(cs, per):
            tasks.append({"cases": ch, "tol": tol})
    results = kit.parallel_map(run_impl, tasks, nproc=14)
    pairs = [(c, o) for t, res in zip(tasks, results) for c, o in zip(t["cases"], res)]
    # driver batch 1
    reqs, spans = [], []
    for c, o in pairs:
        if "exception" in o:
            rq = []
        elif c["kind"] == "pd":
            rq = [{"op": "precond_dim", "rank": r, "dim": d} for r, d, _a, _b in o["grid"]]
        elif c["kind"] == "pack":
            rq = pack_requests(c, o)
        elif c["kind"] == "apply":
            rq = [apply_request(c, o)]
        elif c["kind"] == "mblock":
            rq = mblock_requests(c, o)
        elif c["kind"] == "rootq":
            rq = [rootq_req1(c, tol)]
        else:
            rq = [root_req1(c, o, tol)]
        spans.append((len(reqs), len(reqs) + len(rq)))
        reqs += rq
    replies = ctx.driver(reqs)
    # driver batch 2 (roots, after the external eigh)
    roots = [(i, c) for i, (c, o) in enumerate(pairs) if c["kind"] == "root" and "exception" not in o]
    reqs2 = [root_req2(c, replies[spans[i][0]], stats) for i, c in roots]
    rootqs = [(i, c) for i, (c, o) in enumerate(pairs) if c["kind"] == "rootq" and "exception" not in o]
    specs = {}
    for i, c in rootqs:
        if "error" in replies[spans[i][0]]:
            raise kit.InfraError(f"driver: {replies[spans[i][0]]['error']} on case {c['id']}")
        specs[i], rq = rootq_req2(c, replies[spans[i][0]])
        reqs2.append(rq)
    rep2 = dict(zip([i for i, _ in roots] + [i for i, _ in rootqs], ctx.driver(reqs2))) if reqs2 else {}
    for i, (c, o) in enumerate(pairs):
        rs = replies[spans[i][0]:spans[i][1]]
        for rp in rs:
            if "error" in rp:
                raise kit.InfraError(f"driver: {rp['error']} on case {c['id']}")
        if "exception" in o:
            _fail_infra(ctx, c, o, stats)
        elif c["kind"] == "pd":
            eval_pd(ctx, c, o, rs, stats)
        elif c["kind"] == "pack":
            eval_pack(ctx, c, o, rs, stats)
        elif c["kind"] == "apply":
            eval_apply(ctx, c, o, rs[0], stats)
        elif c["kind"] == "mblock":
            eval_mblock(ctx, c, o, rs, stats)
        elif c["kind"] == "rootq":
            eval_rootq(ctx, c, o, specs[i], rep2[i], stats)
        else:
            eval_root(ctx, c, o, rs[0], rep2[i], tol, stats)
    return pairs


def const_stage(ctx):
    """Literals the model hard-codes (storage dimension |rank| + 2) and the default tolerance passed to the model."""
    from harness import consts
    got = {}
    for fn, want in (("_precond_dim", [2]), ("_should_compress", [0, 2])):
        try:
            got[fn] = sorted(consts.func_literals(FILE, fn))
        except kit.InfraError:
            got[fn] = None
            continue
        if got[fn] != want:
            ctx.const_fail(f"{fn} literals", f"the theorems assume storage dimension |rank| + 2: expected {want}, source has {got[fn]}")
    tol = consts.func_default(FILE, "_low_rank_root", "error_tolerance")
    got["_low_rank_root.error_tolerance"] = tol
    if not (isinstance(tol, float) and 0 < tol < 1):
        ctx.const_fail("_low_rank_root.error_tolerance", f"expected a positive float < 1, source has {tol!r}")
        tol = 1e-6
    ctx.cov["consts"] = got
    return tol


def model_selftest(ctx):
    """The Rat model on a hand-computed instance (d = 4, r = 1): layout and application."""
    V = ["1", "0", "0", "0"]
    r = ctx.driver([
        {"op": "pack", "ty": "rat", "d": 4, "r": 1, "eigvecs": V, "eigvals": ["7"], "inv": ["5"], "const": "3", "tail": "11", "has_zeros": True},
        {"op": "apply_block", "ty": "rat", "shape": [4], "g": ["1", "2", "3", "4"],
         "ops": [{"kind": "packed", "r": 1, "P": ["1", "5", "3", "0", "0", "0", "0", "0", "0", "0", "0", "0"]}]},
        {"op": "precond_dim", "rank": -2, "dim": 4}, {"op": "precond_dim", "rank": -2, "dim": 5}])
    want = [{"P": ["1", "5", "3", "0", "0", "11", "0", "0", "0", "0", "1", "7"]},
            {"packed": ["5", "6", "9", "12"], "denoted": ["5", "6", "9", "12"]},
            {"precond_dim": 4, "should_compress": False}, {"precond_dim": 4, "should_compress": True}]
    ok = r == want
    _cmp(ctx, "model selftest (hand-computed layout and application)", ok, None, want, r)


def run(ctx):
    # _precond_dim / _should_compress are re-translated from the current source; Props/Gen.lean bridges them to the model
    kit.gen_stage(ctx)
    ctx.lean_stage(extra_props=("Gen",))
    ctx.notes.append("model tie #2: _precond_dim/_should_compress regenerated from the source by harness/py2lean.py on this run; "
                     "bridge theorems PrecondVerif.GenProps.C10.* (Props/Gen.lean) prove them equal to Shapes.precondDim/shouldCompress")
    stats = Counter()
    model_selftest(ctx)
    tol = const_stage(ctx)
    rng = random.Random(ctx.seed * 7919 + 10)
    quick = ctx.tier == "quick"
    cases = corpus_cases()
    ncorpus = len(cases)
    cases.append({"kind": "pd", "id": "grid", "R": 9 if quick else 14, "D": 16 if quick else 24})
    for i in range(120 if quick else 600):
        cases.append(gen_pack(rng, i))
    for i in range(260 if quick else 1500):
        cases.append(gen_apply(rng, i, ctx.tier))
    for i in range(220 if quick else 1300):
        cases.append(gen_root(rng, i))
    for i in range(60 if quick else 360):
        cases.append(gen_mblock(rng, i))
    for i in range(90 if quick else 540):
        cases.append(gen_rootq(rng, i))
    ctx.cov["rule"] = ("corpus first; full grid of (compression_rank, dim) for _precond_dim/_should_compress; seeded random pack cases "
                       "(d 3..14, all ranks incl. inadmissible, both signs, recognisable integers / generic / special doubles), application "
                       "cases (gradient rank 1..3, dims 1..12, |compression_rank| 1..4 both signs, packed / flagged / dense / skipped axes, "
                       "direct _precondition_block and public preconditioned_grad, eager and jit, dyadic and generic values), root cases "
                       "(d 4..12, |rank| 1..d-3 both signs, padding_start None (both signs, D21) / d / < d with and without garbage in the padded region, "
                       "p in 1..8, ridge 0..1e-3, relative and absolute epsilon, spectra geometric / clustered / rank-deficient / uniform with "
                       "a gap at the cut; zero ridge with singular statistics, D26); exact rational root cases (p = 1, signed permutations / Householder, "
                       "d 4..8, both signs, padded / unpadded, ridge 0 / 2^-10 / 2^-20, exact zeros); multi-block public-path cases (ragged "
                       "blocks, 2..27 blocks). Non-trivial: admissible pack case; application with at least one unflagged packed axis; every "
                       "root case; should_compress grid points; distinct by parameters and seed")
    ctx.assumptions += [
        "x64, float64 inputs, direct calls (observe_at of the property); a fraction of application and root cases under jit (padding_start traced)",
        "EXACT: bit patterns for pack/unpack; EXACT-DYADIC: application on small integers x powers of two against the Rat model",
        "TOL: application 1e-12 x (max|g| x product of 1-norm bounds of the applied operators); root 1e-12 x f_max x (1 + lambda_max/gap at the cut + lambda_max/lambda_min of the regularized statistics)",
        "external kernels: numpy eigh (specification re-checked at run time, residual <= 1e-10), the real power_iteration for max_ev, libm pow",
        "zero ridge with singular statistics: null directions have no well-defined float root value (0 or huge depending on the rounding sign); only finiteness and the retained positive part are demanded there; the exact stream covers the case completely",
        "statistics have a spectral gap at the cut (relative gap >= ~1e-3); without it the retained subspace is not numerically defined",
    ]
    pairs = execute(ctx, cases, stats, tol)
    ctx.cov["corpus_cases"] = ncorpus
    ctx.cov["stats"] = {k: v for k, v in stats.items()}
    cnt = Counter()
    for c, o in pairs:
        if c["kind"] == "apply" and "packed" in c["kinds"] and cnt["apply"] < 3 and "out" in o:
            cnt["apply"] += 1
            ctx.sample(dict(c, impl_out_head=list(map(float, unhx(o["out"])[:6]))))
        elif c["kind"] == "root" and cnt["root"] < 3 and "c" in o and "e" in o:
            cnt["root"] += 1
            ctx.sample(dict(c, impl_const=kit.hex_f64(o["c"]), impl_inv=list(map(float, unhx(o["e"])))))


def replay(ctx, data):
    from harness import consts
    cases = []
    for v in data.get("violations", []):
        c = v.get("case")
        if isinstance(c, dict) and isinstance(c.get("case"), dict):
            cases.append(c["case"])
        elif isinstance(c, dict) and c.get("kind") == "pd1":
            cases.append({"kind": "pd", "id": "replay", "R": max(1, abs(c["rank"])), "D": max(1, c["dim"])})
    for s in data.get("stage_failures", []):
        dt = s.get("detail")
        if isinstance(dt, dict) and isinstance(dt.get("case"), dict) and dt["case"].get("kind") in ("pack", "apply", "root", "mblock", "rootq"):
            cases.append(dt["case"])
    ctx.cov["rule"] = "replay of recorded cases"
    stats = Counter()
    try:
        tol = consts.func_default(FILE, "_low_rank_root", "error_tolerance")
    except kit.InfraError:
        tol = 1e-6
    execute(ctx, cases, stats, tol)
    ctx.cov["stats"] = dict(stats)
