"""C09 — the frequent-directions (FD) sketch brackets the true second moment.

Implementations run (real code, gradient histories of length 1..T):
  ds_direct       `frequent_directions_update` + `pad_square_matrix` + `_fd_update_root` carrying the full padded packed
                  state, read back with `_fd_low_rank_unpack`                                   (x64, float64)
  ds_public       `distributed_shampoo(frequent_directions=True, ...)` init/update; packed sketch of every statistic
                  read from `ParameterStats.preconditioners` after each update                  (default config, float32)
  sketchy_direct  `tearfree.sketchy._update_axis` from the `_init` state                        (NO x64, float32)
  sketchy_public  `tearfree.sketchy.apply(options)` init/update                                  (NO x64, float32)
  oco             `oco.algorithms.generate_init_update` for RFD_SON / FD_SON / ADA_FD / S_ADA    (x64, float64)

Direct oracle (S; float64 numpy, no reference to the Lean model), after EVERY step of every history:
  * state finite, l >= 0, t >= 0; columns of V orthonormal or zero;
  * C = exact discounted second moment (plus the per-step ridge the DS configuration adds on the stored directions):
    lambda_min(C - V diag(l) V') >= -tol*tr(C)   and   lambda_min(V diag(l) V' + t I - C) >= -tol*tr(C);
  * t_new = b*t_old + rho with rho the (k+1)-th eigenvalue of b*sketch_old + G G' (computed from the implementation's
    own previous state in float64);
  * zero-gradient step: sketch_new = b*sketch_old, sorted l_new = b*sorted l_old, t_new = b*t_old;
  * history of rank <= k: t = 0 and sketch = C (to tolerance);
  * stored inverse roots = (l + t + eps)^(-1/p) on kept directions, (t + eps)^(-1/p) for the escaped mass.
Correspondence (K; TOL): every implementation step is re-run by the Lean model (`Model/FD.lean` at Float, through
`drv_c09`) from the implementation's own previous state; the SVD kernel is LAPACK (numpy, float64) applied to the
matrix B the model itself builds, and is checked by the driver against `SvdSpec`. Compared: V diag(l) V', sorted l, t,
rho, inverse roots. Additionally the model is chained from the zero state over whole histories (`fdRunO`) and compared
with the implementation's final sketch.

Known finding K5 (public DS optimizer, statistic with dim < max_size loses its packed eigenvalues between updates) is
identified by exactly that rule and reported as KNOWN-FINDING; every other failure is a violation.
"""
import glob
import json
import os
import random

from harness import kit

K5_TEXT = ("Distributed Shampoo frequent_directions through the public optimizer: statistic with dim < max_size loses its "
           "stored sketch eigenvalues between updates (cut p[:dim, :rank+2]), so sketch + tail*I >= C fails")

TOL64 = 1e-9          # oracle tolerance relative to tr(C), float64 paths
TOL32 = 5e-5          # float32 paths (measured worst ~1e-6)
KTOL64 = 1e-9         # correspondence tolerance relative to max|B B'|, float64 paths
KTOL32 = 1e-4
ALGOS = ["RFD_SON", "FD_SON", "ADA_FD", "S_ADA"]
GUARDS = {"lo": 0.99, "hi": 1.01, "thr": 0.01}     # replaced by the literals parsed from `_fd_update_root` (const stage)


# ----------------------------------------------------------------------------- history generation (parent, numpy only)
def unfold(g, axis):
    import numpy as np
    g = np.asarray(g, dtype=np.float64)
    return np.moveaxis(g, axis, 0).reshape(g.shape[axis], -1)


def gen_history(nrng, kind, shape, T, k, f32, lowrank_axis=0):
    """list of T gradient tensors (numpy float64 arrays holding float32-representable values when f32)."""
    import numpy as np
    shape = tuple(shape)
    out = []
    W = None
    zero_steps = set()
    if kind == "zeros":
        zero_steps = {t for t in range(T) if nrng.random() < 0.4}
        if T >= 2:
            zero_steps.add(int(nrng.integers(1, T)))
    for t in range(T):
        if kind == "lowrank":
            d = shape[lowrank_axis]
            rest = [s for i, s in enumerate(shape) if i != lowrank_axis]
            m = int(np.prod(rest)) if rest else 1
            r0 = max(1, min(k, d, m))
            if W is None:
                r0 = int(nrng.integers(1, r0 + 1))
                W = nrng.integers(-3, 4, size=(d, r0)).astype(np.float64)
                if not W.any():
                    W[0, 0] = 1.0
            A = nrng.integers(-4, 5, size=(W.shape[1], m)).astype(np.float64) * 0.25
            G = (W @ A).reshape([d] + rest)
            g = np.moveaxis(G, 0, lowrank_axis)
        elif kind == "ints":
            g = nrng.integers(-4, 5, size=shape).astype(np.float64) * 2.0 ** int(nrng.integers(-2, 3))
        else:
            g = nrng.standard_normal(shape)
            if kind == "scale":
                g = g * 10.0 ** nrng.uniform(-1.5, 1.5)
            if kind == "spiky":
                g = g * np.where(nrng.random(shape) < 0.3, 10.0, 0.1)
        if t in zero_steps:
            g = np.zeros(shape)
        if f32:
            g = g.astype(np.float32).astype(np.float64)
        out.append(np.ascontiguousarray(g))
    return out


def tolist(a):
    import numpy as np
    return np.asarray(a, dtype=np.float64).tolist()


# ----------------------------------------------------------------------------- implementation runners (workers)
def _ds_unpack(ds, packed, k):
    import numpy as np
    V, l, inv, const, tail, hz = ds._fd_low_rank_unpack(packed, k)
    return {"V": tolist(V), "l": tolist(l), "inv": tolist(inv), "const": float(const), "t": float(tail),
            "has_zeros": bool(np.asarray(hz))}


def _run_ds_direct(c):
    import jax
    import jax.numpy as jnp
    import numpy as np
    from precondition import distributed_shampoo as ds
    D, d, k = c["D"], c["d"], c["k"]
    prev = jnp.zeros((D, k + 2), jnp.float64)
    steps = []
    for g in c["grads"]:
        gt = jnp.asarray(np.asarray(g, dtype=np.float64))
        R = ds.frequent_directions_update(None, gt, c["axis"], 0.0, 0.0)
        Rp = ds.pad_square_matrix(R, D)
        val, _ = ds._fd_update_root(Rp, c["p"], rank=k, ridge_epsilon=c["ridge"], error_tolerance=c["tol"],
                                    relative_matrix_epsilon=c["relative"], decay=c["beta"], padding_start=d, prev=prev)
        st = _ds_unpack(ds, val, k)
        st["R"] = tolist(Rp)
        st["dtype"] = str(val.dtype)
        steps.append(st)
        prev = val
    # what the PUBLIC optimizer would keep of this state: p[:dim, :k+2], re-padded with zero rows (K5)
    reload = {}
    for dim in sorted({D, d, max(1, d - 1)}):
        pcm = jnp.pad(prev[:dim, :], ((0, D - dim), (0, 0)))
        reload[str(dim)] = _ds_unpack(ds, pcm, k)
    return {"steps": steps, "reload": reload}


def _param_stats(ds, jax, st):
    return [x for x in jax.tree.leaves(st, is_leaf=lambda x: isinstance(x, ds.ParameterStats))
            if isinstance(x, ds.ParameterStats)]


def _run_ds_public(c):
    import jax
    import jax.numpy as jnp
    import numpy as np
    from precondition import distributed_shampoo as ds
    k = c["k"]
    opt = ds.distributed_shampoo(0.1, block_size=c["block_size"], beta2=c["beta"], matrix_epsilon=c["ridge"],
                                 compression_rank=k, frequent_directions=True, reuse_preconditioner=True,
                                 statistics_compute_steps=1, preconditioning_compute_steps=1, batch_axis_name=None,
                                 best_effort_shape_interpretation=False, relative_matrix_epsilon=c["relative"],
                                 inverse_failure_threshold=1e9, graft_type=ds.GraftingType.SGD)
    names = sorted(c["shapes"])
    params = {n: jnp.ones(tuple(c["shapes"][n]), jnp.float32) for n in names}
    st = opt.init(params)
    upd = jax.jit(opt.update)
    dims = [dd for n in names for dd in c["shapes"][n]]
    max_size = max(dims)
    steps = []
    for gs in c["grads"]:
        g = {n: jnp.asarray(np.asarray(gs[n], dtype=np.float32)) for n in names}
        _, st = upd(g, st, params)
        pss = _param_stats(ds, jax, st)
        stats = []
        # ParameterStats leaves come in the (sorted-key) order of the params dict
        for n, ps in zip(names, pss):
            shape = c["shapes"][n]
            if len(ps.preconditioners) != len(shape):
                stats.append({"param": n, "error": "unexpected number of preconditioners %d for shape %s" % (len(ps.preconditioners), shape)})
                continue
            for ax, pc in enumerate(ps.preconditioners):
                dim = shape[ax]
                if tuple(pc.shape) != (dim, k + 2):
                    stats.append({"param": n, "axis": ax, "dim": dim, "skip": "not packed: shape %s" % (tuple(pc.shape),)})
                    continue
                # what the next update unpacks (pad_and_maybe_zero_preconditioners re-pads with zeros to max_size)
                pcm = jnp.pad(pc, ((0, max_size - dim), (0, 0)))
                u = _ds_unpack(ds, pcm, k)
                u.update({"param": n, "axis": ax, "dim": dim, "dtype": str(pc.dtype)})
                stats.append(u)
        steps.append({"stats": stats})
    return {"steps": steps, "max_size": max_size}


def _sk_state_obs(ax):
    import numpy as np
    o = {"V": tolist(ax.eigvecs), "e": tolist(ax.eigvals), "inv": tolist(ax.inv_eigvals), "t": float(ax.tail),
         "inv_tail": float(ax.inv_tail), "dtype": str(ax.eigvecs.dtype)}
    if hasattr(ax.ema_ggt, "shape"):
        o["ema_ggt"] = tolist(ax.ema_ggt)
    if hasattr(ax.svd_result_s, "shape"):
        o["ekfac_ok"] = bool(np.all(np.isfinite(np.asarray(ax.svd_result_s))) and np.all(np.isfinite(np.asarray(ax.svd_result_u))))
    return o


def _run_sketchy_direct(c):
    import jax.numpy as jnp
    import numpy as np
    from precondition.tearfree import sketchy
    opts = sketchy.Options(epsilon=c["epsilon"], rank=c["rank"], relative_epsilon=c["relative"],
                           second_moment_decay=c["beta"], update_freq=1, add_ggt=bool(c.get("add_ggt", False)),
                           ekfac_svd=bool(c.get("ekfac_svd", False)), linear_approx_tail=bool(c.get("linear_tail", False)))
    shape = tuple(c["shape"])
    state = sketchy._init(opts, {"w": jnp.zeros(shape, jnp.float32)})
    ax_state = state.sketches["w"].axes[c["axis"]]
    steps = []
    for g in c["grads"]:
        gt = jnp.asarray(np.asarray(g, dtype=np.float32))
        ax_state = sketchy._update_axis(opts, c["axis"], (), gt, ax_state)
        steps.append(_sk_state_obs(ax_state))
    return {"steps": steps}


def _run_sketchy_public(c):
    import contextlib
    import io
    import jax
    import jax.numpy as jnp
    import numpy as np
    from precondition.tearfree import sketchy
    opts = sketchy.Options(epsilon=c["epsilon"], rank=c["rank"], relative_epsilon=c["relative"],
                           second_moment_decay=c["beta"], update_freq=c.get("update_freq", 1),
                           add_ggt=bool(c.get("add_ggt", False)), ekfac_svd=bool(c.get("ekfac_svd", False)),
                           linear_approx_tail=bool(c.get("linear_tail", False)), memory_alloc=c.get("alloc"))
    tx = sketchy.apply(opts)
    names = sorted(c["shapes"])
    params = {n: jnp.zeros(tuple(c["shapes"][n]), jnp.float32) for n in names}
    with contextlib.redirect_stdout(io.StringIO()):
        st = tx.init(params)
        upd = jax.jit(tx.update)
        steps = []
        for gs in c["grads"]:
            g = {n: jnp.asarray(np.asarray(gs[n], dtype=np.float32)) for n in names}
            _, st = upd(g, st, params)
            stats = []
            for n in names:
                for ax, a in enumerate(st.sketches[n].axes):
                    o = _sk_state_obs(a)
                    o.update({"param": n, "axis": ax})
                    stats.append(o)
            steps.append({"stats": stats, "count": int(st.count)})
    return {"steps": steps}


def _run_oco(c):
    import jax.numpy as jnp
    import numpy as np
    from precondition.oco import algorithms as alg
    hp = alg.HParams(delta=c["delta"], lr=c["lr"], sketch_size=c["sketch_size"], algorithm=alg.Algorithm[c["algo"]])
    init, update = alg.generate_init_update(tuple(c["shape"]), hp)
    st = init()
    steps = []
    for g in c["grads"]:
        st = update(dict(st), jnp.asarray(0.0), jnp.asarray(np.asarray(g, dtype=np.float64)))
        steps.append({"P": tolist(st["P"]), "e": tolist(st["e"]), "alpha": float(st["alpha"]), "tcount": float(st["t"]),
                      "dtype": str(st["P"].dtype)})
    return {"steps": steps}


RUNNERS = {"ds_direct": _run_ds_direct, "ds_public": _run_ds_public, "sketchy_direct": _run_sketchy_direct,
           "sketchy_public": _run_sketchy_public, "oco": _run_oco}
X64_IMPLS = ("ds_direct", "oco")


def _run_chunk(chunk, x64):
    import warnings
    warnings.filterwarnings("ignore")
    import jax
    if x64:
        jax.config.update("jax_enable_x64", True)
    out = []
    for c in chunk:
        try:
            out.append(RUNNERS[c["impl"]](c))
        except Exception as e:  # noqa: BLE001
            import traceback
            out.append({"exception": f"{type(e).__name__}: {str(e)[:300]}", "trace": traceback.format_exc()[-1500:]})
    try:
        jax.clear_caches()
    except Exception:  # noqa: BLE001
        pass
    return out


def run_chunk_x64(chunk):
    return _run_chunk(chunk, True)


def run_chunk_f32(chunk):
    return _run_chunk(chunk, False)


# ----------------------------------------------------------------------------- traces: one (pre, post, G) per step
def sym_eigmin(M):
    import numpy as np
    M = 0.5 * (M + M.T)
    return float(np.linalg.eigvalsh(M).min())


class Trace:
    """One sketch followed over a history: per step the previous state, the new state and the gradient factor, in
    covariance units, float64. `who` identifies it inside the case."""

    def __init__(self, case, who, d_full, k, beta, f32, p, G_list, pre_post, extra):
        self.case, self.who, self.D, self.k, self.beta, self.f32, self.p = case, who, d_full, k, beta, f32, p
        self.G, self.pp, self.extra = G_list, pre_post, extra


def np_state(V, l, t):
    import numpy as np
    return {"V": np.asarray(V, dtype=np.float64), "l": np.asarray(l, dtype=np.float64), "t": float(t)}


def sketch_of(s):
    return (s["V"] * s["l"]) @ s["V"].T


def build_traces(c, obs):
    """-> list of Trace for a case (several for public runs: one per statistic)."""
    import numpy as np
    impl = c["impl"]
    traces = []
    if impl == "ds_direct":
        D, d, k = c["D"], c["d"], c["k"]
        pre = np_state(np.zeros((D, k)), np.zeros(k), 0.0)
        pp, Gs = [], []
        for g, s in zip(c["grads"], obs["steps"]):
            G = np.zeros((D, unfold(g, c["axis"]).shape[1]))
            G[:d] = unfold(g, c["axis"])
            post = np_state(s["V"], s["l"], s["t"])
            post.update({"inv": np.asarray(s["inv"]), "inv_tail": s["const"], "has_zeros": s["has_zeros"], "R": np.asarray(s["R"])})
            pp.append((pre, post))
            Gs.append(G)
            pre = post
        traces.append(Trace(c, "ds_direct", D, k, c["beta"], False, float(c["p"]), Gs, pp,
                            {"kind": "ds", "ridge": c["ridge"], "relative": c["relative"], "tol": c["tol"], "ps": d, "public": False}))
    elif impl == "ds_public":
        k = c["k"]
        M = obs["max_size"]
        keys = []
        for s in obs["steps"][0]["stats"]:
            if "V" in s:
                keys.append((s["param"], s["axis"], s["dim"]))
        for (n, ax, dim) in keys:
            pre = np_state(np.zeros((M, k)), np.zeros(k), 0.0)
            pp, Gs = [], []
            for gs, step in zip(c["grads"], obs["steps"]):
                s = [x for x in step["stats"] if x.get("param") == n and x.get("axis") == ax and "V" in x][0]
                U = unfold(gs[n], ax)
                G = np.zeros((M, U.shape[1]))
                G[:dim] = U
                post = np_state(s["V"], s["l"], s["t"])
                post.update({"inv": np.asarray(s["inv"]), "inv_tail": s["const"], "has_zeros": s["has_zeros"]})
                pp.append((pre, post))
                Gs.append(G)
                pre = post
            # exponent of the inverse root in the public optimizer: 2 * tensor rank (exponent_multiplier 1)
            traces.append(Trace(c, f"ds_public:{n}:axis{ax}:dim{dim}", M, k, c["beta"], True, 2.0 * len(c["shapes"][n]), Gs, pp,
                                {"kind": "ds", "ridge": c["ridge"], "relative": c["relative"], "tol": 1e-6, "ps": dim, "public": True,
                                 "k5": dim < M}))
    elif impl in ("sketchy_direct", "sketchy_public"):
        def mk(shape, axis, states, grads, who, rank=None):
            d = shape[axis]
            k = min(d, c["rank"] if rank is None else rank)
            pre = np_state(np.zeros((d, k)), np.zeros(k), 0.0)
            pre["e"] = np.zeros(k)
            pp, Gs = [], []
            for g, s in zip(grads, states):
                e = np.asarray(s["e"], dtype=np.float64)
                post = np_state(s["V"], e * e, s["t"])
                post.update({"e": e, "inv": np.asarray(s["inv"]), "inv_tail": s["inv_tail"]})
                pp.append((pre, post))
                Gs.append(unfold(g, axis))
                pre = post
            return Trace(c, who, d, k, c["beta"], True, 2.0 * len(shape), Gs, pp,
                         {"kind": "sketchy", "epsilon": c["epsilon"], "relative": c["relative"],
                          "linear_tail": bool(c.get("linear_tail", False)) and d > k,
                          "ema": [s_.get("ema_ggt") for s_ in states] if c.get("add_ggt") else None,
                          "ekfac_ok": [s_.get("ekfac_ok") for s_ in states] if c.get("ekfac_svd") else None})
        if impl == "sketchy_direct":
            traces.append(mk(c["shape"], c["axis"], obs["steps"], c["grads"], "sketchy_direct"))
        else:
            for n in sorted(c["shapes"]):
                for ax in range(len(c["shapes"][n])):
                    sts = [[x for x in step["stats"] if x["param"] == n and x["axis"] == ax][0] for step in obs["steps"]]
                    uf = c.get("update_freq", 1)
                    # with update_freq > 1 only every uf-th gradient enters the sketch (count % uf == 0)
                    sel = [i for i in range(len(sts)) if i % uf == 0]
                    traces.append(mk(c["shapes"][n], ax, [sts[i] for i in sel], [c["grads"][i][n] for i in sel],
                                     f"sketchy_public:{n}:axis{ax}", rank=(c["alloc"][n][ax] if c.get("alloc") else None)))
                    if uf > 1:
                        traces[-1].extra["frozen"] = [(sts[i - 1], sts[i]) for i in range(1, len(sts)) if i % uf != 0]
    elif impl == "oco":
        ell = c["sketch_size"]
        k = ell - 1
        n = int(np.prod(c["shape"]))
        pre = np_state(np.zeros((n, ell)), np.zeros(ell), 0.0)
        pre.update({"P": np.zeros((ell, n)), "e": np.zeros(ell)})
        pp, Gs = [], []
        tt = 0.0
        for g, s in zip(c["grads"], obs["steps"]):
            tt += 1.0
            if c["algo"] == "RFD_SON":
                f = 1.0 / np.sqrt(tt * c["lr"])
            elif c["algo"] == "FD_SON":
                f = 1.0 / np.sqrt(np.sqrt(tt) * c["lr"])
            else:
                f = 1.0
            P = np.asarray(s["P"], dtype=np.float64)
            e = np.asarray(s["e"], dtype=np.float64)
            # escaped mass recorded by the state: alpha - delta (S_ADA), 2 (alpha - delta) (RFD_SON); not stored otherwise
            if c["algo"] == "S_ADA":
                t_state = s["alpha"] - c["delta"]
            elif c["algo"] == "RFD_SON":
                t_state = 2.0 * (s["alpha"] - c["delta"])
            else:
                t_state = None
            post = {"V": P.T.copy(), "l": e * e, "t": t_state, "P": P, "e": e, "alpha": s["alpha"], "tcount": s["tcount"]}
            pp.append((pre, post))
            Gs.append((np.asarray(g, dtype=np.float64).reshape(-1) * f).reshape(n, 1))
            pre = post
        traces.append(Trace(c, "oco:" + c["algo"], n, k, 1.0, False, None, Gs, pp, {"kind": "oco", "algo": c["algo"], "delta": c["delta"]}))
    return traces


# ----------------------------------------------------------------------------- direct oracle
def oracle_trace(tr, hist_kind):
    """-> (fails, info). fails: list of (tag, message, step). tag 'upper' marks a failure of sketch + t I >= C
    (and quantities that depend on the stored eigenvalues), used for the K5 classification."""
    import numpy as np
    fails = []
    D, k, beta = tr.D, tr.k, tr.beta
    tol = TOL32 if tr.f32 else TOL64
    C = np.zeros((D, D))
    kind = tr.extra["kind"]
    lin_tail = bool(tr.extra.get("linear_tail"))     # Sketchy linear_approx_tail: `tail` is a fitted estimate, not the escaped mass
    t_track = 0.0
    info = {"max_lo": 0.0, "max_hi": 0.0, "max_rec": 0.0, "max_orth": 0.0, "max_inv": 0.0, "deflations": 0, "zero_steps": 0,
            "lowrank_exact": 0, "max_lowrank": 0.0}
    for step, ((pre, post), G) in enumerate(zip(tr.pp, tr.G)):
        V, l = post["V"], post["l"]
        if kind == "oco" and post["t"] is None:
            t = None
        else:
            t = post["t"]
        vals = [V, l] + ([np.array([t])] if (t is not None and not lin_tail) else [])
        if lin_tail and np.isnan(t):
            fails.append(("finite", "linear_approx_tail: tail is NaN", step))
            break
        if tr.extra.get("ekfac_ok") and tr.extra["ekfac_ok"][step] is False:
            fails.append(("finite", "ekfac_svd: non-finite svd_result_u / svd_result_s", step))
        if not all(np.all(np.isfinite(x)) for x in vals):
            fails.append(("finite", "non-finite sketch state", step))
            break
        # what the sketch was asked to absorb
        Vpre, lpre = pre["V"], pre["l"]
        if kind == "ds":
            ps = tr.extra["ps"]
            act_d = (np.arange(D) < ps).astype(np.float64)[:, None]
            act_r = (np.arange(k) < ps).astype(np.float64)
            mx = lpre[0] if tr.extra["relative"] else 1.0
            ridge = tr.extra["ridge"] * max(mx, tr.extra["tol"])
            Va = Vpre * act_d * act_r
            la = (lpre + ridge) * act_r
            S_in = (Va * la) @ Va.T
            C = beta * (C + ridge * (Va * (np.linalg.norm(Va, axis=0) > 0)) @ Va.T) + G @ G.T
        else:
            S_in = (Vpre * lpre) @ Vpre.T
            C = beta * C + G @ G.T
        M = beta * S_in + G @ G.T
        ev = np.sort(np.linalg.eigvalsh(0.5 * (M + M.T)))[::-1]
        rho = max(float(ev[k]), 0.0) if k < D else 0.0
        sc = max(float(np.trace(C)), float(np.trace(M)), 1e-300)
        t_pre = pre["t"] if pre["t"] is not None else t_track
        t_expect = beta * t_pre + rho
        t_track = beta * t_track + rho if kind != "oco" else t_track + rho
        if rho > 1e-6 * sc:
            info["deflations"] += 1
        S = sketch_of(post)
        # signs
        if l.min() < 0:
            fails.append(("sign", f"negative sketch eigenvalue {l.min():.3e}", step))
        if t is not None and t < 0:
            fails.append(("sign", f"negative escaped mass {t:.3e}", step))
        # columns orthonormal or zero
        Gm = V.T @ V
        nz = np.sqrt(np.clip(np.diag(Gm), 0, None)) > 1e-3
        target = np.diag(nz.astype(np.float64))
        orth = float(np.abs(Gm - target).max()) if k > 0 else 0.0
        info["max_orth"] = max(info["max_orth"], orth)
        otol = 5e-4 if tr.f32 else 1e-9
        if orth > otol:
            fails.append(("orth", f"columns of V not orthonormal-or-zero: max|V'V - diag(0/1)| = {orth:.3e}", step))
        # bracket
        t_use = t if t is not None else t_track
        lo = sym_eigmin(C - S) / sc
        hi = sym_eigmin(S + t_use * np.eye(D) - C) / sc if np.isfinite(t_use) else 0.0
        info["max_lo"] = max(info["max_lo"], -lo)
        info["max_hi"] = max(info["max_hi"], -hi)
        if lo < -tol:
            fails.append(("lower", f"sketch <= C fails: min eig(C - sketch)/tr(C) = {lo:.3e}", step))
        if hi < -tol and not lin_tail:
            fails.append(("upper", f"C <= sketch + t I fails: min eig(sketch + t I - C)/tr(C) = {hi:.3e}", step))
        # tail recurrence
        if t is not None and not lin_tail:
            rec = abs(t - t_expect) / sc
            info["max_rec"] = max(info["max_rec"], rec)
            if rec > tol:
                fails.append(("recurrence", f"t_new = {t:.9g} but b*t_old + rho = {t_expect:.9g} (rho={rho:.6g}, rel. diff {rec:.3e})", step))
        # zero-gradient step
        if not G.any():
            info["zero_steps"] += 1
            dz = float(np.abs(S - beta * S_in).max()) / sc
            ls = np.sort(l)[::-1]
            lin = np.sort((la if kind == "ds" else lpre) * (np.linalg.norm(Va if kind == "ds" else Vpre, axis=0) > 0))[::-1]
            dl = float(np.abs(ls - beta * lin).max()) / sc if k > 0 else 0.0
            if dz > tol or dl > tol:
                fails.append(("zero_step", f"zero-gradient step: |sketch' - b sketch|/tr = {dz:.3e}, |l' - b l|/tr = {dl:.3e}", step))
            if t is not None and not lin_tail and abs(t - beta * t_pre) / sc > tol:
                fails.append(("zero_step", f"zero-gradient step: t' = {t:.9g} != b t = {beta * t_pre:.9g}", step))
        # rank <= k history is tracked exactly
        if hist_kind == "lowrank":
            ex = float(np.abs(S - C).max()) / sc
            info["lowrank_exact"] += 1
            info["max_lowrank"] = max(info["max_lowrank"], ex, (t_use / sc))
            if ex > tol:
                fails.append(("upper", f"rank<=k history not tracked exactly: |sketch - C|/tr = {ex:.3e}", step))
            if t_use / sc > tol and not lin_tail:
                fails.append(("recurrence", f"rank<=k history: escaped mass t/tr = {t_use / sc:.3e} should be 0", step))
        # stored inverse roots
        if kind in ("ds", "sketchy") and not lin_tail:
            p = tr.p
            itol = 2e-4 if tr.f32 else 1e-9
            if kind == "sketchy":
                und_max = float((l + t).max()) if k > 0 else t
                eps = tr.extra["epsilon"] * und_max if (tr.extra["relative"] and tr.extra["epsilon"] > 0) else tr.extra["epsilon"]
                keptmask = post["e"] > 0
            else:
                eps = 0.0
                keptmask = l > 0
            inv = post["inv"]
            for a in range(k):
                if keptmask[a] and l[a] > 1e-4 * sc * (1.0 if tr.f32 else 1e-4):
                    want = (l[a] + t + eps) ** (-1.0 / p)
                    r = abs(inv[a] - want) / want
                    info["max_inv"] = max(info["max_inv"], r)
                    if r > itol:
                        fails.append(("inv", f"inverse root {a}: stored {inv[a]:.9g}, (l+t+eps)^(-1/p) = {want:.9g}", step))
                elif not keptmask[a] and kind == "sketchy" and inv[a] != 0.0:
                    fails.append(("inv", f"inverse root {a} of a zeroed direction is {inv[a]:.6g}, not 0", step))
            it = post["inv_tail"]
            if t > 1e-6 * sc:
                want = (t + eps) ** (-1.0 / p)
                r = abs(it - want) / want
                info["max_inv"] = max(info["max_inv"], r)
                if r > itol:
                    fails.append(("inv", f"inverse root of the escaped mass: stored {it:.9g}, (t+eps)^(-1/p) = {want:.9g}", step))
            elif t == 0.0 and it != 0.0:
                fails.append(("inv", f"escaped mass is 0 but its stored inverse root is {it:.6g}", step))
        if kind == "oco":
            # the state's own record of the escaped mass, where the algorithm keeps one
            if post["t"] is not None and abs(post["t"] - t_track) / sc > tol:
                fails.append(("recurrence", f"alpha records escaped mass {post['t']:.9g}, sum of rho = {t_track:.9g}", step))
            if tr.extra["algo"] in ("FD_SON", "ADA_FD") and post["alpha"] != tr.extra["delta"]:
                fails.append(("recurrence", f"alpha changed to {post['alpha']!r} for {tr.extra['algo']}", step))
            if abs(post["e"][-1]) > 1e-7 * max(np.sqrt(sc), 1e-300):
                fails.append(("sign", f"last root eigenvalue {post['e'][-1]:.3e} should be 0", step))
    if tr.extra.get("ema") and all(e is not None for e in tr.extra["ema"]):
        # add_ggt: informational only (the property does not speak about ema_ggt): which discount does the EMA use?
        E = np.zeros((D, D))
        m_sqrt = m_beta = 0
        for G, e in zip(tr.G, tr.extra["ema"]):
            e = np.asarray(e, dtype=np.float64)
            sb = np.sqrt(beta)
            a1 = E * sb + G @ G.T * (1 - sb)
            a2 = E * beta + G @ G.T * (1 - beta)
            scale = max(np.abs(e).max(), 1e-30)
            m_sqrt += int(np.abs(e - a1).max() <= 1e-4 * scale)
            m_beta += int(np.abs(e - a2).max() <= 1e-4 * scale)
            E = e
        info["ema_matches_sqrt_decay"] = m_sqrt
        info["ema_matches_decay"] = m_beta
    for (a, b) in tr.extra.get("frozen", []):
        if any(a[key] != b[key] for key in ("V", "e", "t", "inv", "inv_tail")):
            fails.append(("frozen", "sketch changed on a step that is not an update step (update_freq)", -1))
    return fails, info


# ----------------------------------------------------------------------------- correspondence with the Lean model
def hx(a):
    import numpy as np
    a = np.asarray(a, dtype=np.float64)
    if a.ndim == 0:
        return kit.f64_hex(float(a))
    if a.ndim == 1:
        return [kit.f64_hex(float(x)) for x in a]
    return [[kit.f64_hex(float(x)) for x in row] for row in a]


def unhx(j):
    import numpy as np
    if isinstance(j, str):
        return kit.hex_f64(j)
    return np.array([unhx(x) for x in j], dtype=np.float64)


def step_request(tr, i, op):
    """request for the model's B ('b') or step ('step') of step i of a trace (from the implementation's previous state)."""
    pre, post = tr.pp[i]
    kind = tr.extra["kind"]
    G = tr.G[i]
    if kind == "ds":
        # the model takes the gradient factor the implementation was given (R padded to max_size) when it is known
        Gm = post.get("R")
        if Gm is None:
            import numpy as np
            Gm = np.zeros((tr.D, tr.D))
            # any factor with the same G G' serves: B B' is what the specification constrains
            w, Q = np.linalg.eigh(G @ G.T)
            Gm = Q * np.sqrt(np.clip(w, 0, None))
        return {"op": "ds_" + op, "d": tr.D, "k": tr.k, "ridge_epsilon": hx(tr.extra["ridge"]),
                "error_tolerance": hx(tr.extra["tol"]), "relative": bool(tr.extra["relative"]), "beta": hx(tr.beta),
                "padding_start": int(tr.extra["ps"]), "V": hx(pre["V"]), "l": hx(pre["l"]), "t": hx(pre["t"]), "G": hx(Gm),
                "p": hx(tr.p), "g_lo": hx(GUARDS["lo"]), "g_hi": hx(GUARDS["hi"]), "g_thr": hx(GUARDS["thr"])}
    if kind == "sketchy":
        return {"op": "sketchy_" + op, "d": tr.D, "k": tr.k, "m": G.shape[1], "beta": hx(tr.beta), "V": hx(pre["V"]),
                "e": hx(pre["e"]), "t": hx(pre["t"]), "G": hx(G), "p": hx(tr.p), "epsilon": hx(tr.extra["epsilon"]),
                "relative": bool(tr.extra["relative"])}
    if kind == "oco":
        return {"op": "oco_" + op, "sketch_size": tr.k + 1, "n": tr.D, "P": hx(pre["P"]), "e": hx(pre["e"]), "t": hx(0.0),
                "g": hx(G[:, 0])}
    raise ValueError(kind)


def lapack_svd(B, d):
    """U (d x d), s (d) with U diag(s^2) U' = B B' (numpy / LAPACK, float64); missing singular values are 0."""
    import numpy as np
    U, s, _ = np.linalg.svd(B, full_matrices=True)
    ss = np.zeros(d)
    ss[: len(s)] = s
    return U, ss


def check_svd(ctx, rep, what):
    sv = rep["svd"]
    scale = max(kit.hex_f64(sv["scale"]), 1e-300)
    bad = (not sv["ordered"]) or kit.hex_f64(sv["recon"]) > 1e-10 * scale or kit.hex_f64(sv["u_rows"]) > 1e-10 \
        or kit.hex_f64(sv["u_cols"]) > 1e-10
    if bad:
        raise kit.InfraError(f"LAPACK SVD does not meet SvdSpec on the model's B ({what}): {sv}")
    return scale


def compare_step(ctx, tr, i, rep, scale):
    """implementation step vs model step (both from the implementation's previous state)."""
    import numpy as np
    pre, post = tr.pp[i]
    kind = tr.extra["kind"]
    ktol = KTOL32 if tr.f32 else KTOL64
    sc = max(scale, 1e-300)
    S_m = unhx(rep["sketch"])
    l_m = unhx(rep["l"])
    t_m = unhx(rep["t"])
    case = {"who": tr.who, "step": i, "case": slim(tr.case)}
    S_i = sketch_of(post)
    ok = True
    dS = float(np.abs(S_m - S_i).max()) / sc
    if not dS <= ktol:
        ctx.disagree(kind + "_step.sketch", case, S_i.tolist(), S_m.tolist(), f"max diff / scale = {dS:.3e}")
        ok = False
    l_i = post["l"]
    if kind == "oco":
        l_m = np.concatenate([l_m, np.zeros(len(l_i) - len(l_m))])   # the model's denoted state drops the last (zero) row
    dl = float(np.abs(np.sort(l_m) - np.sort(l_i)).max()) / sc if tr.k else 0.0
    if not dl <= ktol:
        ctx.disagree(kind + "_step.l", case, post["l"].tolist(), l_m.tolist(), f"sorted eigenvalues differ by {dl:.3e} of scale")
        ok = False
    if kind == "oco":
        # the model accumulates from t = 0: its t is rho of this step
        t_i = None
    else:
        t_i = post["t"]
    if t_i is not None:
        dt = abs(t_m - t_i) / sc
        if not dt <= ktol:
            ctx.disagree(kind + "_step.t", case, t_i, float(t_m), f"escaped mass differs by {dt:.3e} of scale")
            ok = False
    if kind == "oco":
        rho_m = unhx(rep["rho"])
        if tr.extra["algo"] in ("S_ADA", "RFD_SON"):
            fac = 1.0 if tr.extra["algo"] == "S_ADA" else 0.5
            a_pre = pre.get("alpha", tr.extra["delta"])
            d_alpha = post["alpha"] - a_pre
            if not abs(d_alpha - fac * rho_m) / sc <= ktol:
                ctx.disagree("oco_step.alpha", case, d_alpha, fac * float(rho_m), "alpha increment vs alpha_update_factor * rho^2")
                ok = False
        e_m = unhx(rep["e"])
        de = float(np.abs(np.sort(e_m * e_m) - np.sort(post["e"] ** 2)).max()) / sc
        if not de <= ktol:
            ctx.disagree("oco_step.e", case, post["e"].tolist(), e_m.tolist(), f"root eigenvalues^2 differ by {de:.3e} of scale")
            ok = False
    if kind in ("ds", "sketchy"):
        inv_m = unhx(rep["inv"])
        itol = 5e-4 if tr.f32 else 1e-8
        # only directions clearly kept by both (the mask `deflated > 0` is a discontinuity at 0)
        lm_sorted = l_m
        for a in range(tr.k):
            if post["l"][a] > 1e-3 * sc and lm_sorted[a] > 1e-3 * sc and abs(post["l"][a] - lm_sorted[a]) <= 10 * ktol * sc:
                if not abs(inv_m[a] - post["inv"][a]) <= itol * abs(inv_m[a]):
                    ctx.disagree(kind + "_step.inv", case, post["inv"].tolist(), inv_m.tolist(), f"inverse root {a}")
                    ok = False
        it_m = unhx(rep["const"] if kind == "ds" else rep["inv_tail"])
        if t_m > 1e-6 * sc and post["t"] > 1e-6 * sc:
            if not abs(it_m - post["inv_tail"]) <= itol * abs(it_m):
                ctx.disagree(kind + "_step.inv_tail", case, post["inv_tail"], float(it_m), "inverse root of the escaped mass")
                ok = False
    if kind == "ds" and not tr.extra["public"]:
        # has_zeros flag (exact) when neither an eigenvalue nor the escaped mass is near the thresholds `<= 0`
        clear = lambda ls, tt: all(abs(x) > 1e-6 * sc for x in ls) and tt > 1e-6 * sc
        if clear(l_m, t_m) and clear(post["l"], post["t"]):
            if bool(rep["has_zeros"]) != bool(post["has_zeros"]):
                ctx.disagree("ds_step.has_zeros", case, post["has_zeros"], rep["has_zeros"], "has_zeros flag")
                ok = False
    if kind == "ds":
        gd = kit.hex_f64(rep["guard_diff"])
        gok = gd <= 1e-12 * max(1.0, sc) and bool(rep["guard_flags_equal"])
        ctx.corr("ds_guards_identity", gok)
        if not gok:
            ctx.disagree("ds_guards_identity", case, None, None, f"guarded and unguarded model steps differ by {gd:.3e} on a LAPACK SVD "
                         "(ds_guards_are_identities says they coincide under SvdSpec)")
    ctx.corr(kind + "_step", ok)
    return ok


def drv(ctx, reqs, chunk=300):
    """driver calls in bounded batches (requests carry whole matrices as hex strings)."""
    out = []
    for i in range(0, len(reqs), chunk):
        out.extend(ctx.driver(reqs[i:i + chunk]))
    return out


def slim(c):
    """case without bulky gradient data for messages (the full case goes into violations)."""
    return {k: v for k, v in c.items() if k != "grads"}


def correspondence(ctx, traces, skip):
    import numpy as np
    items = [(tr, i) for tr in traces if id(tr) not in skip for i in range(len(tr.pp))
             if all(np.all(np.isfinite(x)) for x in (tr.pp[i][0]["V"], tr.pp[i][0]["l"], tr.pp[i][1]["V"], tr.pp[i][1]["l"]))]
    if not items:
        return
    reps = drv(ctx, [step_request(tr, i, "b") for tr, i in items])
    reqs = []
    for (tr, i), rb in zip(items, reps):
        if "error" in rb:
            raise kit.InfraError(f"driver error on {tr.who}: {rb['error']}")
        B = unhx(rb["B"])
        U, s = lapack_svd(B, tr.D)
        r = step_request(tr, i, "step")
        r["U"], r["s"] = hx(U), hx(s)
        reqs.append(r)
    reps = drv(ctx, reqs)
    for (tr, i), rep in zip(items, reps):
        if "error" in rep:
            raise kit.InfraError(f"driver error on {tr.who}: {rep['error']}")
        scale = check_svd(ctx, rep, tr.who)
        compare_step(ctx, tr, i, rep, scale)


def reload_correspondence(ctx, pairs):
    """`publicReload` (pack, cut p[:dim], re-pad, unpack) vs the real pack/unpack on the final state of ds_direct cases.
    EXACT (values only move between slots)."""
    import numpy as np
    reqs, meta = [], []
    for c, o in pairs:
        if "reload" not in o or not o.get("steps"):
            continue
        last = o["steps"][-1]
        if not np.all(np.isfinite(np.asarray(last["V"]))):
            continue
        for dim_s, r in sorted(o["reload"].items()):
            reqs.append({"op": "ds_reload", "d": c["D"], "k": c["k"], "dim": int(dim_s), "V": hx(last["V"]), "l": hx(last["l"]),
                         "t": hx(last["t"]), "inv": hx(last["inv"]), "const": hx(last["const"]),
                         "flag": hx(1.0 if last["has_zeros"] else 0.0)})
            meta.append((c, int(dim_s), r, last))
    if not reqs:
        return
    for (c, dim, r, last), rep in zip(meta, drv(ctx, reqs)):
        if "error" in rep:
            raise kit.InfraError(f"driver error (ds_reload): {rep['error']}")
        same = (np.array_equal(unhx(rep["V"]), np.asarray(r["V"])) and np.array_equal(unhx(rep["l"]), np.asarray(r["l"]))
                and unhx(rep["t"]) == r["t"])
        ctx.corr("ds_reload", same)
        ctx.dist("ds_reload:" + ("dim==max_size" if dim == c["D"] else "dim<max_size"))
        if not same:
            ctx.disagree("ds_reload", {"case": slim(c), "dim": dim}, {"l": r["l"], "t": r["t"]},
                         {"l": unhx(rep["l"]).tolist(), "t": float(unhx(rep["t"]))}, "state read after the public cut")
        if dim == c["D"]:
            # ds_public_cut_harmless_when_dim_eq_max_size, on the real pack/unpack
            keep = (np.array_equal(np.asarray(r["V"]), np.asarray(last["V"])) and np.array_equal(np.asarray(r["l"]), np.asarray(last["l"]))
                    and r["t"] == last["t"])
            ctx.corr("ds_reload_identity_at_max_size", keep)
            if not keep:
                ctx.disagree("ds_reload_identity_at_max_size", {"case": slim(c)}, r["l"], last["l"], "cut at dim == max_size changed the state")
        elif c["k"] + 2 < dim:
            lost = [a for a in range(c["k"]) if c["D"] - c["k"] + a >= dim]
            if lost and any(last["l"][a] != 0.0 for a in lost) and all(r["l"][a] == 0.0 for a in lost):
                ctx.dist("ds_reload_lost_eigenvalue_slots", len(lost))


def model_chain(ctx, traces):
    """`fdRunO`: the generic model chained from the zero state over the whole history (its own states), compared with the
    implementation's final sketch; then `fd_run` on the list of SVD outputs must reproduce the chain bit for bit."""
    import numpy as np
    todo = [tr for tr in traces if (tr.extra["kind"] != "ds" or (tr.extra["ridge"] == 0.0 and not tr.extra.get("k5")))]
    if not todo:
        return
    states = {id(tr): {"V": np.zeros((tr.D, tr.k)), "l": np.zeros(tr.k), "t": 0.0} for tr in todo}
    svds = {id(tr): [] for tr in todo}
    scales = {id(tr): 0.0 for tr in todo}
    T = max(len(tr.pp) for tr in todo)

    def req(tr, i, op):
        s = states[id(tr)]
        return {"op": "fd_" + op, "d": tr.D, "k": tr.k, "m": tr.G[i].shape[1], "beta": hx(tr.beta), "V": hx(s["V"]), "l": hx(s["l"]),
                "t": hx(s["t"]), "G": hx(tr.G[i]), "p": hx(tr.p or 2.0), "eps": hx(0.0)}
    for i in range(T):
        act = [tr for tr in todo if i < len(tr.pp)]
        rb = drv(ctx, [req(tr, i, "b") for tr in act])
        reqs = []
        for tr, b in zip(act, rb):
            if "error" in b:
                raise kit.InfraError(f"driver error (fd_b) on {tr.who}: {b['error']}")
            U, s = lapack_svd(unhx(b["B"]), tr.D)
            r = req(tr, i, "step")
            r["U"], r["s"] = hx(U), hx(s)
            svds[id(tr)].append({"U": r["U"], "s": r["s"]})
            reqs.append(r)
        rs = drv(ctx, reqs)
        for tr, rep in zip(act, rs):
            if "error" in rep:
                raise kit.InfraError(f"driver error (fd_step) on {tr.who}: {rep['error']}")
            scales[id(tr)] = max(scales[id(tr)], check_svd(ctx, rep, tr.who + " (chain)"))
            states[id(tr)] = {"V": unhx(rep["V"]), "l": unhx(rep["l"]), "t": unhx(rep["t"]), "sketch": unhx(rep["sketch"]),
                              "hexes": (rep["V"], rep["l"], rep["t"])}
    runs = drv(ctx, [{"op": "fd_run", "d": tr.D, "k": tr.k, "beta": hx(tr.beta), "V": hx(np.zeros((tr.D, tr.k))),
                        "l": hx(np.zeros(tr.k)), "t": hx(0.0), "svds": svds[id(tr)]} for tr in todo])
    for tr, rep in zip(todo, runs):
        st = states[id(tr)]
        case = {"who": tr.who, "case": slim(tr.case)}
        same = (rep.get("V"), rep.get("l"), rep.get("t")) == st["hexes"]
        ctx.corr("fd_run_equals_chained_fd_step", same)
        if not same:
            ctx.disagree("fd_run_equals_chained_fd_step", case, None, None, "fdRunO differs from the chained fdStep results")
        post = tr.pp[-1][1]
        if not all(np.all(np.isfinite(x)) for x in (post["V"], post["l"])):
            continue
        sc = max(scales[id(tr)], 1e-300)
        ktol = (KTOL32 if tr.f32 else 1e-8) * len(tr.pp)
        dS = float(np.abs(st["sketch"] - sketch_of(post)).max()) / sc
        ok = dS <= ktol
        if post["t"] is not None:
            ok = ok and abs(st["t"] - post["t"]) / sc <= ktol
        ctx.corr("history_chain", ok)
        if not ok:
            ctx.disagree("history_chain", case, {"t": post["t"], "sketch": sketch_of(post).tolist()},
                         {"t": float(st["t"]), "sketch": st["sketch"].tolist()},
                         f"model chained from the zero state vs implementation after {len(tr.pp)} steps: sketch diff {dS:.3e} of scale")


# ----------------------------------------------------------------------------- case generation
HIST_KINDS = ["full", "lowrank", "zeros", "scale", "ints", "spiky"]


def pick_kind(rng, i):
    return HIST_KINDS[i % len(HIST_KINDS)] if i < 2 * len(HIST_KINDS) else rng.choice(HIST_KINDS)


def gen_cases(tier, seed):
    import numpy as np
    rng = random.Random(seed * 7919 + 13)
    nrng = np.random.default_rng(seed * 104729 + 7)
    thorough = tier == "thorough"
    cases = []
    n_dsd, n_dsp, n_skd, n_skp, n_oco = (70, 14, 70, 12, 48) if not thorough else (420, 60, 420, 50, 280)
    Tmax = 6 if not thorough else 10
    # --- DS direct
    for i in range(n_dsd):
        kind = pick_kind(rng, i)
        D = rng.choice([4, 5, 6, 7, 8, 10, 12])
        k = rng.randint(1, D - 3)
        d = D if rng.random() < 0.5 else rng.randint(max(1, min(k, D - 1)), D)
        if i % 9 == 8:
            d = rng.randint(1, D)          # also statistics smaller than the rank
        ndim = rng.choice([1, 2, 2, 3])
        axis = rng.randrange(ndim)
        shape = [rng.choice([1, 2, 3, 4]) for _ in range(ndim)]
        shape[axis] = d
        beta = rng.choice([1.0, 0.5, 0.75, 0.9, 0.99, 0.3, round(rng.uniform(0.05, 1.0), 3)])
        ridge = rng.choice([0.0, 0.0, 0.0, 1e-6, 1e-3, 0.05])
        T = rng.randint(1, Tmax)
        grads = gen_history(nrng, kind, shape, T, k, False, lowrank_axis=axis)
        cases.append({"impl": "ds_direct", "hist": kind, "D": D, "d": d, "k": k, "axis": axis, "shape": shape, "beta": beta,
                      "ridge": ridge, "relative": rng.random() < 0.6, "tol": 1e-6, "p": rng.choice([2, 4, 6, 8]),
                      "grads": [g.tolist() for g in grads]})
    # --- DS public
    trees = [{"w": [7, 6]}, {"w": [8, 8]}, {"w": [6, 9]}, {"a": [7], "b": [7, 7]}, {"w": [5, 4, 6]}, {"a": [8, 5], "b": [6]},
             {"w": [9]}, {"w": [6, 6, 6]}, {"a": [10, 7], "b": [7, 10]}]
    for i in range(n_dsp):
        kind = ["full", "lowrank", "zeros", "scale", "full", "ints"][i % 6]
        shapes = trees[i % len(trees)] if i < len(trees) else rng.choice(trees)
        mind = min(dd for s in shapes.values() for dd in s)
        k = rng.randint(1, mind - 3)
        if kind == "lowrank" and any(len(s) > 2 for s in shapes.values()):
            kind = "full"
        beta = rng.choice([1.0, 0.5, 0.9, 0.75, 0.99])
        T = rng.randint(2, Tmax)
        per = {n: gen_history(nrng, kind, s, T, k, True, lowrank_axis=0) for n, s in shapes.items()}
        grads = [{n: per[n][t].tolist() for n in shapes} for t in range(T)]
        cases.append({"impl": "ds_public", "hist": kind, "shapes": shapes, "k": k, "beta": beta, "block_size": 16,
                      "ridge": rng.choice([0.0, 0.0, 1e-6]), "relative": True, "grads": grads})
    # --- Sketchy direct
    for i in range(n_skd):
        kind = pick_kind(rng, i)
        ndim = rng.choice([1, 2, 2, 3])
        shape = [rng.choice([2, 3, 4, 5, 6, 8, 10]) for _ in range(ndim)]
        if ndim == 3:
            shape = [min(s, 5) for s in shape]
        axis = rng.randrange(ndim)
        d = shape[axis]
        rank = rng.choice([1, 2, 3, 4, d, d + 2]) if i % 5 else rng.randint(1, max(1, d - 1))
        beta = rng.choice([1.0, 0.25, 0.5, 0.75, 0.9, 0.999, round(rng.uniform(0.05, 1.0), 3)])
        T = rng.randint(1, Tmax)
        grads = gen_history(nrng, kind, shape, T, min(rank, d), True, lowrank_axis=axis)
        cases.append({"impl": "sketchy_direct", "hist": kind, "shape": shape, "axis": axis, "rank": rank, "beta": beta,
                      "epsilon": rng.choice([1e-7, 0.0, 1e-3, 1e-2]), "relative": rng.random() < 0.6,
                      "ekfac_svd": i % 7 == 3, "add_ggt": i % 7 == 5, "linear_tail": i % 8 == 6,
                      "grads": [g.tolist() for g in grads]})
    # --- Sketchy public
    sk_trees = [{"w": [6, 5]}, {"a": [8], "b": [4, 7]}, {"w": [3, 4, 5]}, {"w": [10, 3]}, {"a": [5, 5], "b": [2, 9]}]
    for i in range(n_skp):
        kind = ["full", "zeros", "scale", "lowrank", "ints", "spiky"][i % 6]
        shapes = sk_trees[i % len(sk_trees)]
        if kind == "lowrank" and any(len(s) > 2 for s in shapes.values()):
            kind = "full"
        rank = rng.choice([1, 2, 3, 4])
        T = rng.randint(2, Tmax)
        per = {n: gen_history(nrng, kind, s, T, rank, True, lowrank_axis=0) for n, s in shapes.items()}
        grads = [{n: per[n][t].tolist() for n in shapes} for t in range(T)]
        cases.append({"impl": "sketchy_public", "hist": kind, "shapes": shapes, "rank": rank,
                      "beta": rng.choice([1.0, 0.25, 0.5, 0.9, 0.999]), "epsilon": rng.choice([1e-7, 1e-3]),
                      "relative": rng.random() < 0.7, "update_freq": 1 if i % 4 else 2,
                      "ekfac_svd": i % 5 == 1, "add_ggt": i % 5 == 2, "linear_tail": i % 6 == 5,
                      "alloc": ({n: [rng.randint(1, 4) for _ in sh] for n, sh in shapes.items()} if i % 3 == 2 else None),
                      "grads": grads})
    # --- OCO
    for i in range(n_oco):
        kind = pick_kind(rng, i)
        algo = ALGOS[i % 4]
        shape = rng.choice([[4], [6], [9], [12], [2, 3], [3, 4], [2, 2, 2]])
        n = int(np.prod(shape))
        ell = rng.randint(2, min(n, 6))
        T = rng.randint(1, Tmax + 2)
        flat = gen_history(nrng, kind, [n, 1], T, ell - 1, False, lowrank_axis=0)
        grads = [g.reshape(shape).tolist() for g in flat]
        cases.append({"impl": "oco", "hist": kind, "algo": algo, "shape": shape, "sketch_size": ell,
                      "delta": rng.choice([0.0, 0.1, 1.0]), "lr": rng.choice([0.1, 0.5, 1.0]), "grads": grads})
    return cases


def load_corpus():
    out = []
    for p in sorted(glob.glob(os.path.join(kit.ROOT, "corpus", "C09", "*.json"))):
        data = json.load(open(p))
        for c in (data if isinstance(data, list) else data.get("cases", [])):
            c = dict(c)
            c["corpus"] = os.path.basename(p)
            out.append(c)
    return out


# ----------------------------------------------------------------------------- execution
def lowrank_holds(c, tr):
    """is the history of THIS trace of rank <= k (the exactness clause applies)?"""
    import numpy as np
    if c["hist"] != "lowrank":
        return False
    if not tr.G:
        return False
    allG = np.concatenate(tr.G, axis=1)
    return int(np.linalg.matrix_rank(allG, tol=1e-9 * max(np.abs(allG).max(), 1e-300))) <= tr.k


def execute(ctx, cases):
    import numpy as np
    x64 = [c for c in cases if c["impl"] in X64_IMPLS]
    f32 = [c for c in cases if c["impl"] not in X64_IMPLS]

    def runmap(fn, lst):
        if not lst:
            return []
        lst_sorted = sorted(range(len(lst)), key=lambda i: (lst[i]["impl"], json.dumps(slim(lst[i]), sort_keys=True, default=str)))
        chunks = kit.chunked([lst[i] for i in lst_sorted], max(1, len(lst) // 28 + 1))
        res = [r for ch in kit.parallel_map(fn, chunks, nproc=14) for r in ch]
        out = [None] * len(lst)
        for pos, i in enumerate(lst_sorted):
            out[i] = res[pos]
        return out
    obs = dict(zip([id(c) for c in x64], runmap(run_chunk_x64, x64)))
    obs.update(zip([id(c) for c in f32], runmap(run_chunk_f32, f32)))
    known = ctx.known_ids()
    traces = []
    skip = set()
    worst = {}
    for c in cases:
        o = obs[id(c)]
        ctx.dist("impl:" + c["impl"])
        ctx.dist("history:" + c["hist"])
        if "exception" in o:
            ctx.violation(f"{c['impl']}: implementation raised {o['exception']}", c)
            continue
        try:
            trs = build_traces(c, o)
        except Exception as e:  # noqa: BLE001
            ctx.violation(f"{c['impl']}: state could not be read ({type(e).__name__}: {e})", c)
            continue
        for s in (o["steps"][0].get("stats", []) if c["impl"] == "ds_public" else []):
            if "error" in s:
                ctx.violation(f"ds_public: {s['error']}", c)
            if "skip" in s:
                ctx.dist("ds_public_stat_not_packed")
        for tr in trs:
            ctx.evaluated(len(tr.pp))
            ctx.cov["search_evaluations"] += len(tr.pp)
            # exact tracking of a rank<=k history: DS only without ridge (the ridge adds mass on every stored direction)
            exact = lowrank_holds(c, tr) and not (tr.extra["kind"] == "ds" and tr.extra["ridge"] != 0.0)
            fails, info = oracle_trace(tr, "lowrank" if exact else "other")
            key = tr.who.split(":")[0]
            w = worst.setdefault(key, {"max_lo": 0.0, "max_hi": 0.0, "max_rec": 0.0, "max_orth": 0.0, "max_inv": 0.0, "max_lowrank": 0.0})
            k5 = bool(tr.extra.get("k5"))
            ctx.dist("trace:" + key + (":dim<max_size" if k5 else ""))
            ctx.dist("steps_with_deflation", info["deflations"])
            ctx.dist("zero_gradient_steps", info["zero_steps"])
            ctx.dist("lowrank_exactness_steps", info["lowrank_exact"])
            if info["deflations"] > 0:
                ctx.nontrivial((tr.who, json.dumps(slim(c), sort_keys=True, default=str)))
            real = []
            for tag, msg, step in fails:
                # K5: public-API DS FD state, statistic with dim < max_size; its symptoms are the upper bracket (and the
                # quantities computed from the lost eigenvalues: stored inverse roots, has_zeros)
                if k5 and tag in ("upper", "inv"):
                    if "K5" in known:
                        ctx.known_finding("K5", K5_TEXT)
                        ctx.dist("known_finding_K5")
                        continue
                    msg = "[K5 regime, not listed in known_findings.json] " + msg
                real.append((tag, msg, step))
            if not fails:
                for kk in w:
                    w[kk] = max(w[kk], info[kk])
            if real:
                tag, msg, step = real[0]
                ctx.violation(f"{tr.who} history={c['hist']} step {step}: {msg}" + (f" (+{len(real) - 1} more)" if len(real) > 1 else ""), c)
                skip.add(id(tr))
            for kk_ in ("ema_matches_sqrt_decay", "ema_matches_decay"):
                if kk_ in info:
                    ctx.dist("sketchy_add_ggt:" + kk_, info[kk_])
            if tr.extra.get("linear_tail"):
                ctx.dist("trace:sketchy:linear_approx_tail(sketch-side clauses only)")
                skip.add(id(tr))     # `tail` is a fitted estimate there: the model (and the statement about t) does not apply
            if k5:
                skip.add(id(tr))     # the lost eigenvalues make the stored state differ from what the model keeps
            traces.append(tr)
    ctx.cov["oracle_worst_margins"] = worst
    correspondence(ctx, traces, skip={i for i in skip})
    reload_correspondence(ctx, [(c, obs[id(c)]) for c in cases if c["impl"] == "ds_direct" and "exception" not in obs[id(c)]])
    model_chain(ctx, [tr for tr in traces if id(tr) not in skip])
    return obs


def guard_literals():
    """(lo, hi, thr) of `(lo <= norms) & (norms <= hi)` and `padding_mass > thr` in `_fd_update_root` (ast)."""
    import ast
    src = os.path.join(kit.repo_src(), "distributed_shampoo.py")
    tree = ast.parse(open(src).read(), src)
    fn = [n for n in ast.walk(tree) if isinstance(n, ast.FunctionDef) and n.name == "_fd_update_root"]
    if not fn:
        raise kit.InfraError("_fd_update_root not found")
    lo = hi = thr = None
    num = lambda n: n.value if isinstance(n, ast.Constant) and isinstance(n.value, (int, float)) else None
    for n in ast.walk(fn[0]):
        if isinstance(n, ast.Compare) and len(n.ops) == 1 and len(n.comparators) == 1:
            l, r, op = n.left, n.comparators[0], n.ops[0]
            if isinstance(op, ast.LtE) and num(l) is not None and isinstance(r, ast.Name) and r.id == "norms":
                lo = float(num(l))
            if isinstance(op, ast.LtE) and num(r) is not None and isinstance(l, ast.Name) and l.id == "norms":
                hi = float(num(r))
            if isinstance(op, ast.Gt) and num(r) is not None and isinstance(l, ast.Name) and l.id == "padding_mass":
                thr = float(num(r))
    return lo, hi, thr


def const_stage(ctx):
    """literals the oracle/model rely on."""
    from harness import consts
    lo, hi, thr = guard_literals()
    ctx.cov.setdefault("constants", {})["_fd_update_root.guards"] = {"lo": lo, "hi": hi, "thr": thr}
    if lo is None or hi is None or thr is None:
        ctx.const_fail("_fd_update_root.guards", f"unit-norm window / padding-mass threshold not found as (lo <= norms) & (norms <= hi), "
                       f"padding_mass > thr: got {lo!r}, {hi!r}, {thr!r}")
    else:
        GUARDS.update({"lo": lo, "hi": hi, "thr": thr})
        if not (lo <= 1.0 <= hi):
            ctx.const_fail("_fd_update_root.guards", f"window [{lo}, {hi}] does not contain 1: hypotheses hlo/hhi of ds_guards_are_identities fail "
                           "(unit singular vectors would be zeroed)")
        if not (0.0 <= thr):
            ctx.const_fail("_fd_update_root.guards", f"padding-mass threshold {thr} < 0: hypothesis hthr of ds_guards_are_identities fails")
    try:
        tol = consts.func_default("distributed_shampoo.py", "_fd_update_root", "error_tolerance")
        ctx.cov.setdefault("constants", {})["_fd_update_root.error_tolerance"] = tol
        if not (isinstance(tol, float) and 0 < tol):
            ctx.const_fail("_fd_update_root.error_tolerance", f"{tol!r}: the per-step ridge is ridge_epsilon*max(l0, tol) with tol > 0")
    except kit.InfraError:
        raise


def run(ctx):
    ctx.lean_stage(extra_props=("Compose",))   # + the cross-model theorems of Props/Compose.lean in namespace ComposeProps.C09
    const_stage(ctx)
    ctx.cov["rule"] = ("a case is one gradient history x configuration x implementation; an evaluation is one FD step of one sketch "
                       "(oracle after every step); a sketch trace is non-trivial when at least one of its steps removes mass "
                       "(rho > 1e-6 tr) i.e. a real deflation happened; distinct by (statistic, configuration)")
    ctx.assumptions += [
        f"oracle tolerance {TOL64} * tr(C) on float64 paths (ds_direct, oco), {TOL32} * tr(C) on float32 paths (sketchy, ds_public)",
        "DS: the exact second moment includes the per-step ridge the configuration adds: C <- b (C + ridge_t V_t V_t') + G G' with "
        "ridge_t = ridge_epsilon * max(l_t[0] or 1, error_tolerance) read from the implementation's stored state",
        "rho of the recurrence oracle is the (k+1)-th eigenvalue (float64 LAPACK) of b*sketch_old + G G' built from the implementation's own previous state",
        "OCO FD_SON / ADA_FD keep no record of the escaped mass: the bracket uses the sum of the oracle's rho",
        "correspondence: model at Float from the implementation's previous state, LAPACK SVD of the model's own B checked by the driver "
        f"against SvdSpec (1e-10); TOL {KTOL64} (float64) / {KTOL32} (float32) of max|B B'|; inverse roots compared only on directions kept by both",
        "K5 is recognised by: ds_public trace with dim < max_size and a failure of the upper bracket / stored inverse roots",
        "Sketchy options: relative_epsilon, add_ggt, ekfac_svd, memory_alloc, update_freq leave (eigvecs, eigvals, tail) and hence the whole "
        "statement unchanged and are exercised; linear_approx_tail replaces `tail` by a fitted estimate (and drops it from the inverse roots): "
        "only the sketch-side clauses (sketch <= C, orthonormal-or-zero columns, l >= 0, zero-gradient discount of the sketch, exactness of "
        "rank<=k histories, tail not NaN and >= 0) are checked there; ema_ggt (add_ggt) is outside the statement (discount recorded in the distribution)",
    ]
    cases = load_corpus() + gen_cases(ctx.tier, ctx.seed)
    ctx.cov["corpus_cases"] = len(load_corpus())
    execute(ctx, cases)
    for c in cases[:: max(1, len(cases) // 5)]:
        ctx.sample({"case": slim(c), "first_gradient": c["grads"][0] if len(json.dumps(c["grads"][0])) < 600 else "(large)"})


def replay(ctx, data):
    cases = [v["case"] for v in data.get("violations", []) if isinstance(v.get("case"), dict) and "impl" in v["case"]]
    seen, uniq = set(), []
    for c in cases:
        key = json.dumps(c, sort_keys=True, default=str)
        if key not in seen:
            seen.add(key)
            uniq.append(c)
    ctx.cov["rule"] = "replay of recorded cases"
    if uniq:
        execute(ctx, uniq)
